#!/usr/bin/env python3-vt
import json, jsonschema, glob, sys
jsonschema.validate(json.load(open('/verif/MANIFEST.json')), json.load(open('/root/.vp/MANIFEST.schema.json')))
es = json.load(open('/root/.vp/EVIDENCE.schema.json'))
for f in sorted(glob.glob('/verif/evidence/*.json')):
    jsonschema.validate(json.load(open(f)), es)
print('manifest and', len(glob.glob('/verif/evidence/*.json')), 'evidence files valid')
