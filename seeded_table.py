#!/usr/bin/env python3
"""Regenerates the table of seeded changes in DESIGN.md (between the SEEDED-TABLE markers) from /verif/seeded/*/meta.json
and the first line of each README.md."""
import glob, json, os, re

VERIF = os.path.dirname(os.path.abspath(__file__))
rows = []
for d in sorted(glob.glob(os.path.join(VERIF, "seeded", "*-*"))):
    meta = json.load(open(os.path.join(d, "meta.json")))
    title = open(os.path.join(d, "README.md")).readline().strip().lstrip("# ").strip()
    title = re.sub(r"^C\d\d\s*/\s*(change |mutation )?[A-R]\s*:\s*", "", title)
    out = meta.get("check_output_with", "")
    kinds = []
    for line in out.splitlines():
        m = re.match(r"\s+([\w.-]+(?:\([^)]*\))?[\w-]*):", line)
        if m and m.group(1) not in kinds and not line.startswith("VIOLATION"):
            kinds.append(m.group(1))
    files = sorted(set(re.findall(r"^\+\+\+ b/(\S+)", open(os.path.join(d, "patch.diff")).read(), re.M)))
    rows.append((os.path.basename(d), title.replace("|", "/"), ", ".join(files), "yes" if meta.get("check_detected") else "NO (exit %s)" % meta.get("check_exit_with"),
                 ", ".join(kinds[:4]) or "-", meta.get("check_wall_s")))
tbl = ["| Change | What it does | Files | Detected (quick tier) | Reported as | s |", "|---|---|---|---|---|---|"]
for r in rows:
    tbl.append("| %s | %s | %s | %s | %s | %s |" % r)
txt = "\n".join(tbl)
p = os.path.join(VERIF, "DESIGN.md")
s = open(p).read()
a, b = "<!-- SEEDED-TABLE-BEGIN -->", "<!-- SEEDED-TABLE-END -->"
if a in s and b in s:
    s = s[:s.index(a) + len(a)] + "\n" + txt + "\n" + s[s.index(b):]
    open(p, "w").write(s)
print("%d changes, %d detected" % (len(rows), sum(1 for r in rows if r[3] == "yes")))
