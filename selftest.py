#!/usr/bin/env python3
"""selftest.py [<property id> ...]   (development tool, not registered in MANIFEST)

Demonstrates that the trace specifications are bound to what the recorders log: for every trace stage of the
given properties (default: all) it records a short trace from the real code, checks that TLC accepts it, and
then corrupts ONE leaf field of ONE event per event type (op/kind/f) at a time - a number is incremented, a limb
sequence gets its lowest limb changed, a string is replaced - and runs TLC again.  A corruption of a field
the specification constrains must make TLC stop at exactly that line (rejection, or an evaluation error at that
event); a corruption TLC accepts shows a field the spec does not constrain for that event type.  The report
(selftest_report.json / printed table) lists both, so unconstrained fields are a reviewed list and not a
surprise.  Fields that identify the history (seed, idx) are skipped.
"""
import copy, json, os, re, shutil, subprocess, sys, tempfile, time
from concurrent.futures import ThreadPoolExecutor

sys.path.insert(0, os.path.dirname(os.path.abspath(__file__)))
import checklib
from checklib import Ctx, build_binder, stage_specs, write_cfg, tlc_cmd, parse_tlc

SKIP = {"seed", "idx"}
MAXLINES = 300


ZERO_FDY = {"c": "fin", "d": {"s": 0, "m": [], "e": 0}}
ZERO_SBIG = {"s": 0, "m": []}


def leaves(x, path=()):
    if path and x in (ZERO_FDY, ZERO_SBIG, ZERO_FDY["d"]):
        return                       # placeholder of a field that does not apply to this event type
    if isinstance(x, dict):
        for k, v in x.items():
            if not path and k in SKIP:
                continue
            yield from leaves(v, path + (k,))
    elif isinstance(x, list):
        if all(isinstance(v, int) for v in x):
            yield path, x            # limb sequence / int list: one leaf
        else:
            for i, v in enumerate(x):
                yield from leaves(v, path + (i,))
    else:
        yield path, x


def corrupt(v, key=None):
    if isinstance(v, bool):
        return not v
    if isinstance(v, int):
        return v + 1 if key not in ("s",) else (-v if v else 1)
    if isinstance(v, float):
        return v + 1.0
    if isinstance(v, str):
        return {"fin": "nan", "none": "size"}.get(v, v + "x")
    if isinstance(v, list):
        return v[:-1] + [v[-1] + 1] if v else [1]      # most significant limb: a change far above any tolerance
    return v


def setpath(x, path, val):
    for p in path[:-1]:
        x = x[p]
    x[path[-1]] = val


def evtype(e):
    return "/".join(str(e[k]) for k in ("op", "kind", "f", "fn") if k in e and isinstance(e[k], str) and e[k] != "")


def run_tlc(d, st, cfg, lines, tag):
    dd = os.path.join(d, "v_" + tag)
    os.makedirs(dd)
    for f in os.listdir(d):
        if f.endswith(".tla") or f.endswith(".cfg"):
            shutil.copyfile(os.path.join(d, f), os.path.join(dd, f))
    open(os.path.join(dd, "trace.ndjson"), "w").write("\n".join(lines) + "\n")
    q = subprocess.run(["timeout", "600"] + tlc_cmd(dd, st["module"], cfg, 1, (), xmx="2g"), cwd=dd, capture_output=True, text=True)
    info = parse_tlc(q.stdout)
    acc = q.returncode == 0 and info["ok"] and info["depth"] - 1 == len(lines)
    shutil.rmtree(dd, ignore_errors=True)
    return acc, info["depth"], q.returncode


def selftest_stage(ctx, prop, st):
    st = dict(st)
    st.setdefault("family", prop["family"])
    st.setdefault("specdir", prop.get("specdir", st["family"]))
    fam = st["family"]
    d = stage_specs(ctx.scratch, st["specdir"], "self_" + st["name"])
    cfg = write_cfg(d, st["cfg"], ctx.subst(st.get("consts")))
    nshards = ctx.pick(st.get("shards", {"quick": 4, "thorough": 16}))
    rargs = [str(x) for x in ctx.pick(st.get("record_args", []))]
    binder = ctx.binder
    if st.get("race"):
        return dict(stage=st["name"], skipped="race-instrumented session stage (events are checked the same way by Session.tla)")
    p = subprocess.run([binder, "record", fam, "-seed", str(ctx.seed), "-shard", "0", "-of", str(nshards)] + rargs, cwd=d, capture_output=True, text=True)
    if p.returncode != 0:
        return dict(stage=st["name"], error="recorder failed: " + p.stderr[-300:])
    lines = p.stdout.splitlines()
    resets = [i for i, x in enumerate(lines) if '"op":"Reset"' in x]
    cut = len(lines)
    for r in resets:
        if r >= MAXLINES:
            cut = r
            break
    lines = lines[:cut]
    acc, depth, rc = run_tlc(d, st, cfg, lines, "base")
    if not acc:
        return dict(stage=st["name"], error="uncorrupted trace not accepted (depth %d of %d, rc %d)" % (depth, len(lines), rc))
    evs = [json.loads(x) for x in lines]
    pick = {}
    for i, e in enumerate(evs):
        t = evtype(e)
        # prefer an event in the middle of a history and, for replies with an error code, a successful one
        score = (1 if e.get("err", "none") in ("none", "") else 0, 1 if i not in resets else 0)
        if t not in pick or score > pick[t][1]:
            pick[t] = (i, score)
    jobs = []
    for t, (i, _) in sorted(pick.items()):
        for path, v in leaves(evs[i]):
            e2 = copy.deepcopy(evs[i])
            setpath(e2, path, corrupt(v, path[-1]))
            end = min([r for r in resets if r > i] or [len(lines)])
            l2 = list(lines[:end])
            l2[i] = json.dumps(e2, separators=(",", ":"))
            jobs.append((t, i, ".".join(str(x) for x in path), l2))
    def one(j):
        t, i, f, l2 = j
        acc, depth, rc = run_tlc(d, st, cfg, l2, "%d_%s" % (i, re.sub(r"\W", "_", f)))
        return dict(type=t, line=i + 1, field=f, accepted=acc, stopped_at=depth, at_line=(not acc and depth == i + 1))
    with ThreadPoolExecutor(max_workers=16) as ex:
        res = list(ex.map(one, jobs))
    types = {}
    for r in res:
        d0 = types.setdefault(r["type"], dict(constrained=[], unconstrained=[], elsewhere=[]))
        if r["at_line"]:
            d0["constrained"].append(r["field"])
        elif r["accepted"]:
            d0["unconstrained"].append(r["field"])
        else:
            d0["elsewhere"].append("%s(stopped at %d, event at %d)" % (r["field"], r["stopped_at"], r["line"]))
    return dict(stage=st["name"], events=len(lines), corruptions=len(res), types=types)


def main():
    from props import PROPS
    ids = sys.argv[1:] or sorted(PROPS)
    report = {}
    bad = 0
    for pid in ids:
        prop = PROPS[pid]
        tstages = [s for s in prop["stages"] if s["kind"] == "trace" and "thorough" != (s.get("tiers") or ["quick"])[0]]
        if not tstages:
            continue
        scratch = tempfile.mkdtemp(prefix="verif-self-%s-" % pid)
        ctx = Ctx(pid, "quick", 1, scratch)
        try:
            ctx.binder = build_binder(scratch)
            for st in tstages:
                t = time.time()
                r = selftest_stage(ctx, prop, st)
                r["wall_s"] = round(time.time() - t, 1)
                report.setdefault(pid, []).append(r)
                if "error" in r:
                    bad += 1
                    print("%s/%s: ERROR %s" % (pid, r["stage"], r["error"]))
                    continue
                if "skipped" in r:
                    print("%s/%s: skipped (%s)" % (pid, r["stage"], r["skipped"]))
                    continue
                print("%s/%s: %d events, %d single-field corruptions in %.0fs" % (pid, r["stage"], r["events"], r["corruptions"], r["wall_s"]))
                for t2, d0 in sorted(r["types"].items()):
                    print("   %-28s rejected at the event: %d   accepted: %s%s" % (t2, len(d0["constrained"]), ",".join(d0["unconstrained"]) or "-",
                                                                          ("   stopped elsewhere: " + ",".join(d0["elsewhere"])) if d0["elsewhere"] else ""))
                    if not d0["constrained"]:
                        bad += 1
                        print("   ^^ no field of this event type is constrained")
        finally:
            shutil.rmtree(scratch, ignore_errors=True)
    json.dump(report, open(os.path.join(checklib.VERIF, "selftest_report.json"), "w"), indent=1, sort_keys=True)
    return 1 if bad else 0


if __name__ == "__main__":
    sys.exit(main())
