#!/usr/bin/env python3
"""Confirm a seeded change and run the owning check against it.

  seeded.py <property id> <dir with patch.diff demo_test.go README.md> <label> [--tier quick|thorough] [--worktree DIR]

Steps (all in a scratch worktree of /repo, never in /repo itself):
  1 patch applies, library builds, the repository's own tests pass with it
  2 the demonstration fails with the patch and passes without it
  3 ./check <id> (VERIF_REPO=<worktree>) must exit 1 with a VIOLATION line with the patch, 0 without
Writes /verif/seeded/<id>-<label>/ {patch.diff, demo_test.go, README.md, meta.json}.
"""
import json, os, re, shutil, subprocess, sys, time

VERIF = os.path.dirname(os.path.abspath(__file__))
PKGDIR = {"stats": "stats", "mathx": "mathx", "scale": "scale", "fit": "fit", "vec": "vec", "graph": "graph",
          "graphalg": "graph/graphalg", "graphout": "graph/graphout"}


def run(cmd, cwd=None, env=None, timeout=3600):
    e = dict(os.environ)
    e.update(GOFLAGS="-mod=mod", GOPROXY="off", GOSUMDB="off", GOTOOLCHAIN="local")
    if env:
        e.update(env)
    p = subprocess.run(cmd, cwd=cwd, env=e, capture_output=True, text=True, timeout=timeout)
    return p.returncode, p.stdout + p.stderr


def main():
    pid, src, label = sys.argv[1:4]
    tier = "quick"
    wt = "/tmp/seedwt"
    a = sys.argv[4:]
    while a:
        if a[0] == "--tier":
            tier = a[1]; a = a[2:]
        elif a[0] == "--worktree":
            wt = a[1]; a = a[2:]
        else:
            a = a[1:]
    patch = os.path.join(src, "patch.diff")
    demo = os.path.join(src, "demo_test.go")
    meta = dict(property=pid, label=label, source=src, tier=tier, at=time.strftime("%Y-%m-%d %H:%M:%S"))
    if not os.path.exists(wt):
        rc, out = run(["git", "-C", "/repo", "worktree", "add", "-q", "--detach", wt, "HEAD"])
        if rc:
            print(out); return 2
    run(["git", "reset", "-q", "--hard"], cwd=wt)
    run(["git", "checkout", "-q", "--detach", subprocess.run(["git", "-C", "/repo", "rev-parse", "HEAD"], capture_output=True, text=True).stdout.strip()], cwd=wt)
    run(["git", "clean", "-fdq"], cwd=wt)
    meta["repo_head"] = subprocess.run(["git", "-C", wt, "rev-parse", "--short", "HEAD"], capture_output=True, text=True).stdout.strip()
    pkg = re.search(r"^package\s+(\w+)", open(demo).read(), re.M).group(1)
    pkgdir = PKGDIR.get(pkg.replace("_test", ""), None)
    if pkgdir is None:
        print("cannot place demo (package %s)" % pkg); return 2
    demodst = os.path.join(wt, pkgdir, "zz_seeded_demo_test.go")

    # a demonstration that only fails when run on its own or under the race detector says so in demo_args.txt
    # (e.g. "-race -run TestDemoC20P"); the file is kept next to the demo
    extra = []
    argsf = os.path.join(os.path.dirname(demo), "demo_args.txt")
    if os.path.exists(argsf):
        extra = open(argsf).read().split()
    meta["demo_args"] = extra

    def demo_run():
        shutil.copyfile(demo, demodst)
        rc, out = run(["go", "test", "-count=1", "-vet=off"] + extra + ["./" + pkgdir + "/"], cwd=wt, timeout=1200)
        os.remove(demodst)
        return rc, out

    # without the patch
    rc0, out0 = demo_run()
    meta["demo_passes_without"] = rc0 == 0
    rc, out = run(["git", "apply", patch], cwd=wt)
    if rc:
        rc, out = run(["git", "apply", "--3way", patch], cwd=wt)      # later fix: commits moved the context: merge
        if rc:
            run(["git", "checkout", "-q", "--", "."], cwd=wt)
            run(["git", "reset", "-q", "--hard"], cwd=wt)
        else:
            run(["git", "reset", "-q"], cwd=wt)
            meta["note"] = "applied with a 3-way merge (the context moved with later fix: commits)"
    if rc:
        # the change was written against an earlier /repo HEAD (before later fix: commits touched the same lines): judge it
        # on the tree it was confirmed on
        old = None
        try:
            old = json.load(open(os.path.join(VERIF, "seeded", "%s-%s" % (pid, label), "meta.json"))).get("repo_head")
        except Exception:
            pass
        for base in [old, "b39d87d"]:
            if not base:
                continue
            run(["git", "checkout", "-q", "--detach", base], cwd=wt)
            rc, out = run(["git", "apply", patch], cwd=wt)
            if rc == 0:
                meta["repo_head"] = base
                meta["note"] = "applied to the earlier /repo commit it was written against (does not apply to the current HEAD)"
                rc0, out0 = 0, ""
                break
    meta["applies"] = rc == 0
    if rc:
        print("patch does not apply:", out); meta["error"] = out[-500:]
    else:
        rc, out = run(["go", "build", "./..."], cwd=wt)
        meta["builds"] = rc == 0
        rc, out = run(["go", "test", "-count=1", "-vet=off", "./..."], cwd=wt, timeout=1800)
        meta["repo_tests_pass_with"] = rc == 0
        if rc:
            meta["repo_tests_output"] = out[-800:]
        rc1, out1 = demo_run()
        meta["demo_fails_with"] = rc1 != 0
        meta["demo_output_with"] = "\n".join([x for x in out1.splitlines() if "FAIL" in x or "---" in x or "demo" in x.lower()][:12])
        # the check
        t = time.time()
        rc, out = run([os.path.join(VERIF, "check"), pid, "--tier", tier], cwd=VERIF, env={"VERIF_REPO": wt}, timeout=6 * 3600)
        meta["check_exit_with"] = rc
        meta["check_wall_s"] = round(time.time() - t, 1)
        meta["check_detected"] = rc == 1 and "VIOLATION property=%s" % pid in out
        meta["check_output_with"] = "\n".join([x for x in out.splitlines() if x.startswith("VIOLATION") or x.startswith("  ") or "MACHINERY" in x][:10])[:3000]
        shutil.rmtree(os.path.join(VERIF, "replays"), ignore_errors=True)
    run(["git", "reset", "-q", "--hard"], cwd=wt)
    ok = meta.get("applies") and meta.get("builds") and meta.get("repo_tests_pass_with") and meta.get("demo_fails_with") and meta.get("demo_passes_without")
    meta["confirmed"] = bool(ok)
    dst = os.path.join(VERIF, "seeded", "%s-%s" % (pid, label))
    if ok:
        os.makedirs(dst, exist_ok=True)
        shutil.copyfile(patch, os.path.join(dst, "patch.diff"))
        shutil.copyfile(demo, os.path.join(dst, "demo_test.go"))
        if os.path.exists(os.path.join(src, "README.md")):
            shutil.copyfile(os.path.join(src, "README.md"), os.path.join(dst, "README.md"))
        if os.path.exists(os.path.join(src, "demo_args.txt")):
            shutil.copyfile(os.path.join(src, "demo_args.txt"), os.path.join(dst, "demo_args.txt"))
        meta["demo_package_dir"] = pkgdir
        meta["ran"] = ["git apply patch.diff (scratch worktree of /repo)", "go build ./... ; go test -count=1 ./...", "go test ./%s/ with demo_test.go (with and without the patch)" % pkgdir,
                       "VERIF_REPO=<worktree> ./check %s --tier %s" % (pid, tier)]
        json.dump(meta, open(os.path.join(dst, "meta.json"), "w"), indent=1)
    brief = {k: meta.get(k) for k in ("property", "label", "confirmed", "applies", "builds", "repo_tests_pass_with", "demo_fails_with",
                                      "demo_passes_without", "check_exit_with", "check_detected", "check_wall_s")}
    brief["check_output_with"] = (meta.get("check_output_with") or "")[:1200]
    print(json.dumps(brief))
    return 0


if __name__ == "__main__":
    sys.exit(main())
