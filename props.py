"""Registry: property id -> family, stages (see DESIGN.md section 4)."""

PROPS = {}

PROPS["C13"] = dict(
    family="stream",
    technique="TLA+ state machine of StreamStats (bag abstraction + exact-rational Welford/Chan algorithm layer) checked by TLC; all Add/Combine histories replayed into the real object; recorded random histories validated by a TLC trace spec with exact BigInt comparison of float results",
    level_text="TLC exhaustively explores every Add/Combine history over 3 accumulators to depth 4 (thorough 5, and 7 over 2) checking that the algorithm-shaped state refines the bag definition; each emitted history is replayed into stats.StreamStats under 6 exact affine value maps and every observable compared with the exact rational; random long histories (6 accumulators, offsets to 3e7) recorded from the real object are validated event by event by StreamTrace.tla",
    level_note="Trusted: TLC, the binder's comparison code and tolerance formulas (Mean: max(1e-12,1024 n eps) max|x|; Variance: rel max(1e-9, 1024 n eps kappa)); sizes beyond the bounds are sampled, not exhausted; Combine(a,a) is outside the statement",
    stages=[
        dict(name="gen", kind="gen", module="Stream.tla", cfg="Stream_gen.cfg",
             consts=dict(Depth={"quick": 4, "thorough": 5}, Acc="{1,2,3}")),
        dict(name="gen2", kind="gen", module="Stream.tla", cfg="Stream_gen.cfg", tiers=["thorough"],
             consts=dict(Depth=7, Acc="{1,2}")),
        dict(name="trace", kind="trace", module="StreamTrace.tla", cfg="StreamTrace.cfg",
             record_args={"quick": ["-n", 120, "-ops", 60], "thorough": ["-n", 4000, "-ops", 200]}),
    ],
)
