"""Registry: property id -> family, stages (see DESIGN.md section 4)."""

PROPS = {}

PROPS["C13"] = dict(
    family="stream",
    technique="TLA+ state machine of StreamStats (bag abstraction + exact-rational Welford/Chan algorithm layer) checked by TLC; all Add/Combine histories replayed into the real object; recorded random histories validated by a TLC trace spec with exact BigInt comparison of float results",
    level_text="TLC exhaustively explores every Add/Combine history over 3 accumulators to depth 4 (thorough 5, and 7 over 2) checking that the algorithm-shaped state refines the bag definition; each emitted history is replayed into stats.StreamStats under 6 exact affine value maps and every observable compared with the exact rational; random long histories (6 accumulators, offsets to 3e7) recorded from the real object are validated event by event by StreamTrace.tla",
    level_note="Trusted: TLC, the binder's comparison code and tolerance formulas (Mean: max(1e-12,1024 n eps) max|x|; Variance: rel max(1e-9, 1024 n eps kappa)); sizes beyond the bounds are sampled, not exhausted; Combine(a,a) is outside the statement",
    stages=[
        dict(name="gen", kind="gen", module="Stream.tla", cfg="Stream_gen.cfg",
             consts=dict(Depth={"quick": 4, "thorough": 5}, Acc="{1,2,3}")),
        dict(name="gen2", kind="gen", module="Stream.tla", cfg="Stream_gen.cfg", tiers=["thorough"],
             consts=dict(Depth=7, Acc="{1,2}")),
        dict(name="trace", kind="trace", module="StreamTrace.tla", cfg="StreamTrace.cfg",
             record_args={"quick": ["-n", 120, "-ops", 60], "thorough": ["-n", 4000, "-ops", 200]}),
    ],
)

_graph_note = ("Trusted: TLC, the binder's comparison code; the spec's definitions are cross-checked by TLC on every enumerated graph "
               "(orders are permutations of the reachable set, components partition the nodes, the condensation is acyclic, the immediate dominator "
               "is unique, two formulations of the dominance frontier agree; on graphs of <= 3 nodes the table-based evaluation equals the literal definitions). "
               "Graphs beyond the enumerated bounds are covered by recorded random multigraphs (to 60 nodes for orders/SCC, 40 for dominators) validated by GraphTrace.tla.")

PROPS["C18"] = dict(
    family="graph",
    technique="TLA+ definitions of DFS orders, SCCs (mutual reachability), condensation, transpose, subgraphs, Dot quoting and a NodeMarks state machine with a storage-refinement layer, enumerated by TLC over all small digraphs / histories / strings and replayed into graph, graphalg, graphout; recorded NodeMarks histories validated by a TLC trace spec",
    level_text="TLC enumerates every ordered multigraph on <= 3 nodes (<= 4 edges, thorough 6) and every digraph on 4 nodes with <= 6 edges (thorough: all 65,536, and 5 nodes with <= 6 edges) with expected pre/post/Euler orders for every root, the SCC partition, condensation edges and predecessor bags; the binder replays them into the real API (also padded so node ids cross 32/1024/2048/65536, with permuted and duplicated adjacency lists); SCC is judged relationally. Subgraph Keep/Remove requests for every node subset, all strings up to length 4 (thorough 5) over the quoting alphabet, and all Mark/Unmark histories to depth 3 (thorough 5) over storage-boundary ids are enumerated likewise; random NodeMarks histories with ids to 100000 are validated by MarksTrace.tla",
    level_note=_graph_note,
    stages=[
        dict(name="graphs3", kind="gen", module="Graph.tla", cfg="Graph_gen.cfg",
             consts=dict(MaxNodes=3, MaxEdges={"quick": 4, "thorough": 6}, Ordered="TRUE", Extra="TableAgrees")),
        dict(name="graphs4", kind="gen", module="Graph.tla", cfg="Graph_gen.cfg",
             consts=dict(MaxNodes=4, MaxEdges={"quick": 6, "thorough": 16}, Ordered="FALSE", Extra="")),
        dict(name="graphs5", kind="gen", module="Graph.tla", cfg="Graph_gen.cfg", tiers=["thorough"],
             consts=dict(MaxNodes=5, MaxEdges=6, Ordered="FALSE", Extra="")),
dict(name="algorithms", kind="mc", module="Graph.tla", cfg="Graph_alg.cfg",
             consts=dict(MaxNodes=4, MaxEdges={"quick": 6, "thorough": 16}, Ordered="FALSE"),
             note="algorithm layer of Graph.tla (Cooper-Harvey-Kennedy dominators, the DomFrontier walk, Tarjan's SCC as the library runs them) agrees with the definitions on every enumerated graph"),
        dict(name="sub3", kind="gen", family="sub", module="Graph.tla", cfg="Graph_sub.cfg",
             consts=dict(MaxNodes=3, MaxEdges={"quick": 4, "thorough": 5}, Ordered="TRUE")),
        dict(name="sub4", kind="gen", family="sub", module="Graph.tla", cfg="Graph_sub.cfg",
             consts=dict(MaxNodes=4, MaxEdges={"quick": 4, "thorough": 6}, Ordered="FALSE")),
        dict(name="dot", kind="gen", family="dot", module="Dot.tla", cfg="Dot_gen.cfg",
             consts=dict(MaxLen={"quick": 4, "thorough": 5})),
        dict(name="marks", kind="gen", family="marks", module="Marks.tla", cfg="Marks_gen.cfg",
             consts=dict(Depth={"quick": 3, "thorough": 5})),
        dict(name="marks_trace", kind="trace", family="marks", module="MarksTrace.tla", cfg="MarksTrace.cfg",
             record_args={"quick": ["-n", 200, "-ops", 150], "thorough": ["-n", 3000, "-ops", 300]}),
        dict(name="graph_trace", kind="trace", family="graphrec", module="GraphTrace.tla", cfg="GraphTrace.cfg",
             record_args={"quick": ["-n", 200, "-max", 60, "-ops", "orders,scc"], "thorough": ["-n", 3000, "-max", 60, "-ops", "orders,scc"]}),
    ],
)
PROPS["C18"]["stages"] = [dict(st, specdir="graph") for st in PROPS["C18"]["stages"]]

PROPS["C19"] = dict(
    family="dom",
    technique="TLA+ definition of dominance by node deletion (immediate dominators, dominance frontiers) evaluated by TLC on every enumerated digraph and root, replayed into graphalg.IDom/Dom/DomFrontier with permuted lists, parallel edges and padded ids",
    level_text="TLC enumerates every ordered multigraph on <= 3 nodes and every digraph on 4 nodes with <= 6 edges (thorough: all 65,536, and 5 nodes with <= 6 edges) and computes IDom and DomFrontier for every root from the node-deletion definition (cross-checked against the idom-chain formulation); the binder calls the real IDom, Dom and DomFrontier (nil and supplied idom) on each (graph, root), also with permuted adjacency lists, parallel edges and padded node ids, under recover and a watchdog; root membership in a frontier is don't-care when the root has exactly one incoming edge, as the statement says",
    level_note=_graph_note,
    stages=[
        dict(name="graphs3", kind="gen", module="Graph.tla", cfg="Graph_gen.cfg",
             consts=dict(MaxNodes=3, MaxEdges={"quick": 4, "thorough": 6}, Ordered="TRUE", Extra="TableAgrees")),
        dict(name="graphs4", kind="gen", module="Graph.tla", cfg="Graph_gen.cfg",
             consts=dict(MaxNodes=4, MaxEdges={"quick": 6, "thorough": 16}, Ordered="FALSE", Extra="")),
        dict(name="graphs5", kind="gen", module="Graph.tla", cfg="Graph_gen.cfg", tiers=["thorough"],
             consts=dict(MaxNodes=5, MaxEdges=6, Ordered="FALSE", Extra="")),
    ],
)
PROPS["C19"]["stages"].append(
    dict(name="algorithms", kind="mc", module="Graph.tla", cfg="Graph_alg.cfg",
             consts=dict(MaxNodes=4, MaxEdges={"quick": 6, "thorough": 16}, Ordered="FALSE"),
             note="algorithm layer of Graph.tla (Cooper-Harvey-Kennedy dominators, the DomFrontier walk, Tarjan's SCC as the library runs them) agrees with the definitions on every enumerated graph"))
PROPS["C19"]["stages"].append(
    dict(name="graph_trace", kind="trace", family="graphrec", module="GraphTrace.tla", cfg="GraphTrace.cfg",
         record_args={"quick": ["-n", 300, "-max", 40, "-ops", "dom"], "thorough": ["-n", 5000, "-max", 40, "-ops", "dom"]}))
PROPS["C19"]["stages"] = [dict(st, specdir="graph") for st in PROPS["C19"]["stages"]]

PROPS["C14"] = dict(
    family="hist",
    technique="TLA+ state machine of LinearHist/LogHist counters with exact lattice edges and an admissible-set specification of HistogramQuantile, enumerated by TLC over shapes x multisets of added values and replayed into the real histograms",
    level_text="TLC enumerates, for 7 shapes (thorough 13: dyadic and non-dyadic linear widths, log bases 2..10 with 1..4 bins per power), every multiset of up to 4 (thorough 6) added lattice values - edges, one step either side, up to a full bin below the first edge, far outside - checking conservation and that exactly one counter moves per Add; each case carries the expected counters and, for q = k/16, the admissible set of HistogramQuantile under both rank conventions; the binder adds the values to the real histogram one at a time, compares counters, BinToValue, quantiles (also through a user-defined Histogram), monotonicity in q and the IQR identity; a panic is a violation",
    level_note="Trusted: TLC, binder comparison code, math.Pow for LogHist reference edges. Values exactly on an edge whose float representation is inexact may fall on either side (statement). Recorded random Add sequences (random shapes with 1..50 bins, bases 2..10, up to 500 values) are validated by HistTrace.tla (counter conservation, edge-determined bins, quantile bin containment under one rank convention, monotonicity in q).",
    stages=[
        dict(name="gen", kind="gen", module="Hist.tla", cfg="Hist_gen.cfg",
             consts=dict(Shapes={"quick": "ShapesQuick", "thorough": "ShapesThorough"}, Depth={"quick": 4, "thorough": 6})),
        dict(name="trace", kind="trace", module="HistTrace.tla", cfg="HistTrace.cfg",
             record_args={"quick": ["-n", 120, "-adds", 120], "thorough": ["-n", 3000, "-adds", 500]}),
    ],
)

_mw_note = ("Trusted: TLC, binder comparison code (P accepted iff |P - exact| <= 1e-12 + 1e-9 exact; normal-approximation P evaluated with math.Erfc, abs 1e-10). "
            "The specification's count vector is cross-checked by TLC against literal subset enumeration and literal pair counting (N <= CrossN), the Mann-Whitney recurrence (untied), "
            "and the mirror/reversal/sum laws. Known finding: the exact two-sided P (see known_findings.txt) is attributed by signature only.")

PROPS["C01"] = dict(
    family="mw", specdir="mw",
    technique="TLA+ definition of U (pair count) and of the exact permutation distribution (allocation generating function, cross-checked by subset enumeration) enumerated by TLC over every tie vector, split and allocation; replayed into MannWhitneyUTest",
    level_text="TLC enumerates every tie vector with N <= 9 (thorough 12), every n1 and every allocation of tied values to the two samples, computing 2U and the exact cumulative tail counts over C(N,n1) (cross-checked against literal subset enumeration for N <= 7); the binder materialises each allocation under strictly increasing value maps and shuffles, calls MannWhitneyUTest for the three alternatives and compares N1, N2, U exactly and P to the exact rational",
    level_note=_mw_note,
    stages=[dict(name="gen", kind="gen", module="MannWhitney.tla", cfg="MW_gen.cfg",
                 consts=dict(MaxN={"quick": 9, "thorough": 12}, CrossN={"quick": 7, "thorough": 8}, Configs="ConfigsDefault", StartT="StartEmpty"), timeout={"quick": 1500, "thorough": 7000}),
            dict(name="mid", kind="gen", module="MannWhitney.tla", cfg="MW_gen.cfg",
                 consts=dict(MaxN=0, CrossN=0, Configs="ConfigsWide", StartT={"quick": "MidPoolsQuick", "thorough": "MidPoolsThorough"}), timeout={"quick": 900, "thorough": 5000}),
            dict(name="large", kind="gen", family="mwlarge", module="MWLarge.tla", cfg="MWLarge.cfg", workers=6,
                      consts=dict(Sizes={"quick": "SizesQuickBase", "thorough": "SizesThorough"}), timeout={"quick": 1200, "thorough": 3000}),
            dict(name="trace", kind="trace", module="MannWhitneyTrace.tla", cfg="MannWhitneyTrace.cfg",
                      consts=dict(DPMaxN={"quick": 12, "thorough": 18}),
                      record_args={"quick": ["-n", 24, "-calls", 5, "-max", 80], "thorough": ["-n", 480, "-calls", 8, "-max", 300]})],
)
PROPS["C02"] = dict(
    family="udist", specdir="mw",
    technique="TLA+ definition of the null distribution of U for every tie vector (count vector over C(N,N1)), enumerated by TLC and compared with UDist.PMF/CDF on the whole half-integer grid",
    level_text="TLC enumerates every (N1,N2,T) with N1+N2 <= 9 (thorough 13) and emits the exact count vector (three formulations cross-checked, mirror and reversal laws checked by TLC); the binder evaluates UDist.PMF and CDF at every half-integer from -1 to N1*N2+1 and CDF at off-grid points, for T as given and T=nil when untied, against the exact rationals, plus Bounds, Step, monotonicity",
    level_note=_mw_note,
    stages=[dict(name="gen", kind="gen", module="MannWhitney.tla", cfg="MW_gen.cfg",
                 consts=dict(MaxN={"quick": 9, "thorough": 13}, CrossN={"quick": 7, "thorough": 8}, Configs="ConfigsDefault", StartT="StartEmpty"), timeout={"quick": 1500, "thorough": 7000}),
            dict(name="mid", kind="gen", module="MannWhitney.tla", cfg="MW_gen.cfg",
                 consts=dict(MaxN=0, CrossN=0, Configs="ConfigsWide", StartT={"quick": "MidPoolsQuick", "thorough": "MidPoolsThorough"}), timeout={"quick": 900, "thorough": 5000}),
            dict(name="lop", kind="gen", module="MannWhitney.tla", cfg="MW_gen.cfg",
                 consts=dict(MaxN=0, CrossN=0, Configs="ConfigsWide", StartT={"quick": "LopPoolsQuick", "thorough": "LopPoolsThorough"}), timeout={"quick": 900, "thorough": 5000}),
            dict(name="large", kind="gen", family="mwlarge", module="MWLarge.tla", cfg="MWLarge.cfg", workers=6,
                      consts=dict(Sizes={"quick": "SizesQuick", "thorough": "SizesThorough"}), timeout={"quick": 1500, "thorough": 4000})],
)
PROPS["C03"] = dict(
    family="mw", specdir="mw",
    technique="TLA+ state machine with the two limit variables as state (SetLimits) and Test returning error / exact tails / normal-approximation descriptor; enumerated by TLC under four limit configurations and replayed into MannWhitneyUTest with swap, shuffle, monotone-map and argument-immutability checks",
    level_text="TLC enumerates every tie vector with N <= 7 (thorough 9), every split including empty samples and single-valued pools, under the limit configurations (50,25), (0,0), (3,2), (1000,1000); each case carries the expected error or method and either exact tails or the approximation descriptor (variance as an exact rational, continuity-corrected numerator); the binder sets the public limit variables, calls the test for all alternatives, the swapped call, shuffled and monotonically mapped data, and snapshots the arguments",
    level_note=_mw_note + " In the trace direction (samples up to 300 values, limits changed mid-history) TLC decides U, errors, the method switch-over, twin laws and - for pools up to DPMaxN - the exact P; the numeric value of the approximate P at large sizes is decided in the replay direction on small pools only (the formula is size-independent).",
    stages=[dict(name="gen", kind="gen", module="MannWhitney.tla", cfg="MW_gen.cfg",
                 consts=dict(MaxN={"quick": 7, "thorough": 9}, CrossN={"quick": 6, "thorough": 7}, Configs="ConfigsSix", StartT="StartEmpty")),
            dict(name="large", kind="gen", family="mwlarge", module="MWLarge.tla", cfg="MWLarge.cfg", workers=6,
                      consts=dict(Sizes={"quick": "SizesQuickBase", "thorough": "SizesThorough"}), timeout={"quick": 1200, "thorough": 3000}),
            dict(name="trace", kind="trace", module="MannWhitneyTrace.tla", cfg="MannWhitneyTrace.cfg",
                      consts=dict(DPMaxN={"quick": 12, "thorough": 18}),
                      record_args={"quick": ["-n", 24, "-calls", 5, "-max", 80], "thorough": ["-n", 480, "-calls", 8, "-max", 300]})],
)

PROPS["C17"] = dict(
    family="ticks", specdir="ticks",
    technique="TLA+ state machine of the FindLevel search checked against its definition for every threshold/guess/limit combination; exact rational model of Linear and Log tick sets with the level chosen by the definition; relational TLA+ specification of Nice validated on recorded calls",
    level_text="FindLevel.tla: TLC explores the search (clamp, probe down/up) for every threshold of a non-increasing count function, guess and level-limit pair in -6..6 (thorough -12..12) plus never/always-fitting tickers and checks it returns the lowest fitting level or fails exactly when none exists; terminal states are replayed into TickOptions.FindLevel with a table-driven Ticker. Ticks.tla: exact tick sets for 12 (thorough 80+) mantissa domains x bases 0,2,3,5,10,16 x scales 10^-9..10^9 x Max 1..20 x level limits, and Log domains spanning 1e-100..1e100 of either sign; Ticks, CountTicks and TicksAtLevel of the real scales are compared tick by tick. NiceTrace.tla: recorded Nice calls on random domains are judged by the relational specification (never shrinks, finite; Max >= 3: idempotent, < 1 major spacing per end, ends are major ticks)",
    level_note="Trusted: TLC, binder comparison code (tick values within 1e-9 of the domain width / relative for Log), math.Pow for scaling mantissa domains. Domains end on a tick or at least 1e-6 widths away from one (statement). Nice with level limits that admit no level is only required not to shrink or corrupt the domain.",
    stages=[
        dict(name="findlevel", kind="gen", family="findlevel", module="FindLevel.tla", cfg="FindLevel_gen.cfg",
             consts=dict(Span={"quick": 4, "thorough": 8})),
        dict(name="ticks", kind="gen", family="ticks", module="Ticks.tla", cfg="Ticks_gen.cfg",
             consts=dict(LinDoms={"quick": "LinDomsQuick", "thorough": "LinDomsThorough"},
                         LinBases={"quick": "{0,2,3,10,16}", "thorough": "{0,2,3,5,10,16}"},
                         Scales={"quick": "{0,3,9}", "thorough": "{0,1,3,6,9}"},
                         LogDoms={"quick": "LogDomsQuick", "thorough": "LogDomsThorough"},
                         LogBases={"quick": "{2,3,10,16}", "thorough": "{2,3,5,10,16}"},
                         Maxes={"quick": "{1,2,3,5,10,20}", "thorough": "{1,2,3,4,5,6,7,8,10,13,17,20}"})),
        dict(name="findlevel_unbounded", kind="apalache", family="findlevel", module="FindLevelInd.tla", inv="IndInv", indinit="IndInit",
             note="inductive invariant (contains the postcondition: lowest fitting level, failure iff none) over unbounded integer levels, thresholds and limits"),
        dict(name="nice", kind="trace", family="nice", module="NiceTrace.tla", cfg="NiceTrace.cfg",
             record_args={"quick": ["-n", 40, "-calls", 30], "thorough": ["-n", 1600, "-calls", 60]}),
    ],
)

PROPS["C15"] = dict(
    family="fit", specdir="fit",
    technique="TLA+ definition of weighted least squares through the exact normal equations (BigInt Cramer solution, normal equations re-verified by TLC) and of LOESS (nearest-window, tricube weights, local polynomial) enumerated by TLC over integer designs and replayed into fit.LinearLeastSquares / PolynomialRegression / LOESS",
    level_text="TLC enumerates integer designs (6 abscissa sets of 3..7 points, thorough 11 sets up to 10 points) x bases (monomials to degree 3, thorough 6; |x|, step, mod, no-constant) x generating polynomials x perturbations x weight patterns and, for LOESS, degree 0..2 x span {1/3,1/2,3/4,1} x every half-integer query between the ends; it computes A = X'WX, b = X'Wy and the exact solution by Cramer's rule in BigInt, checks A beta = b, that polynomial data reproduces itself and that edge points of a LOESS window have weight zero; the binder drives the real routines with table-driven term callbacks, compares coefficients, normal equations, F, the LOESS value on sorted and shuffled input, and snapshots the inputs",
    level_note="Trusted: TLC, binder comparison code, gonum mat.Cond for the tolerance max(1e-9, 16 eps cond(A)); rank-deficient designs and LOESS windows with too few positive-weight points are outside the statement and not emitted; smooth non-polynomial bases are represented by integer-valued tables (the routine only sees the numbers the callbacks write).",
    stages=[
        dict(name="gen", kind="gen", module="Fit.tla", cfg="Fit_gen.cfg",
             consts=dict(XSets={"quick": "XSetsQuick", "thorough": "XSetsThorough"},
                         Bases={"quick": '{"poly0","poly1","poly2","poly3","abs","nocst","step","mod"}',
                                "thorough": '{"poly0","poly1","poly2","poly3","poly4","poly5","poly6","abs","nocst","step","mod"}'},
                         Coefs={"quick": "CoefsQuick", "thorough": "CoefsThorough"}), timeout={"quick": 600, "thorough": 3000}),
    ],
)

PROPS["C12"] = dict(
    family="kde", specdir="kde",
    technique="TLA+ model of a KDE object (sample, kernel, lazily filled bandwidth, reflecting boundaries) with exact integer Epanechnikov sums over the reflection image list; TLC checks mass/monotonicity laws and emits exact values and the image structure, replayed into stats.KDE for the Epanechnikov, Gaussian and delta kernels; KDETrace.tla validates recorded histories of one mutable KDE object (field assignments interleaved with PDF/CDF/Bounds calls, lazily filled bandwidth as a state change) with exact BigInt Epanechnikov sums on random samples of up to 40 values",
    level_text="TLC enumerates 6 samples (thorough 11; weighted and unweighted, repeated values) x 5 bandwidths (thorough 9, 1/4..50) x 8 boundary configurations (thorough 13: none, lower only, upper only, both; touching the data to far away) and computes exact Epanechnikov PDF and CDF on the quarter lattice from below the lower to above the upper boundary, checking non-negativity, monotonicity and that the unclamped CDF formula is exactly 0 / 1 at the boundaries (total mass 1); the binder compares KDE.PDF/CDF for the Epanechnikov kernel with the exact rationals, for the Gaussian kernel with the same image structure evaluated with Erfc/Exp, for the delta kernel with the weighted ECDF, integrates the PDF over every lattice cell (Gauss-Legendre) against CDF differences, and checks Bounds, Scott/Silverman and the lazily filled Bandwidth. KDETrace.tla: 48 (thorough 1600) recorded histories on random samples of 1..40 scaled-integer values (ties, weights 1..9, offsets to 2^24, scales 2^-8..2^5); the driver assigns Kernel, Bandwidth (incl. 0 = Scott's rule, filled by the first query and then frozen) and boundaries between queries on the same object; every PDF/CDF reply is judged against the reflection structure with exact Epanechnikov sums (2^-30), the delta kernel's weighted ECDF, and for the Gaussian kernel the structure's image list summed over harness-evaluated kernel averages; Bounds must be finite, ordered, inside the boundaries and hold >= 98% of the (exact) mass; the sample slices must stay bit-identical",
    level_note="Trusted: TLC, binder comparison code, Go math (Exp, Erfc, Sqrt, Pow) for Gaussian kernel values and the bandwidth rules' irrational factors (the TLA+ side provides their exact rational ingredients). Weighted samples with zero Bandwidth are outside the statement (weighted StdDev is not implemented).",
    stages=[
        dict(name="gen", kind="gen", module="KDE.tla", cfg="KDE_gen.cfg",
             consts=dict(Samples={"quick": "SamplesQuick", "thorough": "SamplesThorough"},
                         Hs={"quick": "HsQuick", "thorough": "HsThorough"},
                         Bounds={"quick": "BoundsQuick", "thorough": "BoundsThorough"})),
        dict(name="trace", kind="trace", module="KDETrace.tla", cfg="KDETrace.cfg",
             record_args={"quick": ["-n", 48, "-max", 40], "thorough": ["-n", 1600, "-max", 40]}, shards={"quick": 8, "thorough": 16},
             timeout={"quick": 1500, "thorough": 7000}),
    ],
)

_sample_note = ("Trusted: TLC, binder comparison code and tolerances (location results: max(1e-12, 1024 n eps) max|x|; Variance: rel max(1e-9, 1024 n eps kappa); "
                "Quantile: 1e-12 of the data range), math.Pow/Log/Exp for GeoMean. Weighted samples whose weights are all zero, and weighted Variance/StdDev "
                "(not implemented), are outside the statement.")
_sample_consts = dict(MaxLen={"quick": 3, "thorough": 4}, WeightVals="{0,1,2}", Depth={"quick": 2, "thorough": 3}, MaxObjs={"quick": 2, "thorough": 3})
PROPS["C09"] = dict(
    family="sample", specdir="sample",
    technique="TLA+ heap model of Sample objects (Sort relational, Copy with fresh store, queries as functions of the bag of (value, weight) pairs) enumerated by TLC over all small samples, weight vectors, Sorted flags and Sort/Copy histories; exact rational expectations replayed into stats.Sample and the slice functions under affine value maps and permutations",
    level_text="TLC enumerates every sample of up to 3 (thorough 4) values over {-2,0,1,3}, unweighted or with every weight vector over {0,1,2} of positive total, both legitimate settings of Sorted, and every history of up to 2 (thorough 3) Sort/Copy operations; it checks that Sort keeps the pair bag and the store, that Copy never shares a store, and that integer weights mean repetition; each state carries the exact Mean, Variance, Sum, Weight and Bounds of every object; the binder replays the history on real Samples under 4 exact affine maps (offsets to 1e9) and random permutations, asks every query of every object with a snapshot before and after, and checks Sort/Copy relationally (ascending, pair bag, same / disjoint storage)",
    level_note=_sample_note,
    stages=[dict(name="gen", kind="gen", module="Sample.tla", cfg="Sample_gen.cfg", consts=_sample_consts,
                 replay_args=["-notwhat", "Quantile,IQR"]),
            dict(name="vec", kind="gen", family="vec", module="Vec.tla", cfg="Vec_gen.cfg", consts=dict(Nums={"quick": "NumsQuick", "thorough": "NumsThorough"})),
            dict(name="trace", kind="trace", module="SampleTrace.tla", cfg="SampleTrace.cfg",
                 record_args={"quick": ["-n", 120, "-max", 60, "-ops", 30, "-funcs", "stats"], "thorough": ["-n", 3000, "-max", 200, "-ops", 40, "-funcs", "stats"]})],
)
PROPS["C10"] = dict(
    family="sample", specdir="sample",
    technique="TLA+ definition of the Hyndman-Fan type 8 quantile (exact rationals, clamped) and of the weighted quantile (admissible set at exact cumulative-weight ties with non-dyadic q), with monotonicity and range laws checked by TLC; replayed into Sample.Quantile / IQR on every object of the Sort/Copy histories",
    level_text="For every enumerated sample (as C09) and every level q in {-1/2, 0, k/16, 1/3, 2/3, the R8 break points (3k-1)/(3n+1), 1, 3/2} TLC computes the exact type-8 quantile (weighted: the first value whose cumulative weight exceeds qW) and checks range and monotonicity in q; the binder compares Sample.Quantile on sorted, unsorted, flagged and copied objects under affine maps and permutations, checks monotonicity of the returned values, IQR = Q(3/4) - Q(1/4), and that the sample is bit-identical after every query",
    level_note=_sample_note,
    stages=[dict(name="gen", kind="gen", module="Sample.tla", cfg="Sample_gen.cfg", consts=_sample_consts,
                 replay_args=["-what", "Quantile,IQR,query-modifies,Sort"]),
            dict(name="trace", kind="trace", module="SampleTrace.tla", cfg="SampleTrace.cfg",
                 record_args={"quick": ["-n", 120, "-max", 60, "-ops", 30, "-funcs", "quantile"], "thorough": ["-n", 3000, "-max", 200, "-ops", 40, "-funcs", "quantile"]})],
)

PROPS["C06"] = dict(
    family="ddist", specdir="ddist",
    technique="TLA+ definition of the binomial and hypergeometric distributions as exact BigInt mass vectors (sum, moment and symmetry identities checked by TLC), enumerated over parameter grids and compared with PMF/CDF/Bounds/Step/Mean/Variance/NormalApprox of the real distributions",
    level_text="TLC enumerates every Binomial(N, a/20) with N <= 20 (thorough: N <= 60 and N = 100 on a/100) plus P within 1e-12 of 0 and 1 (N <= 8), and every Hypergeometric(N, K, Draws) with 2 <= N <= 16 (thorough <= 40, plus 50 and 64), computes the mass vectors in BigInt and checks that they sum to the denominator, that the first two moments equal the closed forms and the K/Draws symmetry; the binder evaluates PMF and CDF at every integer from 3 below to 3 above the support and at half-integers (floor semantics) against the exact rationals (1e-10), and Bounds, Step, Mean, Variance, NormalApprox",
    level_note="Trusted: TLC, binder comparison code. The float P passed to BinomialDist is the float nearest a/b (effect on any mass <= N 2^-53). N = 1000 is not reached (BigInt rows of that size are too slow in TLC); the thorough tier stops at N = 100.",
    stages=[dict(name="gen", kind="gen", module="DiscDist.tla", cfg="DiscDist_gen.cfg",
                 consts=dict(BinN={"quick": "BinNQuick", "thorough": "BinNThorough"}, EdgeMaxN=8,
                             BinP={"quick": "BinPQuick", "thorough": "BinPThorough"},
                             HypN={"quick": "HypNQuick", "thorough": "HypNThorough"}, WalkMax={"quick": 260, "thorough": 1000}), timeout={"quick": 600, "thorough": 7000})],
)

PROPS["C11"] = dict(
    family="qci", specdir="qci",
    technique="relational TLA+ specification (Valid) of the order-statistic interval with exact BigInt binomial masses; the greedy accumulation is model-checked against it (and for nesting) on a bounded grid; recorded QuantileCI calls are validated by TLC against Valid, nesting across confidence levels, and - for n > 30 - the rounding/trim/clamp structure of the normal band with Phi/PhiInv supplied by the harness",
    level_text="QuantileCI.tla: TLC checks that the greedy accumulation satisfies Valid (confidence = mass of the buckets, >= c, contains a mode, an end bucket is needed, Ambiguous means the shifted interval has the same mass) and is nested in c for all n <= 8, q = a/8, c = j/32. QuantileCITrace.tla: every recorded call for n = 1..12 (thorough 1..30), q = a/16 (a/40) and q within 1e-9 of 0 and 1, c on a grid of 40 (200) levels plus -0.5, 1.5 and every reported cumulative mass with its two float neighbours, is judged by Valid with exact masses and must be nested with all earlier results for the same distribution; for n in {31,32,50,100,1000,2000} the returned orders must be the central normal band rounded outward to half-integers (upper end optionally one lower with Ambiguous), clamped, with Confidence its normal mass. SampleCI is replayed on every enumerated unweighted sample and every order pair",
    level_note="Trusted: TLC, binder comparison code; for n > 30 the values of PhiInv (math.Erfinv) and Phi (math.Erfc) computed by the harness independently of the repository's NormalDist. Tolerances: Confidence 1e-9, 'at least c' as >= c - 1e-12, rounding boundaries within 1e-7 accept either side. For c <= 0 or q in {0,1} with n > 30 only the range and Confidence >= c are required (no central band exists).",
    stages=[
        dict(name="greedy", kind="mc", module="QuantileCI.tla", cfg="Greedy.cfg", consts=dict(MaxN=8, QDen=8, CDen={"quick": 32, "thorough": 64}),
             note="greedy accumulation satisfies the relational specification and is nested in c"),
        # further grids for the same design-level check; each keeps QDen^MaxN * CDen below 2^31 (TLC integers)
        dict(name="greedy6", kind="mc", module="QuantileCI.tla", cfg="Greedy.cfg", tiers=["thorough"], consts=dict(MaxN=10, QDen=6, CDen=32),
             note="q = a/6, n <= 10, c = j/32"),
        dict(name="greedy5", kind="mc", module="QuantileCI.tla", cfg="Greedy.cfg", tiers=["thorough"], consts=dict(MaxN=12, QDen=5, CDen=8),
             note="q = a/5, n <= 12, c = j/8"),
        dict(name="greedy3", kind="mc", module="QuantileCI.tla", cfg="Greedy.cfg", tiers=["thorough"], consts=dict(MaxN=17, QDen=3, CDen=16),
             note="q = a/3, n <= 17, c = j/16"),
        dict(name="greedy2", kind="mc", module="QuantileCI.tla", cfg="Greedy.cfg", tiers=["thorough"], consts=dict(MaxN=25, QDen=2, CDen=32),
             note="q = a/2, n <= 25, c = j/32"),
        dict(name="trace", kind="trace", module="QuantileCITrace.tla", cfg="QuantileCITrace.cfg",
             record_args={"quick": ["-n", 80, "-max", 12, "-qden", 16, "-levels", 40], "thorough": ["-n", 100000, "-max", 30, "-qden", 40, "-levels", 200]},
             shards={"quick": 8, "thorough": 16}, timeout={"quick": 900, "thorough": 7000}),
        # the last sizes of the exact branch (the switch to the normal approximation happens above n = 30) in every tier
        dict(name="trace30", kind="trace", module="QuantileCITrace.tla", cfg="QuantileCITrace.cfg",
             record_args={"quick": ["-n", 100000, "-min", 29, "-max", 30, "-qden", 8, "-levels", 20], "thorough": ["-n", 100000, "-min", 26, "-max", 30, "-qden", 24, "-levels", 100]},
             shards={"quick": 8, "thorough": 16}),
        dict(name="trace16", kind="trace", module="QuantileCITrace.tla", cfg="QuantileCITrace.cfg", tiers=["thorough"],
             record_args=["-n", 100000, "-max", 13, "-qden", 16, "-levels", 200], shards=16),
        dict(name="traceN", kind="trace", module="QuantileCITrace.cfg".replace(".cfg", ".tla"), cfg="QuantileCITrace.cfg",
             record_args={"quick": ["-n", 40, "-big", "-levels", 40], "thorough": ["-n", 100000, "-big", "-levels", 200]},
             shards={"quick": 4, "thorough": 16}),
        dict(name="sampleci", kind="gen", specdir="sample", module="Sample.tla", cfg="Sample_gen.cfg",
             consts=dict(MaxLen={"quick": 4, "thorough": 5}, WeightVals="{1}", Depth=0, MaxObjs=1)),
    ],
)

PROPS["C16"] = dict(
    family="scale", specdir="scale",
    technique="TLA+ model of Linear/Log scales (SetClamp as the in-place action, exact rational Map/Unmap on integer and power lattices, QQ composition, NewLog acceptance) with end-point, monotonicity, inverse and clamp laws checked by TLC; all scale configurations replayed into the real scales",
    level_text="TLC enumerates every Linear scale with ends in {-3,0,1,4,10} (both orders, degenerate, clamp on/off reached through SetClamp) and every Log scale with base in {2,10} (thorough {2,3,10,16}), either sign, exponents in {-2,0,1,3} (thorough -12..12) in both orders, paired with four destination scales for QQ; it checks Map(Min)=0, Map(Max)=1, strict monotonicity, Unmap(Map(x))=x and the clamp laws on the specification and emits the exact Map of every lattice point (incl. zero and wrong-sign inputs), the exact Unmap of six levels and QQ.Map; the binder compares the real scales (Linear domains rescaled by 2^-40..2^40), QQ.Unmap(QQ.Map(x))=x, and the NewLog acceptance table at magnitudes 1e-12, 1, 1e12",
    level_note="Trusted: TLC, binder comparison code, math.Pow for lattice points of Log scales. Non-finite arguments of NewLog are outside the statement. Random domains (|Min|,|Max| in 1e-12..1e12, both orders and signs) and off-lattice points are validated against the laws by ScaleTrace.tla (end points, strict monotonicity with the orientation, mid-point / geometric-mean law, inverse, clamp, NaN, QQ composition and inverse).",
    stages=[dict(name="gen", kind="gen", module="Scale.tla", cfg="Scale_gen.cfg",
                 consts=dict(LogExps={"quick": "LogExpsQuick", "thorough": "LogExpsThorough"}, LogBases={"quick": "{2,10}", "thorough": "{2,3,10,16}"})),
            dict(name="trace", kind="trace", family="scalerec", module="ScaleTrace.tla", cfg="ScaleTrace.cfg",
                 record_args={"quick": ["-n", 80, "-pts", 20], "thorough": ["-n", 3000, "-pts", 40]})],
)

PROPS["C07"] = dict(
    family="invcdf", specdir="invcdf",
    technique="TLA+ definition of the quantile (smallest x with F(x) >= y) of piecewise CDFs with jumps, ramps and flat stretches, with its laws checked by TLC; every enumerated CDF is implemented as a Go DistCommon and fed to the generic stats.InvCDF / stats.Rand",
    level_text="TLC enumerates every piecewise CDF with up to 3 (thorough 4) breakpoints over abscissae {-3,0,1,4,9} and levels in quarters (thorough eighths), with tight, padded and short Bounds, computes the exact smallest x reaching each level k/16 (k/32) and the end-point rule at y = 0 and 1, and checks F(Inv(y)) >= y, minimality and monotonicity; the binder implements each CDF as a user-defined distribution shifted by 0, +-1e6 and 12345.678, compares InvCDF at all levels (incl. exact jump and flat levels and their float neighbours), NaN outside [0,1], dispatch to a distribution's own InvCDF/Rand, bit-identical Rand sequences from equal sources, the Kolmogorov distance of 50,000 draws against the specification's CDF (DKW band, false-alarm 1e-9) on a subset, and built-in discrete distributions through the generic routine",
    level_note="Trusted: TLC, binder comparison code and its float implementation of the piecewise CDF handed to the library. The bisection algorithm itself is not modelled (API-level binding only).",
    stages=[dict(name="gen", kind="gen", module="Quantile.tla", cfg="Quantile_gen.cfg",
                 consts=dict(Levels={"quick": "{0,4,8,12,16}", "thorough": "{0,4,8,12,16,20,24,28,32}"}, Unit={"quick": 16, "thorough": 32}, MaxBP={"quick": 3, "thorough": 4}))],
)

PROPS["C04"] = dict(
    family="ttest", specdir="ttest",
    technique="TLA+ definitions of the four t statistics (sign and exact rational T^2), degrees of freedom and error cases, with swap / affine-invariance / Welch-Satterthwaite-bound laws checked by TLC over all small integer samples; replayed into the real tests and MeanCI with P evaluated from the exact statistic through an independent Student-t CDF; recorded histories on real-valued samples of up to 40 (thorough 200) values validated by TTestTrace.tla in exact BigInt rational arithmetic",
    level_text="TLC enumerates every pair (x1 a bag, x2 a sequence) of 0..4 values over {-2,0,1} (thorough 0..5 over {-2,0,1,3}) and computes sign, T^2 and DoF of the pooled, Welch, paired and one-sample (mu0 in {0, 1/2, -3}) tests exactly, checking that swapping negates T, that x -> a x + b leaves T^2 and DoF unchanged, the Welch-Satterthwaite bounds and pooled = Welch for equal sizes and variances; the binder runs the real tests under 4 affine maps (offsets to 1e6, scale 1/8..4096) for the three alternatives and the swapped call, compares N1, N2, T, DoF, the documented errors and P against the Student-t CDF from gonum's incomplete beta, and checks MeanCI (mean, symmetry, zero / infinite width, NaN for empty input, Student-t content of the interval = c). TTestTrace.tla: the driver grows two samples of scaled-integer reals (offset/spread up to 2^13, scales 2^-30..2^3, constant samples, equal and unequal sizes) and logs every test (4 kinds x 3 alternatives x swapped x mu0) and MeanCI call (10 confidence levels incl. <= 0 and >= 1); TLC recomputes means and variances exactly and requires |T se - d| <= 2^-26 |d| + 2^-40 max|x| (squared form), the sign of T, integer DoF exactly, Welch-Satterthwaite DoF to 2^-26, P by case analysis on the alternative over F(DoF,T) (harness-evaluated independent CDF) to 2^-29, the documented error otherwise, N1/N2/AltHypothesis, inputs bit-identical, and for MeanCI the exact mean, symmetry and w^2 n = tq^2 var",
    level_note="Trusted: TLC, binder comparison code, gonum mathext.RegIncBeta for the Student-t CDF (independent of mathx.BetaInc). Tolerance on T and DoF: max(1e-9, 4096 n eps kappa), kappa = max|x| / scale. Errors are checked only where unambiguous (empty sample, length mismatch, all-constant data, a one-element sample for Welch and paired).",
    stages=[dict(name="gen", kind="gen", module="TTest.tla", cfg="TTest_gen.cfg",
                 consts=dict(Vals={"quick": "ValsQuick", "thorough": "ValsThorough"}, MaxLen={"quick": 4, "thorough": 5}, Reps={"quick": "{1, 9}", "thorough": "{1, 3, 8}"})),
            dict(name="trace", kind="trace", module="TTestTrace.tla", cfg="TTestTrace.cfg",
                 record_args={"quick": ["-n", 48, "-max", 40], "thorough": ["-n", 2400, "-max", 40]}, shards={"quick": 8, "thorough": 16}),
            dict(name="trace200", kind="trace", module="TTestTrace.tla", cfg="TTestTrace.cfg", tiers=["thorough"],
                 record_args=["-n", 160, "-max", 200], shards=16)],
)

PROPS["C08"] = dict(
    family="special", specdir="special",
    technique="TLA+ BigInt definitions of Choose (Pascal rows as a state machine), Beta and BetaInc on the integer-parameter lattice, replayed into mathx; identities of the uninterpreted incomplete beta/gamma functions (symmetry, P+Q=1, monotonicity, exp multiplicativity, recurrence in a, domain) validated by TLC on recorded sweeps; off-lattice values compared with gonum/mathext on TLC-emitted parameter grids",
    level_text="Special.tla: TLC walks Pascal's triangle to n = 200 (thorough 1000) checking symmetry and row sums, and enumerates I_x(a,b) for integers a, b <= 12 (thorough 30) and x = p/q, q in {2,3,5,16} (thorough also 7, 11), checking I_x(a,b) + I_{1-x}(b,a) = 1, end values and monotonicity exactly; the binder compares Choose (exact to n = 20, 1e-10 relative above, 0 out of range, symmetric), Lchoose, Beta and BetaInc with the exact values, BetaInc/GammaInc/GammaIncComp with gonum's cephes-derived functions on the emitted grids (parameters 0.05..300; x at 0, 1, near them, at the mean and both sides of the branch switch-over), the NaN domain rules and Sign. SpecialTrace.tla: recorded log-uniform sweeps (x concentrated at 0, 1, the mean and the switch-over) must satisfy the identities listed in the module",
    level_note="Trusted: TLC, binder comparison code, gonum mathext (RegIncBeta, GammaIncReg, GammaIncRegComp) and math.Log for Lchoose. The 1e-9 accuracy clause for non-integer parameters is a differential comparison with that library, not model checking.",
    stages=[
        dict(name="gen", kind="gen", module="Special.tla", cfg="Special_gen.cfg",
             consts=dict(MaxN={"quick": 200, "thorough": 1000}, MaxAB={"quick": 12, "thorough": 30}, XDens={"quick": "{2,3,5,16}", "thorough": "{2,3,5,7,11,16}"}),
             timeout={"quick": 600, "thorough": 7000}),
        dict(name="trace", kind="trace", module="SpecialTrace.tla", cfg="SpecialTrace.cfg",
             record_args={"quick": ["-n", 40, "-pts", 40], "thorough": ["-n", 2000, "-pts", 80]}, shards={"quick": 8, "thorough": 16}),
    ],
)

PROPS["C05"] = dict(
    family="cdist", specdir="cdist",
    technique="TLA+ exact lattice for the Student-t CDF (even nu, rational points where the CDF is algebraic; mirror law checked by TLC) replayed into TDist and BetaInc; complete TLA+ specification of DeltaDist and the laws of NormalDist/TDist (range, monotonicity, symmetry, limits, inverse, location-scale, moments, Rand) validated by TLC on recorded evaluations; accuracy off the lattice by differential comparison on TLC-emitted grids",
    level_text="ContDist.tla: for nu in {2,...,20} and 8 (thorough 18) rational parameters TLC computes x and F(x) exactly in BigInt and checks 0 < F < 1, F > 1/2 iff x > 0 and F(x) + F(-x) = 1; the binder compares TDist.CDF and BetaInc(.,nu/2,1/2) with these values, and on the emitted grids (Mu to +-1e6, Sigma 1e-6..1e6, z to +-40, V 0.1..1e4) NormalDist.CDF with a 600-bit series for Phi, TDist.CDF with gonum's incomplete beta, the PDFs with their closed forms, and the integral of each PDF (Gauss-Legendre) with CDF differences. ContDistTrace.tla: recorded sweeps (x over +-40 standard units incl. +-inf, p down to 1e-300) must satisfy the laws listed in the module; DeltaDist is specified completely (unit step, point mass, constant quantile, NaN outside [0,1])",
    level_note="Trusted: TLC, binder comparison code, the harness's 600-bit erf series and gonum mathext.RegIncBeta as independent evaluations, math.Exp/Lgamma for PDF closed forms. The 1e-9 accuracy clause at generic real arguments is a differential comparison, not model checking. For V above 1e4 only the laws are checked (statement).",
    stages=[
        dict(name="gen", kind="gen", module="ContDist.tla", cfg="ContDist_gen.cfg", consts=dict(Ts={"quick": "TsQuick", "thorough": "TsThorough"})),
        dict(name="trace", kind="trace", module="ContDistTrace.tla", cfg="ContDistTrace.cfg",
             record_args={"quick": ["-n", 24, "-pts", 30], "thorough": ["-n", 1600, "-pts", 80]}, shards={"quick": 8, "thorough": 16}),
    ],
)

PROPS["C20"] = dict(
    family="purity", specdir="purity",
    technique="TLA+ session model (heap of content digests, memo of call signatures, per-goroutine program counters) validating recorded calls to ~90 exported entry points: arguments untouched except the receiver of a documented in-place operation, equal signatures give bit-identical results across intervening calls and across 16 goroutines; the recording binary is built with the Go race detector",
    level_text="Session.tla: every recorded call is one Call step; TLC checks that each argument's digest is unchanged since it was last seen and after the call (unless it is the flagged receiver of an operation in the documented in-place set), that a signature seen before returns the identical result digest, and per-goroutine sequence numbers. The recorder builds random unsorted inputs with ties (slices, weighted and unweighted Samples, multigraphs, histograms, StreamStats, KDEs, scales, NodeMarks), calls every entry point three times in shuffled order with the in-place operations in between, then issues random read-only calls from 16 goroutines on the same shared inputs; the binary is built with -race and a reported race aborts the recording and is reported as the violation",
    level_note="Trusted: TLC, the digest functions of the recorder (FNV-1a over float bits, ints, adjacency lists), the Go race detector as the only oracle for data races. Schedules are sampled, not enumerated (the library has no synchronisation points to gate), so race-freedom is as strong as the race detector on the observed executions: the concurrent part is exploration inside a model-checked session.",
    stages=[dict(name="session", kind="trace", race=True, module="Session.tla", cfg="Session.cfg",
                 record_args={"quick": ["-n", 8, "-reps", 3, "-goroutines", 16, "-calls", 100], "thorough": ["-n", 200, "-reps", 3, "-goroutines", 16, "-calls", 1500]},
                 shards={"quick": 4, "thorough": 16})],
)


# ---- coverage added after the mutation rounds (DESIGN section 10), appended to the level texts ----
_ADDED = {
    "C04": " Also: every case with *StreamStats samples too (same statistics and the same documented errors).",
    "C12": " Also: every third recorded history hands the sample over ascending with the Sorted flag set. A recorded profile whose CDF has plateaus at 1.05 % and 98.95 % (heavy centre, two far clusters).",
    "C01": " Also: preset tied pools of 20..32 values with every split (mid stage); samples at and just over both exact limits; the numeric value of the normal approximation in the trace direction (exact z^2, Phi by the harness, small lower tails to 2^-29 relative). Ranks spread over the whole float range (sums overflowing to -Inf and +Inf); the wide limits also as math.MaxInt; two-value tied pools up to 255+255 in BigInt.",
    "C02": " Also: preset tied pools of 20..32 values with every split; untied pools (38,38)..(50,50) as q-binomials in BigInt; CDF just below every grid point, far outside the range up to MaxFloat64 and the infinities; one tie-vector buffer reused for successive distributions. Lopsided pools (one sample of 1..3 values): a tie group of every size 26..260 (thorough 300) next to a pair, and pools of up to 14 ranks over 40 values; -0 as argument. Two-value tied pools in BigInt (totals beyond 2^63 and beyond 1e80: [30 37], [40 40], [135 135], 255+255) and lopsided untied sizes to (2,300), each evaluated twice (emission order, then reverse).",
    "C03": " Also: limit configurations with the ties limit above the no-ties limit; in the trace direction the normal approximation's P is decided numerically (exact z^2 from the integers, Phi evaluated by the harness at the logged z; 2^-29 relative on the lower-tail path, 2^-40 absolute elsewhere). Value maps that write a tied zero alternately as +0 and -0 (and all-zero samples of mixed sign: ErrSamplesEqual). The `large` stage (lopsided untied sizes with a raised limit, two-value tied pools), evaluated in both orders.",
    "C05": " Also: a dense walk over V (eighths to 1000, integers to 10^4) for PDF and CDF; arguments out to MaxFloat64 and the infinities (limits, monotonicity); NormalDist.InvCDF NaN at every distance outside [0,1]. Concurrent evaluation with differing parameters must equal sequential evaluation bit for bit (t and normal CDF/PDF/InvCDF over 12 goroutines). Bit-identical results after the exported variable StdNormal is reassigned; Rand(nil) repeats after re-seeding the global source.",
    "C06": " Also: a size walk N = 21..260 (thorough 1000) carrying Pascal rows in the TLA+ state - Binomial(N,1/2), Hyp(N,7,N/2), Hyp(N,N-7,N/3+3) and for even N the central Hyp(N,N/2,N/2); arguments far outside the support up to the infinities. Success probabilities 5e-6, 9e-6, 3e-4 and 1-9e-6 on every N; -0 as argument. Strongly skewed walk members Hyp(N,7,5) and Hyp(N,N-7,N-5); a cold start (the first calls of the process are concurrent, with growing sizes) before the exact replay.",
    "C07": " Also: 'returns exactly that method' at y = 0, 1, outside and NaN (own-method, DeltaDist, NormalDist); levels just outside [0,1] down to subnormals; Kolmogorov distance of stats.Rand for the built-in continuous distributions (non-integral V). Every third distribution also stretched by 2^400 (finite quantiles beyond 1e100); every pure-jump distribution also realised as a delta-kernel KDE (weighted, and unweighted with repeats). A caller's random source whose first uniforms are exactly 0; Kolmogorov distance of draws with a nil source for every built-in.",
    "C08": " Also: decimal (inexact) parameters; the float-by-float neighbourhood of the symmetry switch (a+1)/(a+b+2); x within a float spacing of 0 and 1 against closed forms; library panics and runtime crashes are verdicts. Concurrent evaluation with differing parameters must equal sequential evaluation bit for bit (Beta, BetaInc, GammaInc, GammaIncComp, Choose over 12 goroutines). Neighbouring floats at the gamma switch-over (240 shapes) and wherever the deviation from an independent evaluation jumps (bisection): monotone to 1e-13; invalid shapes together with x = 0.",
    "C09": " Also: vector lengths to 200 (thorough every length to 260, 511..513, 1000..1025), one vectorized function reused on equal-length inputs; in-place Poke events in recorded histories. Exact Linspace clauses under inexact end points (never steps back; a one-point range consists of that point).",
    "C10": " Also: tolerance-free order clauses (bracket, exact ties, bounds, monotone in q) under monotone non-affine maps onto values with inexact mantissas; in-place Poke events between queries. Weights of extreme dynamic range (extremes carrying 1e-18 of the total, inexact weights, six profiles): q >= 1 and q <= 0 give the extreme values and agree with Bounds; the sample is a guarded window of a larger buffer.",
    "C11": " Also: the last sizes of the exact branch (29, 30) in every tier; histories visited in ascending, descending and shuffled order of n; the reported Confidence (18 digits) never below c for proper sub-ranges. For n > 30: levels whose normal band ends within 1e-9..1e-10 of a half-integer, on both sides; SampleCI on guarded windows of a larger buffer. Returned confidences fed back as levels (+- one float) for n > 30 too; a lowered (Ambiguous) band reports a Confidence >= c exactly.",
    "C13": " Trace tolerances follow the Welford/Chan error bounds (2^-42 of max|x| for the mean, 2^-36 relative + 2^-42 max|x| * range for the variance), with profiles at a common offset 2^26 times the spread. Every recorded step also carries String() split into name=value items, each recognised name checked against the model. Accumulators combined with themselves.",
    "C14": " Also: values 1e-10 of a bin below and above every edge, 1e300 and the infinities as value codes of the model; the floats next to both ends of the range probed on every shape; negative values in logarithmic histograms. Every fourth linear shape also stretched until its larger end is 2^1022.",
    "C15": " Also: earlier results re-read after later fits; one LOESS smoother queried in descending / zig-zag order against freshly built ones. One smoother queried on a 400-point grid and then again at earlier points; fits of 257..5000 observations (coefficients of an exact quadratic; residual orthogonality). The points outside the query's window overwritten with -1e300, +Inf, NaN.",
    "C16": " Also: Linear domains with |Min| / width up to 2^38; the clamp law at 1e-11..1e-15 of the width from both ends; Unmap(Map(x)) of Linear scales to a few ulps of |x|+|Min|+|Max|. QQ with one scale object at both ends, clamped. The NewLog error itself is a RangeErr; runs of neighbouring floats around simple multiples of Min never out of order by more than 4 ulps.",
    "C17": " Also: logarithmic domains of several decades below 1 ending on a power (bases 3 and 10 in the quick tier). Level limits with one end exactly 0. The ticker's probe log stays within the level limits.",
    "C18": " Also: SubgraphRemove requests that remove nodes only; attribute slices handed to Dot as prefixes of one shared table. Remove requests written with repetitions; Dot.Fprint and Dot.Print (standard output captured) equal to Sprint, also on a 1500-node path. The model's ordinary character also realised as bytes that are not valid UTF-8.",
    "C19": " Also: the Dom clause itself (child lists invert IDom, each child once) in the replay and on recorded random graphs to 40 nodes. The same flow graph passed as graph.WeightedUnit, as a BiGraph of the harness's own and as WeightedUnit of that; the dominator tree itself as a flow graph from every root. Two-way chains of 14..40 nodes entered at both ends among the recorded graphs.",
    "C20": " Also: quantile closures shared by all goroutines, weights of extreme magnitude, 3000-node traversals, 40000-element sums, and an entry that evaluates equal values in a refilled buffer and in a fresh slice alternately. Five parameter sweeps (MeanCI of prefixes, TDist 1..300, Binomial 1..200, 120 beta shapes, Welch tests) as the first concurrent calls; printing with attribute callbacks that hand out prefixes of one shared table. The public package variables as a digested argument (every other session under limits (12,30)); a cold-start concurrent phase before anything sequential.",
}
for _k, _v in _ADDED.items():
    PROPS[_k]["level_text"] += _v
