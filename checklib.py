"""Driver library for ./check (see DESIGN.md section 3.5)."""
import argparse, hashlib, json, os, re, shutil, subprocess, sys, tempfile, time
from concurrent.futures import ThreadPoolExecutor

VERIF = os.path.dirname(os.path.abspath(__file__))
REPO = os.environ.get("VERIF_REPO", "/repo")
JAR = "/opt/veriftools/tla/tla2tools.jar:/opt/veriftools/tla/CommunityModules-deps.jar"
NCPU = os.cpu_count() or 4


class Machinery(Exception):
    """Something in the verification machinery failed; never a verdict about the code."""


# ---------------------------------------------------------------------------------------------
# small helpers

def log(*a):
    print(*a, file=sys.stderr, flush=True)


def goenv():
    e = dict(os.environ)
    e.update(GOFLAGS="-mod=mod", GOPROXY="off", GOSUMDB="off", GOTOOLCHAIN="local")
    return e


def repo_status():
    return subprocess.run(["git", "-C", REPO, "status", "--porcelain"], capture_output=True, text=True).stdout


def build_binder(scratch, race=False):
    """Build the harness against /repo's current working tree (hooks tag on)."""
    src = os.path.join(VERIF, "harness")
    if os.path.realpath(REPO) != "/repo":
        # development only: judge another checkout (a scratch worktree) through a copy of the harness
        dst = os.path.join(scratch, "harness-src")
        if not os.path.exists(dst):
            shutil.copytree(src, dst)
            gm = open(os.path.join(dst, "go.mod")).read().replace("=> /repo", "=> " + os.path.realpath(REPO))
            open(os.path.join(dst, "go.mod"), "w").write(gm)
        src = dst
    shutil.copyfile(os.path.join(REPO, "go.sum"), os.path.join(src, "go.sum"))
    out = os.path.join(scratch, "binder-race" if race else "binder")
    cmd = ["go", "build", "-tags", "verif", "-o", out]
    if race:
        cmd.insert(2, "-race")
    cmd.append(".")
    t = time.time()
    p = subprocess.run(cmd, cwd=src, env=goenv(), capture_output=True, text=True)
    if p.returncode != 0:
        # a tree that does not build cannot be judged: report as machinery failure with the output
        raise Machinery("go build of the binder against %s failed:\n%s" % (REPO, p.stderr[-3000:]))
    log("[build] binder%s built in %.1fs" % (" (race)" if race else "", time.time() - t))
    return out


def stage_specs(scratch, family, name):
    """Copy spec/lib and spec/<family> into a fresh directory (TLC litters its cwd)."""
    d = os.path.join(scratch, name)
    os.makedirs(d)
    for sub in ("lib", family):
        sd = os.path.join(VERIF, "spec", sub)
        for f in os.listdir(sd):
            if f.endswith(".tla") or f.endswith(".cfg"):
                shutil.copyfile(os.path.join(sd, f), os.path.join(d, f))
    return d


def write_cfg(d, cfg, subst):
    """Instantiate @@NAME@@ placeholders of a cfg template."""
    txt = open(os.path.join(d, cfg)).read()
    for k, v in (subst or {}).items():
        txt = txt.replace("@@%s@@" % k, str(v))
    left = re.findall(r"@@\w+@@", txt)
    if left:
        raise Machinery("cfg %s: unbound placeholders %s" % (cfg, left))
    out = os.path.join(d, "run_" + cfg)
    open(out, "w").write(txt)
    return "run_" + cfg


def tlc_cmd(d, module, cfg, workers, extra=(), xmx=None):
    cmd = ["java", "-XX:+UseParallelGC"]
    if xmx:
        cmd.append("-Xmx" + xmx)
    cmd += ["-Xss16m", "-cp", JAR, "tlc2.TLC", "-workers", str(workers), "-metadir", os.path.join(d, "md"),
            "-config", cfg]
    cmd += list(extra)
    cmd.append(module)
    return cmd


RE_STATES = re.compile(r"^(\d+) states generated, (\d+) distinct states found, (\d+) states left on queue", re.M)
RE_DEPTH = re.compile(r"The depth of the complete state graph search is (\d+)")


def parse_tlc(text):
    m = RE_STATES.findall(text)
    gen, dist = (int(m[-1][0]), int(m[-1][1])) if m else (0, 0)
    dm = RE_DEPTH.findall(text)
    depth = int(dm[-1]) if dm else 0
    return dict(generated=gen, distinct=dist, depth=depth,
                ok="Model checking completed. No error has been found." in text)


def tlc_errors(text, n=40):
    lines = text.splitlines()
    keep = [x for x in lines if x.startswith("Error:") or "is violated" in x or "is false" in x
            or "Exception" in x or "overflow" in x.lower() or "Attempted" in x]
    return "\n".join(keep[:n]) or "\n".join(lines[-n:])


# ---------------------------------------------------------------------------------------------
# stages

class Ctx:
    def __init__(self, pid, tier, seed, scratch):
        self.pid, self.tier, self.seed, self.scratch = pid, tier, seed, scratch
        self.binder = None
        self.binder_race = None
        self.stage_reports = []
        self.violations = []       # dicts: {what, detail, replay: {...}}
        self.known = {}            # signature -> count
        self.states = 0
        self.transitions = 0
        self.validated = 0         # cases replayed + traces accepted
        self.evaluations = 0
        self.nontrivial = 0
        self.samples = []
        self.rules = []
        self.exhaustive = []
        self.trusted = set()
        self.assumptions = []

    def pick(self, v):
        """tier-dependent value: {'quick': a, 'thorough': b} or plain."""
        if isinstance(v, dict) and set(v) <= {"quick", "thorough"}:
            return v[self.tier]
        return v

    def subst(self, d):
        return {k: self.pick(v) for k, v in (d or {}).items()}


LIB = "github.com/aclements/go-moremath/"


def library_crash(err):
    """A fatal runtime error of the binder whose innermost frames are in the library under test; None otherwise."""
    m = re.search(r"^(fatal error: (stack overflow|runtime: out of memory)|runtime: goroutine stack exceeds [^\n]*)", err, re.M)
    if not m:
        return None
    # innermost non-runtime frames of the crashing goroutine
    tail = err[m.start():]
    frames = re.findall(r"^((?:[\w./-]+)\.[\w.()*]+)\(([^\n]*)\)\s*$", tail, re.M)
    frames = [f for f in frames if not f[0].startswith("runtime.")]
    if not frames:
        return None
    # the crash is the library's if its innermost frame is a library frame, or (unbounded recursion through a callback
    # of the harness, e.g. a graph's Out method) if the frame that repeats is one
    counts = {}
    for f in frames[:60]:
        counts[f[0]] = counts.get(f[0], 0) + 1
    top = max(counts, key=counts.get)
    if not (frames[0][0].startswith(LIB) or (top.startswith(LIB) and any(f[0].startswith(LIB) for f in frames[:6]))):
        return None
    frames = [f for f in frames if f[0].startswith(LIB)]
    shown = "; ".join("%s(%s)" % f for f in frames[:3])
    return "%s inside the library: %s" % (m.group(1), shown[:900])


def stage_gen(ctx, st):
    """TLC enumerates the model, checks its invariants and emits cases; binder replays them."""
    fam = st["family"]
    d = stage_specs(ctx.scratch, st.get("specdir", fam), st["name"])
    cfg = write_cfg(d, st["cfg"], ctx.subst(st.get("consts")))
    tlclog = os.path.join(d, "tlc.log")
    summ = os.path.join(d, "summary.json")
    cmd = tlc_cmd(d, st["module"], cfg, ctx.pick(st.get("workers", NCPU)), ctx.pick(st.get("tlc_extra", ())), xmx=st.get("xmx", "12g"))
    bargs = [ctx.binder, "replay", fam, "-tlclog", tlclog, "-seed", str(ctx.seed)] + [str(x) for x in ctx.pick(st.get("replay_args", []))]
    t = time.time()
    tmo = ctx.pick(st.get("timeout", 1500))
    with open(summ, "w") as so, open(os.path.join(d, "binder.err"), "w") as be:
        p1 = subprocess.Popen(["timeout", str(tmo)] + cmd, cwd=d, stdout=subprocess.PIPE, stderr=subprocess.STDOUT)
        p2 = subprocess.Popen(bargs, cwd=d, stdin=p1.stdout, stdout=so, stderr=be)
        p1.stdout.close()
        rc2 = p2.wait()
        rc1 = p1.wait()
    wall = time.time() - t
    text = open(tlclog).read() if os.path.exists(tlclog) else ""
    info = parse_tlc(text)
    hung = None
    try:
        hs = json.loads(open(summ).read().strip().splitlines()[-1])
        if any(v["what"] == "hang" for v in (hs.get("violations") or [])):
            hung = hs
    except Exception:
        pass
    crash = library_crash(open(os.path.join(d, "binder.err")).read()) if rc2 != 0 else None
    if crash:
        # the Go runtime killed the binder inside a call into the library under test (stack exhaustion by unbounded
        # recursion, out-of-memory by unbounded allocation): not recoverable in-process, but the runtime's own report
        # names the library frames and their arguments, and re-running the stage reproduces it
        ctx.states += max(1, info["distinct"])
        ctx.transitions += max(1, info["generated"])
        ctx.violations.append(dict(what="library-crash", detail=crash,
                                   replay=dict(kind="stage", family=fam, stage=st["name"], note="re-run this stage: ./check %s --stage %s" % (ctx.pid, st["name"]))))
        ctx.stage_reports.append(dict(stage=st["name"], kind="gen", crashed=True, wall_s=round(wall, 1)))
        return
    if hung is not None:
        # the library did not return from a call: the binder reported it and stopped reading, so TLC's exit status is moot
        absorb_summary(ctx, st, hung, dict(info, distinct=max(1, info["distinct"]), generated=max(1, info["generated"])), wall, exhaustive=False)
        return
    if rc1 == 124:
        raise Machinery("stage %s: TLC timed out after %ss" % (st["name"], tmo))
    if rc1 != 0 or not info["ok"]:
        raise Machinery("stage %s: TLC failed (exit %d) — a failing specification-level invariant or an evaluation "
                        "error is a defect of the model, not of the code:\n%s" % (st["name"], rc1, tlc_errors(text)))
    if rc2 != 0:
        raise Machinery("stage %s: binder replay failed (exit %d): %s" % (st["name"], rc2, open(os.path.join(d, "binder.err")).read()[-2000:]))
    try:
        s = json.loads(open(summ).read().strip().splitlines()[-1])
    except Exception as e:
        raise Machinery("stage %s: no summary from binder: %s" % (st["name"], e))
    if s["cases"] == 0:
        raise Machinery("stage %s: TLC emitted no cases (dead generator)" % st["name"])
    absorb_summary(ctx, st, s, info, wall, exhaustive=st.get("exhaustive", True))


def absorb_summary(ctx, st, s, info, wall, exhaustive):
    fam = st["family"]
    ctx.states += info["distinct"]
    ctx.transitions += info["generated"]
    ctx.validated += s["cases"]
    ctx.evaluations += s["checks"]
    ctx.nontrivial += s["nontrivial"]
    ctx.samples += (s.get("samples") or [])[:2]
    ctx.rules.append("%s: %s" % (st["name"], s.get("rule", "")))
    ctx.exhaustive.append(bool(exhaustive))
    for k, v in (s.get("known") or {}).items():
        ctx.known[k] = ctx.known.get(k, 0) + v
    mach = [v for v in (s.get("violations") or []) if v["what"] == "machinery"]
    if mach:
        raise Machinery("stage %s: binder could not interpret a case: %s" % (st["name"], mach[0]["detail"]))
    for v in (s.get("violations") or []):
        ctx.violations.append(dict(what=v["what"], detail=v["detail"],
                                   replay=dict(kind="case", family=fam, stage=st["name"], case=v["case"],
                                               replay_args=[str(x) for x in ctx.pick(st.get("replay_args", []))])))
    rep = dict(stage=st["name"], kind=st["kind"], tlc_states=info["distinct"], tlc_generated=info["generated"],
               tlc_depth=info["depth"], cases=s["cases"], nontrivial=s["nontrivial"], comparisons=s["checks"],
               violations=s["nviol"], wall_s=round(wall, 1), exhaustive=bool(exhaustive))
    if s.get("notes"):
        rep["notes"] = s["notes"]
    ctx.stage_reports.append(rep)
    log("[%s] %s" % (st["name"], json.dumps(rep)))


def stage_mc(ctx, st):
    """Pure design-level model checking (algorithm model against the definition); no binding."""
    fam = st["family"]
    d = stage_specs(ctx.scratch, st.get("specdir", fam), st["name"])
    cfg = write_cfg(d, st["cfg"], ctx.subst(st.get("consts")))
    cmd = tlc_cmd(d, st["module"], cfg, ctx.pick(st.get("workers", NCPU)), ctx.pick(st.get("tlc_extra", ())), xmx=st.get("xmx", "12g"))
    t = time.time()
    tmo = ctx.pick(st.get("timeout", 1500))
    p = subprocess.run(["timeout", str(tmo)] + cmd, cwd=d, capture_output=True, text=True)
    wall = time.time() - t
    text = "\n".join(x for x in p.stdout.splitlines() if not x.startswith('"'))
    info = parse_tlc(text)
    if p.returncode == 124:
        raise Machinery("stage %s: TLC timed out" % st["name"])
    if p.returncode != 0 or not info["ok"]:
        raise Machinery("stage %s: design-level model check failed (exit %d):\n%s" % (st["name"], p.returncode, tlc_errors(text)))
    ctx.states += info["distinct"]
    ctx.transitions += info["generated"]
    rep = dict(stage=st["name"], kind="mc", tlc_states=info["distinct"], tlc_generated=info["generated"],
               tlc_depth=info["depth"], wall_s=round(wall, 1), note=st.get("note", ""), exhaustive=True)
    ctx.stage_reports.append(rep)
    log("[%s] %s" % (st["name"], json.dumps(rep)))


def run_trace_shard(ctx, st, shard, nshards, record_args, race=False):
    fam = st["family"]
    d = stage_specs(ctx.scratch, st.get("specdir", fam), "%s_s%d" % (st["name"], shard))
    cfg = write_cfg(d, st["cfg"], ctx.subst(st.get("consts")))
    trace = os.path.join(d, "trace.ndjson")
    binder = ctx.binder_race if race else ctx.binder
    rcmd = [binder, "record", fam, "-seed", str(ctx.seed), "-shard", str(shard), "-of", str(nshards)] + [str(x) for x in record_args]
    renv = dict(os.environ)
    # no-progress limit of the recorder's watchdog: the thorough tier makes legitimately slow calls (the exact tied
    # Mann-Whitney distribution of a few hundred values takes minutes), the quick tier does not
    renv.setdefault("VERIF_HANG_S", "3000" if ctx.tier == "thorough" else "180")
    if race:
        renv["GORACE"] = "exitcode=3 halt_on_error=1"
    with open(trace, "w") as tf:
        p = subprocess.run(rcmd, cwd=d, stdout=tf, stderr=subprocess.PIPE, text=True, env=renv)
    if p.returncode != 0:
        # a crash of the real code while being driven is a finding about the code only if the
        # recorder says so (exit 3 = panic / race inside the library under test)
        if p.returncode == 3 or "WARNING: DATA RACE" in (p.stderr or "") or library_crash(p.stderr or ""):
            return dict(shard=shard, crashed=True, stderr=p.stderr[:6000], dir=d, events=0, record_cmd=rcmd[1:])
        raise Machinery("stage %s: recorder failed (exit %d): %s" % (st["name"], p.returncode, p.stderr[-2000:]))
    nev = sum(1 for _ in open(trace))
    if nev == 0:
        raise Machinery("stage %s: recorder produced no events" % st["name"])
    cmd = tlc_cmd(d, st["module"], cfg, 1, (), xmx=st.get("xmx", "3g"))
    tmo = ctx.pick(st.get("timeout", 1500))
    t = time.time()
    q = subprocess.run(["timeout", str(tmo)] + cmd, cwd=d, capture_output=True, text=True)
    text = q.stdout
    info = parse_tlc(text)
    res = dict(shard=shard, events=nev, dir=d, info=info, wall=time.time() - t, rc=q.returncode, record_cmd=rcmd[1:])
    res["known"] = {}
    for m in re.findall(r'^"KNOWN-SIG (\S+)"$', text, re.M):
        res["known"][m] = res["known"].get(m, 0) + 1
    if q.returncode == 124:
        raise Machinery("stage %s: TLC timed out validating shard %d" % (st["name"], shard))
    if q.returncode == 0 and info["ok"] and info["depth"] - 1 == nev:
        res["accepted"] = True
        return res
    # rejected?  The trace spec stops at the first event no action explains.
    rejected = ("Accepted" in text and "is false" in text) or ("Postcondition" in text)
    evalerr = re.search(r"Error: .*(evaluat|overflow|Attempted|non-existent|undefined)", text, re.I | re.S) and not rejected
    if not rejected or evalerr:
        raise Machinery("stage %s: TLC failed while validating (exit %d), not a rejection:\n%s" % (st["name"], q.returncode, tlc_errors(text)))
    res["accepted"] = False
    res["fail_line"] = info["depth"]       # 1-based index of the first unexplained event
    return res


def stage_trace(ctx, st):
    """Record seeded histories from the real code; TLC validates every event against the trace spec."""
    nshards = ctx.pick(st.get("shards", {"quick": 4, "thorough": NCPU}))
    record_args = ctx.pick(st.get("record_args", []))
    race = st.get("race", False)
    if race and ctx.binder_race is None:
        ctx.binder_race = build_binder(ctx.scratch, race=True)
    t = time.time()
    with ThreadPoolExecutor(max_workers=min(nshards, NCPU)) as ex:
        results = list(ex.map(lambda i: run_trace_shard(ctx, st, i, nshards, record_args, race), range(nshards)))
    wall = time.time() - t
    events = 0
    traces = 0
    accepted_traces = 0
    for r in results:
        if r.get("crashed"):
            err = r["stderr"]
            k = err.find("WARNING: DATA RACE")
            ctx.violations.append(dict(what="crash-or-race", detail=(err[k:k + 1800] if k >= 0 else err[-1800:]),
                                       replay=dict(kind="trace", family=st["family"], stage=st["name"], record_cmd=r["record_cmd"], race=race)))
            continue
        events += r["events"]
        for k2, v2 in r.get("known", {}).items():
            ctx.known[k2] = ctx.known.get(k2, 0) + v2
        lines = open(os.path.join(r["dir"], "trace.ndjson")).read().splitlines()
        resets = [i for i, x in enumerate(lines) if '"op":"Reset"' in x]
        traces += max(1, len(resets))
        ctx.states += r["info"]["distinct"]
        ctx.transitions += r["info"]["generated"]
        if r["accepted"]:
            accepted_traces += max(1, len(resets))
            if len(ctx.samples) < 6 and len(lines) > 2:
                ctx.samples.append(dict(trace_events=[json.loads(x) for x in lines[1:3]]))
            continue
        k = r["fail_line"]              # lines[k-1] is the unexplained event
        bad = json.loads(lines[k - 1]) if 0 < k <= len(lines) else None
        start = max([i for i in resets if i <= k - 1] or [0])
        accepted_traces += len([i for i in resets if i < start])
        head = json.loads(lines[start]) if lines else {}
        rcmd = list(r["record_cmd"])
        ctx.violations.append(dict(
            what="trace-rejected",
            detail="event %d of shard %d (event %d of history idx=%s) is not a step of %s: %s" % (
                k, r["shard"], k - 1 - start, head.get("idx"), st["module"], json.dumps(bad)[:1500]),
            replay=dict(kind="trace", family=st["family"], stage=st["name"], record_cmd=rcmd, only=head.get("idx"),
                        seed=head.get("seed", ctx.seed), event=bad, prefix=[json.loads(x) for x in lines[start:k - 1]][-30:])))
    ctx.validated += accepted_traces
    ctx.evaluations += events
    ctx.nontrivial += accepted_traces
    ctx.rules.append("%s: seeded random histories recorded from the real API, one trace per history; every event is one TLC step of %s; "
                     "distinct_nontrivial counts accepted histories (each has >= 3 calls)" % (st["name"], st["module"]))
    ctx.exhaustive.append(False)
    rep = dict(stage=st["name"], kind="trace", shards=nshards, histories=traces, accepted=accepted_traces, events=events,
               wall_s=round(wall, 1), exhaustive=False)
    ctx.stage_reports.append(rep)
    log("[%s] %s" % (st["name"], json.dumps(rep)))


def stage_apalache(ctx, st):
    """Inductive-invariant check over unbounded integers with Apalache (design level, no binding).
    Init => IndInv and IndInv /\\ Next => IndInv'.  A time-out or tool failure is reported, never judged."""
    d = stage_specs(ctx.scratch, st.get("specdir", st["family"]), st["name"])
    obligations = [("base", ["--init=" + st.get("init", "Init"), "--inv=" + st["inv"], "--length=0"]),
                   ("step", ["--init=" + st["indinit"], "--inv=" + st["inv"], "--length=1"])]
    done = 0
    t = time.time()
    notes = []
    for name, args in obligations:
        p = subprocess.run(["timeout", "300", "apalache-mc", "check", "--no-deadlock"] + args + [st["module"]],
                           cwd=d, capture_output=True, text=True)
        out = p.stdout + p.stderr
        if "The outcome is: NoError" in out:
            done += 1
        elif "The outcome is: Error" in out:
            raise Machinery("stage %s: Apalache found a counterexample to the inductive invariant (%s): the design-level model is wrong" % (st["name"], name))
        else:
            notes.append("%s: no verdict (exit %d)" % (name, p.returncode))
    rep = dict(stage=st["name"], kind="apalache", obligations=len(obligations), discharged=done, wall_s=round(time.time() - t, 1),
               note="; ".join(notes) or st.get("note", ""))
    ctx.stage_reports.append(rep)
    if done:
        ctx.states += done
        ctx.transitions += done
    log("[%s] %s" % (st["name"], json.dumps(rep)))


STAGE_KINDS = {"gen": stage_gen, "mc": stage_mc, "trace": stage_trace, "apalache": stage_apalache}


# ---------------------------------------------------------------------------------------------
# known findings

def load_known(pid):
    out = []
    p = os.path.join(VERIF, "known_findings.txt")
    if os.path.exists(p):
        for line in open(p):
            line = line.strip()
            m = re.match(r"known:\s+property=(\S+)\s+site=(\S+)\s+(.*)$", line)
            if m and m.group(1) == pid:
                out.append(dict(site=m.group(2), text=m.group(3)))
    return out


# ---------------------------------------------------------------------------------------------
# evidence, replay, main

def write_evidence(pid, prop, ctx, wall, nviol, level="model_checking"):
    ev = dict(
        property_id=pid, tier=ctx.tier, seed=ctx.seed, level=level,
        coverage=dict(
            states=ctx.states, transitions=ctx.transitions,
            traces_validated_against_impl=ctx.validated,
            samples=ctx.samples[:6] or [{"note": "no sample collected"}],
            evaluations=ctx.evaluations, distinct_nontrivial=ctx.nontrivial,
            rule=" || ".join(ctx.rules),
            exhaustive=bool(ctx.stage_reports) and all(r.get("exhaustive", True) for r in ctx.stage_reports),
            exhaustive_stages=[r["stage"] for r in ctx.stage_reports if r.get("exhaustive")],
            stages=ctx.stage_reports,
            checker_cmd="java -cp tla2tools.jar tlc2.TLC (TLC2 2026.09.04) + harness/binder built from /repo working tree",
            trusted_base=sorted(ctx.trusted | {"TLC 1.8", "Go toolchain", "harness/binder comparison code"}),
            known_findings={k: v for k, v in ctx.known.items()},
        ),
        assumptions=prop.get("assumptions", []) + ctx.assumptions,
        wall_s=round(wall, 2), violations=nviol)
    os.makedirs(os.path.join(VERIF, "evidence"), exist_ok=True)
    tmp = os.path.join(VERIF, "evidence", pid + ".json.tmp")
    json.dump(ev, open(tmp, "w"), indent=1)
    os.replace(tmp, os.path.join(VERIF, "evidence", pid + ".json"))


def save_replay(pid, v):
    rdir = os.environ.get("VERIF_REPLAY_DIR") or os.path.join(VERIF, "replays")      # (development: keep replays of concurrent runs apart)
    os.makedirs(rdir, exist_ok=True)
    blob = json.dumps(dict(property=pid, what=v["what"], detail=v["detail"], **v["replay"]), indent=1)
    h = hashlib.sha1(blob.encode()).hexdigest()[:10]
    path = os.path.join(rdir, "%s-%s.json" % (pid, h))
    open(path, "w").write(blob)
    return path


def do_replay(pid, prop, path, ctx):
    r = json.load(open(path))
    if r.get("kind") == "case":
        p = subprocess.run([ctx.binder, "replay", r["family"], "-raw", "-seed", str(ctx.seed)] + r.get("replay_args", []),
                           input=json.dumps(r["case"]) + "\n", capture_output=True, text=True)
        if p.returncode != 0:
            raise Machinery("replay failed: " + p.stderr[-2000:])
        s = json.loads(p.stdout.strip().splitlines()[-1])
        for k, v in (s.get("known") or {}).items():
            ctx.known[k] = v
        for v in s.get("violations") or []:
            ctx.violations.append(dict(what=v["what"], detail=v["detail"],
                                       replay={k: x for k, x in r.items() if k not in ("property", "what", "detail")}))
        ctx.evaluations += s["checks"]
        ctx.validated += s["cases"]
        ctx.nontrivial += s["nontrivial"]
        ctx.samples.append(r["case"])
        ctx.states = ctx.transitions = 1
    elif r.get("kind") == "trace":
        st = next(s for s in prop["stages"] if s["name"] == r["stage"])
        st = dict(st)
        st.setdefault("family", prop["family"])
        st.setdefault("specdir", prop.get("specdir", st["family"]))
        args = [a for a in r["record_cmd"][2:]]
        # strip -seed/-shard/-of from the stored command; re-record only the failing history
        clean, skip = [], 0
        for i, a in enumerate(args):
            if skip:
                skip -= 1
                continue
            if a in ("-seed", "-shard", "-of"):
                skip = 1
                continue
            clean.append(a)
        ctx.seed = int(r.get("seed", ctx.seed))
        st["record_args"] = clean + (["-only", str(r["only"])] if r.get("only") is not None else [])
        st["shards"] = 1
        stage_trace(ctx, st)
    elif r.get("kind") == "stage":
        st = next(s for s in prop["stages"] if s["name"] == r["stage"])
        st = dict(st)
        st.setdefault("family", prop["family"])
        st.setdefault("specdir", prop.get("specdir", st["family"]))
        STAGE_KINDS[st["kind"]](ctx, st)
    else:
        raise Machinery("unknown replay file kind")


def main(argv):
    from props import PROPS
    ap = argparse.ArgumentParser()
    ap.add_argument("pid")
    ap.add_argument("--tier", default=os.environ.get("VERIF_TIER", "quick"), choices=["quick", "thorough"])
    ap.add_argument("--replay")
    ap.add_argument("--keep", action="store_true", help="keep the scratch directory")
    ap.add_argument("--stage", action="append", help="run only the named stage(s) (development)")
    a = ap.parse_args(argv)
    pid = a.pid
    if pid not in PROPS:
        log("unknown property", pid)
        return 2
    prop = PROPS[pid]
    try:
        seed = int(os.environ.get("VERIF_SEED", "1"))
    except ValueError:
        seed = 1
    t0 = time.time()
    scratch = tempfile.mkdtemp(prefix="verif-%s-" % pid)
    ctx = Ctx(pid, a.tier, seed, scratch)
    before = repo_status()
    rc = 0
    try:
        ctx.binder = build_binder(scratch)
        if a.replay:
            do_replay(pid, prop, a.replay, ctx)
        else:
            for st in prop["stages"]:
                if a.stage and st["name"] not in a.stage:
                    continue
                tiers = st.get("tiers")
                if tiers and a.tier not in tiers:
                    continue
                st = dict(st)
                st.setdefault("family", prop["family"])
                st.setdefault("specdir", prop.get("specdir", st["family"]))
                STAGE_KINDS[st["kind"]](ctx, st)
        ctx.trusted |= set(prop.get("trusted", []))
        known = load_known(pid)
        unknown_sigs = []
        for sig, cnt in sorted(ctx.known.items()):
            hit = [k for k in known if k["site"] == sig]
            if hit:
                print("KNOWN-FINDING: property=%s site=%s (%d calls) %s" % (pid, sig, cnt, hit[0]["text"]))
            else:
                unknown_sigs.append(sig)
        for sig in unknown_sigs:
            ctx.violations.append(dict(what="unlisted-known-signature", detail="binder attributed mismatches to %s which known_findings.txt does not list" % sig,
                                       replay=dict(kind="none")))
        nviol = len(ctx.violations)
        if not a.replay and not a.stage and os.path.realpath(REPO) == "/repo":      # evidence only for /repo itself
            write_evidence(pid, prop, ctx, time.time() - t0, nviol, prop.get("level", "model_checking"))
        if nviol:
            seen = set()
            order, whats = [], set()
            for v in ctx.violations:          # one replay per kind of disagreement first
                if v["what"] not in whats:
                    whats.add(v["what"])
                    order.append(v)
            order += [v for v in ctx.violations if v not in order]
            for v in order[:5]:
                path = save_replay(pid, v)
                if path in seen:
                    continue
                seen.add(path)
                log("  %s: %s" % (v["what"], v["detail"][:600]))
                print("VIOLATION property=%s replay=%s" % (pid, path))
            rc = 1
        else:
            log("[%s] %s tier: conforms (%d TLC states, %d cases/traces bound to the implementation, %d comparisons) in %.1fs"
                % (pid, a.tier, ctx.states, ctx.validated, ctx.evaluations, time.time() - t0))
    except Machinery as e:
        log("MACHINERY-ERROR property=%s: %s" % (pid, e))
        rc = 2
    finally:
        after = repo_status()
        if after != before:
            log("MACHINERY-ERROR: /repo working tree changed during the check:\n" + after)
            rc = rc or 2
        if a.keep:
            log("scratch kept at", scratch)
        else:
            shutil.rmtree(scratch, ignore_errors=True)
    return rc
