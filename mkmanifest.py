#!/usr/bin/env python3
"""Regenerate MANIFEST.json from props.py (single source of truth for the registered checks)."""
import json, os
from props import PROPS
here = os.path.dirname(os.path.abspath(__file__))
ids = [json.loads(l)["id"] for l in open(os.path.join(here, "properties.jsonl"))]
checks, na = [], []
for pid in ids:
    p = PROPS.get(pid)
    if not p or p.get("not_applicable"):
        na.append(dict(property_id=pid, reason=(p or {}).get("not_applicable", "check not built yet (work in progress; see DESIGN.md section 8 for the build order)")))
        continue
    checks.append(dict(
        property_id=pid,
        quick_cmd="./check %s --tier quick" % pid,
        thorough_cmd="./check %s --tier thorough" % pid,
        evidence_file="/verif/evidence/%s.json" % pid,
        replay_cmd_template="./check %s --replay {path}" % pid,
        engine="tlc+binder",
        level_claimed=dict(category=p.get("level", "model_checking"), text=p["level_text"], design_ref=p.get("design_ref", "DESIGN.md section 4, " + pid)),
        level_note=p["level_note"],
        technique=p["technique"],
    ))
m = dict(
    version=1,
    setup_cmd="cd /verif/harness && cp /repo/go.sum go.sum && GOFLAGS=-mod=mod GOPROXY=off GOSUMDB=off GOTOOLCHAIN=local go build -tags verif -o /dev/null . && command -v java >/dev/null",
    hooks=dict(guard="verif", enable="go build -tags verif (the binder is always built with the tag; no hook commits exist yet)",
               baseline_off_cmd="cd /repo && GOPROXY=off GOSUMDB=off GOTOOLCHAIN=local go test -mod=mod -vet=off -count=1 ./...",
               source_commits=[], add_only=True),
    engines=[dict(name="tlc+binder", path="/verif/check", serves_properties=[c["property_id"] for c in checks],
                  kind_free_text="explicit TLA+ specifications (spec/) checked by TLC; bound to the code by replaying TLC-emitted cases into the real API and by validating traces recorded from the real API against trace specifications (harness/binder)")],
    checks=checks,
    notes="One driver (./check <id>) per property; tiers via --tier or VERIF_TIER; seeds via VERIF_SEED. Known findings: known_findings.txt. Design: DESIGN.md.",
    not_applicable=na,
)
json.dump(m, open(os.path.join(here, "MANIFEST.json"), "w"), indent=1)
print("checks:", [c["property_id"] for c in checks], "n/a:", [x["property_id"] for x in na])
