CONSTANTS
  XSets <- @@XSets@@
  Bases = @@Bases@@
  Coefs <- @@Coefs@@
  Perturbs = {"none", "alt", "spike"}
  WeightPats = {"nil", "ramp", "ends"}
  LoessDegs = {0, 1, 2}
  LoessSpans <- SpansDef
SPECIFICATION Spec
INVARIANT Emit
CHECK_DEADLOCK FALSE
