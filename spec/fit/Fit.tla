--------------------------------- MODULE Fit ---------------------------------
(***************************************************************************)
(* fit.LinearLeastSquares, fit.PolynomialRegression, fit.LOESS.            *)
(*                                                                         *)
(* LinearLeastSquares only sees the numbers its term callbacks write, so a *)
(* problem is an integer design matrix X (n x p), optional positive        *)
(* integer weights W and integer observations y.  The specification forms  *)
(* the normal equations  A = X^T W X,  b = X^T W y  exactly and DEFINES    *)
(* the result as the solution of A beta = b (Cramer's rule in BigInt;      *)
(* unique because only designs with det A # 0 are emitted) -- which is     *)
(* equivalent to "the weighted residual is orthogonal to every basis       *)
(* function" and, A being positive definite, to minimality.                *)
(* LOESS at x0: the q = min(n, ceil(span n)) nearest points, tricube       *)
(* weights (d^3 - |x0 - x_i|^3)^3 (common factor d^-9 dropped), weighted   *)
(* local polynomial of the given degree evaluated at x0.                   *)
(* Abscissae are integers; LOESS queries are half-integers (scaled by 2).  *)
(***************************************************************************)
EXTENDS Integers, Sequences, FiniteSets, TLC, Json, BigInt
CONSTANTS XSets,      \* set of sequences of distinct integer abscissae (ascending)
          Bases,      \* set of basis names
          Coefs,      \* set of generating coefficient vectors (length 4: c0 + c1 x + c2 x^2 + c3 x^3)
          Perturbs,   \* subset of {"none", "alt", "spike"}
          WeightPats, \* subset of {"nil", "ramp", "ends"}
          LoessDegs, LoessSpans
VARIABLES kind, xs, prob, done
vars == <<kind, xs, prob, done>>
Null == [null |-> TRUE]

RECURSIVE IPow(_,_)
IPow(a, e) == IF e = 0 THEN 1 ELSE a * IPow(a, e - 1)
IAbs(a) == IF a < 0 THEN 0 - a ELSE a
\* basis functions (integer valued on integers)
BasisFns(name) ==
  CASE name = "poly0" -> <<"1">>
    [] name = "poly1" -> <<"1", "x">>
    [] name = "poly2" -> <<"1", "x", "x2">>
    [] name = "poly3" -> <<"1", "x", "x2", "x3">>
    [] name = "poly4" -> <<"1", "x", "x2", "x3", "x4">>
    [] name = "poly5" -> <<"1", "x", "x2", "x3", "x4", "x5">>
    [] name = "poly6" -> <<"1", "x", "x2", "x3", "x4", "x5", "x6">>
    [] name = "abs"   -> <<"1", "abs", "x">>
    [] name = "nocst" -> <<"x", "x2">>
    [] name = "step"  -> <<"1", "pos", "x">>
    [] name = "mod"   -> <<"1", "mod3", "x2">>
Eval(f, x) == CASE f = "1" -> 1 [] f = "x" -> x [] f = "x2" -> x * x [] f = "x3" -> x * x * x [] f = "x4" -> x * x * x * x [] f = "x5" -> x * x * x * x * x [] f = "x6" -> x * x * x * x * x * x
                [] f = "abs" -> IAbs(x) [] f = "pos" -> (IF x > 0 THEN 1 ELSE 0) [] f = "mod3" -> x % 3
Design(name, X) == [i \in 1..Len(X) |-> [j \in 1..Len(BasisFns(name)) |-> Eval(BasisFns(name)[j], X[i])]]
Weights(pat, n) == CASE pat = "nil" -> [i \in 1..n |-> 1]
                     [] pat = "ramp" -> [i \in 1..n |-> 1 + ((i - 1) % 3)]
                     [] pat = "ends" -> [i \in 1..n |-> IF i = 1 THEN 3 ELSE IF i = n THEN 2 ELSE 1]
Ys(c, pert, X) == [i \in 1..Len(X) |-> c[1] + c[2] * X[i] + c[3] * X[i] * X[i] + c[4] * X[i] * X[i] * X[i]
                                       + (CASE pert = "none" -> 0 [] pert = "alt" -> (IF i % 2 = 0 THEN 1 ELSE -1)
                                            [] pert = "spike" -> (IF i = 2 THEN 4 ELSE 0))]

\* ---- exact linear algebra over signed BigInt ----
RECURSIVE SSum(_,_,_)
SSum(f(_), i, n) == IF i > n THEN SZero ELSE SAdd(f(i), SSum(f, i + 1, n))
\* A[j][k] = sum_i w_i X[i][j] X[i][k],  b[j] = sum_i w_i X[i][j] y_i     (w, X, y: plain integers or signed big)
NormalA(X, w, p) == [j \in 1..p |-> [k \in 1..p |->
     LET t(i) == SMul(w[i], SMul(X[i][j], X[i][k])) IN SSum(t, 1, Len(X))]]
NormalB(X, w, y, p) == [j \in 1..p |-> LET t(i) == SMul(w[i], SMul(X[i][j], y[i])) IN SSum(t, 1, Len(X))]
\* determinant by Laplace expansion along the first row
Minor(M, c) == [i \in 1..(Len(M) - 1) |-> [j \in 1..(Len(M) - 1) |-> M[i + 1][IF j < c THEN j ELSE j + 1]]]
RECURSIVE Det(_)
Det(M) == IF Len(M) = 1 THEN M[1][1]
          ELSE LET t(c) == LET v == SMul(M[1][c], Det(Minor(M, c))) IN IF c % 2 = 1 THEN v ELSE SNeg(v)
               IN SSum(t, 1, Len(M))
ReplaceCol(M, c, v) == [i \in 1..Len(M) |-> [j \in 1..Len(M) |-> IF j = c THEN v[i] ELSE M[i][j]]]
\* Cramer: beta[j] = det(A with column j replaced by b) / det A ; returns <<numerators, det>>
Solve(A, b) == LET d == Det(A) IN [num |-> [j \in 1..Len(A) |-> Det(ReplaceCol(A, j, b))], den |-> d]
ToS(M) == [i \in 1..Len(M) |-> [j \in 1..Len(M[i]) |-> SFrom(M[i][j])]]
ToSV(v) == [i \in 1..Len(v) |-> SFrom(v[i])]

\* the solution satisfies the normal equations:  A num = den b   (checked by TLC on every emitted case)
NormalEqHolds(A, b, sol) == \A j \in 1..Len(A) :
   LET t(k) == SMul(A[j][k], sol.num[k]) IN SSum(t, 1, Len(A)) = SMul(sol.den, b[j])

-----------------------------------------------------------------------------
\* LOESS.  Everything is scaled by 2 so that half-integer queries are integers: X2 = 2 x_i, q0 = 2 x0.
CeilDiv(a, b) == 0 - ((0 - a) \div b)
WindowSize(n, span) == LET q == CeilDiv(span[1] * n, span[2]) IN IF q >= n THEN n ELSE q
\* the q nearest points: all windows of q consecutive sorted points, the one with the smallest farthest distance
FarDist(X2, s, q, q0) == LET a == IAbs(q0 - X2[s]) b == IAbs(X2[s + q - 1] - q0) IN IF a > b THEN a ELSE b
BestStart(X2, q, q0) == CHOOSE s \in 1..(Len(X2) - q + 1) : \A s2 \in 1..(Len(X2) - q + 1) : FarDist(X2, s, q, q0) <= FarDist(X2, s2, q, q0)
Tricube(d, dist) == LET t == SSub(SFrom(d * d * d), SFrom(dist * dist * dist)) IN SMul(t, SMul(t, t))
\* the value of the weighted local polynomial at q0 (in the scaled coordinate u = 2x): sum_j q0^j beta_j
LoessValue(X, y, deg, span, q0) ==
  LET n == Len(X)  q == WindowSize(n, span)
      X2 == [i \in 1..n |-> 2 * X[i]]
      s == BestStart(X2, q, q0)
      d == FarDist(X2, s, q, q0)
      idx == [i \in 1..q |-> s + i - 1]
      w == [i \in 1..q |-> Tricube(d, IAbs(q0 - X2[idx[i]]))]
      D == [i \in 1..q |-> [j \in 1..(deg + 1) |-> SFrom(IPow(X2[idx[i]], j - 1))]]
      yy == [i \in 1..q |-> SFrom(y[idx[i]])]
      A == NormalA(D, w, deg + 1)  b == NormalB(D, w, yy, deg + 1)
      sol == Solve(A, b)
      t(j) == SMul(SFrom(IPow(q0, j - 1)), sol.num[j])
  IN [q |-> q, start |-> s, d |-> d, num |-> SSum(t, 1, deg + 1), den |-> sol.den,
      npos |-> Cardinality({i \in 1..q : w[i].s > 0}), A |-> A, b |-> b, sol |-> sol]
\* y values outside the window do not matter; neither does which of two equidistant edge points is taken (weight 0)
EdgeWeightZero(X, span, q0) == LET n == Len(X) q == WindowSize(n, span) X2 == [i \in 1..n |-> 2 * X[i]]
      s == BestStart(X2, q, q0) d == FarDist(X2, s, q, q0)
   IN \A i \in s..(s + q - 1) : IAbs(q0 - X2[i]) = d => Tricube(d, IAbs(q0 - X2[i])).s = 0

-----------------------------------------------------------------------------
Init == kind \in {"lls", "loess"} /\ xs = Null /\ prob = Null /\ done = FALSE
ChooseXs == xs = Null /\ \E X \in XSets : xs' = X /\ UNCHANGED <<kind, prob, done>>
ChooseProb == /\ xs # Null /\ prob = Null /\ UNCHANGED <<kind, xs, done>>
              /\ \/ kind = "lls" /\ \E bs \in Bases, c \in Coefs, pt \in Perturbs, wp \in WeightPats :
                       prob' = [basis |-> bs, c |-> c, pert |-> pt, wpat |-> wp]
                 \/ kind = "loess" /\ \E dg \in LoessDegs, sp \in LoessSpans, c \in Coefs, pt \in Perturbs, q0 \in (2 * xs[1])..(2 * xs[Len(xs)]) :
                       prob' = [deg |-> dg, span |-> sp, c |-> c, pert |-> pt, q0 |-> q0]
\* the (expensive) evaluation of a problem happens in a step of its own so that TLC's workers share it
Finish == prob # Null /\ ~done /\ done' = TRUE /\ UNCHANGED <<kind, xs, prob>>
Next == ChooseXs \/ ChooseProb \/ Finish
Spec == Init /\ [][Next]_vars

Big(v) == [s |-> v.s, m |-> v.m]
EmitLLS ==
  LET X == Design(prob.basis, xs)  p == Len(BasisFns(prob.basis))  n == Len(xs)
      w == Weights(prob.wpat, n)  y == Ys(prob.c, prob.pert, xs)
      A == NormalA(ToS(X), ToSV(w), p)  b == NormalB(ToS(X), ToSV(w), ToSV(y), p)
      sol == Solve(A, b)
  IN IF sol.den.s = 0 \/ n < p THEN TRUE          \* rank-deficient design: outside the statement, nothing emitted
     ELSE /\ NormalEqHolds(A, b, sol)
          \* polynomial data is reproduced exactly by a polynomial basis of sufficient degree, under any weights
          /\ (prob.pert = "none" /\ prob.basis = "poly3") => \A j \in 1..4 : sol.num[j] = SMul(sol.den, SFrom(prob.c[j]))
          /\ PrintT(ToJson([kind |-> "lls", xs |-> xs, basis |-> prob.basis, fns |-> BasisFns(prob.basis), X |-> X,
                            w |-> IF prob.wpat = "nil" THEN <<>> ELSE w, y |-> y,
                            A |-> A, b |-> b, num |-> sol.num, den |-> sol.den]))
EmitLoess ==
  LET y == Ys(prob.c, prob.pert, xs)  n == Len(xs)
      q == WindowSize(n, prob.span)
  IN IF q < prob.deg + 1 THEN TRUE
     ELSE LET r == LoessValue(xs, y, prob.deg, prob.span, prob.q0) IN
          IF r.den.s = 0 \/ r.npos < prob.deg + 1 THEN TRUE     \* too few points with positive weight: singular local fit
          ELSE /\ EdgeWeightZero(xs, prob.span, prob.q0)
               /\ NormalEqHolds(r.A, r.b, r.sol)
               \* LOESS reproduces polynomials of degree at most its degree:  value(q0) = poly(q0/2)
               /\ (prob.pert = "none" /\ prob.c[3] = 0 /\ prob.c[4] = 0 /\ prob.deg >= 1) =>
                     SMul(r.num, SFrom(2)) = SMul(r.den, SFrom(2 * prob.c[1] + prob.c[2] * prob.q0))
               /\ PrintT(ToJson([kind |-> "loess", xs |-> xs, y |-> y, deg |-> prob.deg, span |-> prob.span, q0 |-> prob.q0,
                                 q |-> r.q, start |-> r.start, d2 |-> r.d, num |-> r.num, den |-> r.den]))
Emit == done => IF kind = "lls" THEN EmitLLS ELSE EmitLoess

XSetsQuick == {<<-2, 0, 1>>, <<-1, 0, 1, 2>>, <<-2, -1, 1, 3>>, <<0, 1, 2, 3, 4>>, <<-2, -1, 0, 1, 2, 3>>, <<-3, -1, 0, 2, 3, 5, 6>>}
XSetsThorough == XSetsQuick \cup {<<-2, -1, 0>>, <<0, 2, 3, 5>>, <<-4, -2, -1, 0, 3>>, <<1, 2, 3, 4, 5, 6, 7, 8>>, <<-5, -3, -2, 0, 1, 2, 4, 6, 7, 9>>}
CoefsQuick == {<<1, 1, 0, 1>>, <<0, 2, 0, 0>>, <<-1, 0, 2, 0>>, <<2, -1, 1, -1>>, <<3, 0, 0, 0>>}
CoefsThorough == CoefsQuick \cup {<<0, 0, 0, 2>>, <<1, -2, 0, 0>>, <<-2, 3, -1, 1>>, <<0, 1, 1, 0>>}
SpansDef == {<<1, 3>>, <<1, 2>>, <<3, 4>>, <<1, 1>>}
=============================================================================
