CONSTANTS
  MaxN = @@MaxN@@
  QDen = @@QDen@@
  CDen = @@CDen@@
SPECIFICATION Spec
INVARIANTS GreedyIsValid GrowInv Nested
CHECK_DEADLOCK FALSE
