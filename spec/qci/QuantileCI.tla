------------------------------ MODULE QuantileCI ------------------------------
(***************************************************************************)
(* stats.QuantileCI for n <= 30: the relational specification (Valid) and, *)
(* next to it, the greedy accumulation the code performs, in exact         *)
(* rational arithmetic.  TLC checks that Greedy satisfies Valid for every  *)
(* (n, q, c) of a bounded grid and that the intervals are nested in c      *)
(* (design level); the same predicate judges recorded calls in             *)
(* QuantileCITrace.tla.                                                    *)
(* Buckets: k = 0..n is the number of sample values below the quantile;    *)
(* m[k] = C(n,k) a^k (b-a)^(n-k) (over b^n) for q = a/b; the interval      *)
(* LoOrder..HiOrder covers buckets LoOrder..HiOrder-1.                     *)
(***************************************************************************)
EXTENDS Integers, Sequences, FiniteSets, TLC
CONSTANTS MaxN, QDen, CDen
VARIABLES n, a, c, pc, lo, hi, acc, amb
vars == <<n, a, c, pc, lo, hi, acc, amb>>
\* small exact integers: b^n <= 8^8, masses fit TLC integers
b == QDen
RECURSIVE Ch(_,_), IPow(_,_)
Ch(nn, k) == IF k < 0 \/ k > nn THEN 0 ELSE IF k = 0 THEN 1 ELSE (Ch(nn, k-1) * (nn - k + 1)) \div k
IPow(x, e) == IF e = 0 THEN 1 ELSE x * IPow(x, e - 1)
\* (a zero factor is taken first: with both factors >= 1 every partial product is <= b^n)
M(k) == IF k < 0 \/ k > n THEN 0
        ELSE IF (a = 0 /\ k > 0) \/ (a = b /\ k < n) THEN 0
        ELSE Ch(n, k) * IPow(a, k) * IPow(b - a, n - k)
Den == IPow(b, n)
RECURSIVE MassR(_,_)
MassR(l, r) == IF l >= r THEN 0 ELSE M(l) + MassR(l + 1, r)          \* buckets l..r-1
Modes == {k \in 0..n : \A j \in 0..n : M(k) >= M(j)}
\* c = c_num / CDen ; "mass >= c"  <=>  mass * CDen >= c * Den
AtLeast(mass) == mass * CDen >= c * Den

\* ---- the relational specification ----
Valid(l, r, conf, ambig) ==
  /\ 0 <= l /\ l < r /\ r <= n + 1
  /\ conf = MassR(l, r)
  /\ AtLeast(conf)
  /\ \E k \in Modes : l <= k /\ k < r
  /\ (r - l >= 2) => ~(AtLeast(MassR(l + 1, r)) /\ AtLeast(MassR(l, r - 1)))   \* at least one end bucket is needed (a one-bucket interval cannot shrink)
  /\ ambig => MassR(l + 1, r + 1) = MassR(l, r)

\* ---- the greedy accumulation, step by step ----
StartMode == IF a = 0 THEN 0 ELSE ((n + 1) * a + b - 1) \div b - 1      \* Ceil((n+1) q) - 1
Init == /\ n \in 1..MaxN /\ a \in 0..QDen /\ c \in 0..(CDen - 1)
        /\ pc = "start" /\ lo = 0 /\ hi = 0 /\ acc = 0 /\ amb = FALSE
Begin == /\ pc = "start"
         /\ lo' = StartMode /\ hi' = StartMode + 1 /\ acc' = M(StartMode)
         /\ amb' = (M(StartMode + 1) = M(StartMode))
         /\ pc' = "grow" /\ UNCHANGED <<n, a, c>>
Grow == /\ pc = "grow"
        /\ LET lp == M(lo - 1)  rp == M(hi) IN
           IF ~AtLeast(acc) /\ (lp > 0 \/ rp > 0)
           THEN /\ amb' = (lp = rp)
                /\ IF lp >= rp THEN lo' = lo - 1 /\ acc' = acc + lp /\ hi' = hi
                   ELSE hi' = hi + 1 /\ acc' = acc + rp /\ lo' = lo
                /\ pc' = "grow"
           ELSE pc' = "done" /\ UNCHANGED <<lo, hi, acc, amb>>
        /\ UNCHANGED <<n, a, c>>
Next == Begin \/ Grow
Spec == Init /\ [][Next]_vars

GreedyIsValid == pc = "done" => Valid(lo, hi, acc, amb)
\* while growing, the interval always contains the starting mode and acc is its mass
GrowInv == pc \in {"grow", "done"} => /\ acc = MassR(lo, hi) /\ lo <= StartMode /\ StartMode < hi
                                      /\ StartMode \in Modes /\ 0 <= lo /\ hi <= n + 1
\* nesting: the result for a smaller confidence level is contained in the result for a larger one, because the
\* accumulation order does not depend on c: the interval reached for c is a prefix of the growth sequence
RECURSIVE Run(_,_,_,_)
Run(l, r, ac, cc) == LET lp == M(l - 1) rp == M(r) IN
   IF ac * CDen >= cc * Den \/ (lp = 0 /\ rp = 0) THEN <<l, r>>
   ELSE IF lp >= rp THEN Run(l - 1, r, ac + lp, cc) ELSE Run(l, r + 1, ac + rp, cc)
Nested == pc = "start" => \A c2 \in c..(CDen - 1) :
   LET i1 == Run(StartMode, StartMode + 1, M(StartMode), c)  i2 == Run(StartMode, StartMode + 1, M(StartMode), c2)
   IN i2[1] <= i1[1] /\ i1[2] <= i2[2]
=============================================================================
