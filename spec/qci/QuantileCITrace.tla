--------------------------- MODULE QuantileCITrace ---------------------------
(***************************************************************************)
(* Trace validation of stats.QuantileCI against the relational             *)
(* specification of QuantileCI.tla, with exact BigInt binomial masses.     *)
(*   SetDist(n, a, b)  selects Binomial(n, a/b) (masses computed once)     *)
(*   Query             n <= 30: the result must satisfy Valid, and be      *)
(*                     nested with every earlier result for this           *)
(*                     distribution (c1 <= c2 => interval1 within 2)       *)
(*   QueryN            n > 30: the band LoOrder-1/2 .. HiOrder-1/2 must be *)
(*                     the central normal band [l1, r1] rounded outward to *)
(*                     half-integers (upper end possibly one lower with    *)
(*                     Ambiguous), clamped; Confidence = its normal mass.  *)
(*                     l1, r1 and the masses are the harness's independent *)
(*                     evaluation of PhiInv / Phi (uninterpreted here).    *)
(* Tolerances: Confidence 1e-9; "at least c" as >= c - 1e-12.              *)
(***************************************************************************)
EXTENDS BigInt, FiniteSets, Json, IOUtils
CONSTANT TraceFile
Trace == ndJsonDeserialize(TraceFile)
VARIABLES n, mass, cum, modes, den, seen, exactf, l
vars == <<n, mass, cum, modes, den, seen, exactf, l>>
Init == n = 0 /\ mass = <<>> /\ cum = << <<>> >> /\ modes = {} /\ den = <<1>> /\ seen = <<>> /\ exactf = FALSE /\ l = 1

RECURSIVE PascalRow(_)
PascalRow(k) == IF k = 0 THEN << <<1>> >>
                ELSE LET p == PascalRow(k - 1) IN
                     TLCEval([i \in 1..(k + 1) |-> Add(IF i = 1 THEN <<>> ELSE p[i - 1], IF i = k + 1 THEN <<>> ELSE p[i])])
RECURSIVE Powers(_,_)
Powers(x, k) == IF k = 0 THEN << <<1>> >> ELSE LET p == Powers(x, k - 1) IN Append(p, Mul(p[k], x))
BinMass(N, a, b) == LET row == PascalRow(N)  pa == Powers(a, N)  pc == Powers(Sub(b, a), N) IN
   TLCEval([i \in 1..(N + 1) |-> Mul(row[i], Mul(pa[i], pc[N - i + 2]))])
M(k) == IF k < 0 \/ k > n THEN <<>> ELSE mass[k + 1]
\* cum[k+1] = mass of buckets 0..k-1 (prefix sums, computed once per distribution); buckets outside 0..n carry no mass
CumAt(k) == IF k <= 0 THEN <<>> ELSE IF k >= n + 1 THEN cum[n + 2] ELSE cum[k + 1]
MassR(lo, hi) == IF lo >= hi THEN <<>> ELSE Sub(CumAt(hi), CumAt(lo))
Modes == modes
RECURSIVE Prefixes(_,_)
Prefixes(m, k) == IF k = 0 THEN << <<>> >> ELSE LET p == Prefixes(m, k - 1) IN Append(p, Add(p[k], m[k]))

E18 == <<0, 0, 0, 0, 100>>
E12 == <<0, 0, 0, 1>>
E9 == <<0, 0, 10>>
P18(p) == [s |-> p.s, m |-> p.m]
\* |conf - x/den| <= 1e-9
ConfIs(p, x) == Cmp(SSub(SMul(P18(p), SNat(den)), SNat(Mul(x, E18))).m, Mul(E9, den)) <= 0
\* x/den >= c - 1e-12 and x/den >= c + 1e-12, with c the exact dyadic level
CRat(ev) == DyRat(ev.c.d)
\* When q = a/2^k and 2^(k n) <= 2^52 every binomial mass and every partial sum is exactly representable in float64, so the
\* accumulation the code performs is exact and "at least c" is decided without any slack (exactf); otherwise 1e-12.
Slack == IF exactf THEN [n |-> SZero, d |-> <<1>>] ELSE [n |-> SNat(<<1>>), d |-> E12]
AtLeastLoose(x, c) == RLe(RSub(c, Slack), [n |-> SNat(x), d |-> den])
AtLeastStrict(x, c) == RLe(RAdd(c, Slack), [n |-> SNat(x), d |-> den])
RECURSIVE Log2Exact(_)
Log2Exact(b) == IF b = 1 THEN 0 ELSE IF b % 2 = 0 THEN (LET r == Log2Exact(b \div 2) IN IF r < 0 THEN -1 ELSE r + 1) ELSE -1    \* k if b = 2^k, else -1
One == [n |-> SNat(<<1>>), d |-> <<1>>]

Valid(ev) ==
  LET lo == ev.lo hi == ev.hi c == CRat(ev) IN
  /\ ev.nres = n /\ ev.qok = 1
  /\ 0 <= lo /\ lo < hi /\ hi <= n + 1
  /\ IF ev.c.c # "fin" \/ RLe(One, c)
     THEN lo = 0 /\ hi = n + 1 /\ ConfIs(ev.conf, den) /\ ev.amb = 0                  \* c >= 1: the whole range, Confidence 1
     ELSE /\ ConfIs(ev.conf, MassR(lo, hi))
          /\ AtLeastLoose(MassR(lo, hi), c)
          \* the REPORTED Confidence (18 digits of the float) is never below the requested level: the accumulation goes on until
          \* its float sum reaches c.  Only the whole range cannot grow: there the float sum of all masses may fall short of a c
          \* within a few ulps of 1 although the exact mass (1) does not
          /\ (lo = 0 /\ hi = n + 1) \/ SCmp(P18(ev.conf), [s |-> ev.c18.s, m |-> ev.c18.m]) >= 0
          /\ \E k \in Modes : lo <= k /\ k < hi
          /\ (hi - lo >= 2) => ~(AtLeastStrict(MassR(lo + 1, hi), c) /\ AtLeastStrict(MassR(lo, hi - 1), c))
          /\ ev.amb = 1 => Cmp(Mul(AbsDiff(MassR(lo + 1, hi + 1), MassR(lo, hi)), E9), den) <= 0
\* nesting with earlier results for this distribution (levels at least 1e-12 apart; c18 = round(c * 10^18) as logged)
E6 == <<0, 100>>
C18(ev) == [s |-> ev.c18.s, m |-> ev.c18.m]
Nested(ev) == \A i \in 1..Len(seen) :
  LET o == seen[i] c == C18(ev) IN
  /\ (ev.c.c = "fin" /\ SCmp(SAdd(o.c, SNat(E6)), c) <= 0) => (ev.lo <= o.lo /\ o.hi <= ev.hi)
  /\ (ev.c.c = "fin" /\ SCmp(SAdd(c, SNat(E6)), o.c) <= 0) => (o.lo <= ev.lo /\ ev.hi <= o.hi)

\* ---- n > 30: normal approximation, structure only ----
Half == [n |-> SNat(<<1>>), d |-> <<2>>]
E7 == [n |-> SNat(<<1>>), d |-> <<0, 1000>>]            \* 1e-7
\* is k = Floor(x) possibly, allowing x to be off by 1e-7 ?
FloorMay(x, k) == RLe(RSub([n |-> SFrom(k), d |-> <<1>>], E7), x) /\ RLt(x, RAdd([n |-> SFrom(k + 1), d |-> <<1>>], E7))
CeilMay(x, k) == RLt(RSub([n |-> SFrom(k - 1), d |-> <<1>>], E7), x) /\ RLe(x, RAdd([n |-> SFrom(k), d |-> <<1>>], E7))
Clamp(x, a, b) == IF x < a THEN a ELSE IF x > b THEN b ELSE x
ValidN(ev) ==
  LET c == CRat(ev) IN
  /\ ev.nres = ev.n /\ ev.qok = 1
  /\ 0 <= ev.lo /\ ev.lo < ev.hi /\ ev.hi <= ev.n + 1
  /\ IF ev.c.c # "fin" \/ RLe(One, c) THEN ev.lo = 0 /\ ev.hi = ev.n + 1 /\ ev.conf = [s |-> 1, m |-> E18] /\ ev.amb = 0
     ELSE IF ev.degenerate = 1 \/ c.n.s <= 0 \/ (ev.L >= ev.H /\ FloorMay(RSub(DyRat(ev.l1.d), Half), ev.L - 1) /\ CeilMay(RSub(DyRat(ev.r1.d), Half), ev.H - 1))
     THEN \* q = 0 or 1, c <= 0, or a c so small that the band of content c rounds outward to no bucket at all (l1 = r1 on a
          \* half-integer): there is no central band to reproduce; the range clause and "Confidence is a probability >= c" remain
          /\ RLe(RSub(c, [n |-> SNat(<<1>>), d |-> E12]), [n |-> P18(ev.conf), d |-> E18])
          /\ ev.conf.s >= 0 /\ Cmp(ev.conf.m, Add(E18, <<0, 100>>)) <= 0
     ELSE
       \* L = Floor(l1 - 1/2) + 1, H = Ceil(r1 - 1/2) + 1 are the harness's unclamped orders; TLC re-derives them from l1, r1
       /\ FloorMay(RSub(DyRat(ev.l1.d), Half), ev.L - 1)
       /\ CeilMay(RSub(DyRat(ev.r1.d), Half), ev.H - 1)
       /\ ev.lo = Clamp(ev.L, 0, ev.n + 1)
       /\ \/ ev.hi = Clamp(ev.H, 0, ev.n + 1) /\ ev.amb = 0
          \/ ev.hi = Clamp(ev.H - 1, 0, ev.n + 1) /\ ev.amb = 1                   \* upper end one bucket lower, flagged
       \* Confidence: 1 when the unclamped band covers everything, else the normal mass of the returned (unclamped) band
       /\ LET full == ev.L <= 0 /\ (IF ev.amb = 1 THEN ev.H - 1 ELSE ev.H) >= ev.n + 1
              want == IF ev.amb = 1 THEN ev.massTrim ELSE ev.massFull
          IN IF full THEN ev.conf = [s |-> 1, m |-> E18]
             ELSE Cmp(SSub(P18(ev.conf), P18(want)).m, E9) <= 0
       /\ RLe(RSub(c, [n |-> SNat(<<1>>), d |-> E12]), [n |-> P18(ev.conf), d |-> E18])
       \* a band whose upper end was lowered (Ambiguous) was accepted by comparing its content with the level: the reported
       \* Confidence is then at least c EXACTLY (1e-18: the 18 logged digits), not merely to rounding
       /\ ev.amb = 1 => RLe(RSub(c, [n |-> SNat(<<1>>), d |-> E18]), [n |-> P18(ev.conf), d |-> E18])

Ev(e) == l <= Len(Trace) /\ Trace[l].op = e /\ l' = l + 1
SetDist == /\ Ev("SetDist") /\ n' = Trace[l].n
           /\ LET m == BinMass(Trace[l].n, Trace[l].a, Trace[l].b) IN
              /\ mass' = m /\ cum' = Prefixes(m, Trace[l].n + 1)
              /\ modes' = {k \in 0..Trace[l].n : \A j \in 0..Trace[l].n : Cmp(m[k + 1], m[j + 1]) >= 0}
           /\ den' = Powers(Trace[l].b, Trace[l].n)[Trace[l].n + 1]
           /\ seen' = <<>>
           /\ exactf' = (Len(Trace[l].b) = 1 /\ Log2Exact(Trace[l].b[1]) >= 0 /\ Log2Exact(Trace[l].b[1]) * Trace[l].n <= 52)
Query == /\ Ev("Query") /\ Trace[l].n = n
         /\ Valid(Trace[l]) /\ Nested(Trace[l])
         /\ seen' = IF Trace[l].c.c = "fin" /\ Len(seen) < 40 THEN Append(seen, [c |-> C18(Trace[l]), lo |-> Trace[l].lo, hi |-> Trace[l].hi]) ELSE seen
         /\ UNCHANGED <<n, mass, cum, modes, den, exactf>>
QueryN == /\ Ev("QueryN") /\ ValidN(Trace[l]) /\ UNCHANGED <<n, mass, cum, modes, den, seen, exactf>>
Reset == Ev("Reset") /\ n' = 0 /\ mass' = <<>> /\ cum' = << <<>> >> /\ modes' = {} /\ den' = <<1>> /\ seen' = <<>> /\ exactf' = FALSE
Next == SetDist \/ Query \/ QueryN \/ Reset
Spec == Init /\ [][Next]_vars
Accepted == TLCGet("stats").diameter - 1 = Len(Trace)
=============================================================================
