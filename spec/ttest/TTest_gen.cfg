CONSTANTS
  Vals <- @@Vals@@
  MaxLen = @@MaxLen@@
  Reps = @@Reps@@
SPECIFICATION Spec
INVARIANTS Laws Emit
CHECK_DEADLOCK FALSE
