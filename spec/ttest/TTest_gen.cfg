CONSTANTS
  Vals <- @@Vals@@
  MaxLen = @@MaxLen@@
SPECIFICATION Spec
INVARIANTS Laws Emit
CHECK_DEADLOCK FALSE
