----------------------------- MODULE TTestTrace -----------------------------
(***************************************************************************)
(* Trace validation for the t-tests and MeanCI (C04) on real-valued data.  *)
(* The driver (harness `binder record ttest`) keeps two samples that grow  *)
(* over a history (Push), and calls the four tests (each alternative, the  *)
(* two-sample tests also with the samples swapped) and MeanCI on them.     *)
(* The spec state is the two samples in their original order, as exact     *)
(* integers v (the float handed to the library is v * 2^sc).  Every reply  *)
(* is judged against the exact rational statistic:                         *)
(*   |T * se - d| <= tau   (squared, so that no root is needed), sign(T),  *)
(*   DoF exactly n1+n2-2 / n-1, Welch-Satterthwaite to 2^-26 relative,     *)
(*   P by the case analysis on the alternative over F(DoF, T), where F is  *)
(*   the Student-t CDF, uninterpreted here and evaluated by the harness    *)
(*   with an independent incomplete beta function on the logged (DoF, T),  *)
(*   the documented error for empty / one-element / mismatched / constant  *)
(*   input, and the inputs bit-identical after the call.                   *)
(* MeanCI: exact mean, symmetric interval, half-width w with               *)
(*   w^2 n = tq^2 var (tq the harness-evaluated t quantile), zero width    *)
(*   for c <= 0, infinite for c >= 1 or n <= 1, NaN for empty input.       *)
(* tau = 2^-26 |d| + 2^-40 max|x|: the recorder keeps offset/spread below  *)
(* 2^13 so that rounding in the library stays orders below tau.            *)
(***************************************************************************)
EXTENDS BigInt, Json, IOUtils
CONSTANT TraceFile
Trace == ndJsonDeserialize(TraceFile)
VARIABLES x1, x2, sc, l
vars == <<x1, x2, sc, l>>
Init == x1 = <<>> /\ x2 = <<>> /\ sc = 0 /\ l = 1
Ev(op) == l <= Len(Trace) /\ Trace[l].op = op /\ l' = l + 1

Sg(x) == [s |-> x.s, m |-> x.m]
RECURSIVE MaxD(_,_,_)
MaxD(a, b, i) == IF i = 0 THEN <<>> ELSE LET m == MaxD(a, b, i - 1)  d == SSub(a[i], b[i]).m IN IF Cmp(d, m) > 0 THEN d ELSE m
RECURSIVE SumS(_,_), SumQ(_,_), MaxA(_,_)
SumS(s, i) == IF i = 0 THEN SZero ELSE SAdd(s[i], SumS(s, i - 1))
SumQ(s, i) == IF i = 0 THEN SZero ELSE SAdd(SMul(s[i], s[i]), SumQ(s, i - 1))
MaxA(s, i) == IF i = 0 THEN <<>> ELSE LET r == MaxA(s, i - 1) IN IF Cmp(s[i].m, r) > 0 THEN s[i].m ELSE r
NatR(a) == [n |-> SNat(a), d |-> <<1>>]
IntR(k) == [n |-> SFrom(k), d |-> <<1>>]
SR(x) == [n |-> x, d |-> <<1>>]
Zero == IntR(0)
MeanR(s) == [n |-> SumS(s, Len(s)), d |-> FromNat(Len(s))]
\* sample variance, Len(s) >= 2
VarR(s) == LET n == Len(s)  S == SumS(s, n)  Q == SumQ(s, n) IN
           [n |-> SSub(SMul(SFrom(n), Q), SMul(S, S)), d |-> FromNat(n * (n - 1))]
RDiv(x, y) == [n |-> SMul([s |-> y.n.s, m |-> <<1>>], SMul(x.n, SNat(y.d))), d |-> Mul(x.d, y.n.m)]     \* y # 0
RSq(x) == RMul(x, x)
IsZero(x) == x.n.s = 0
DySq(d) == [s |-> IF d.s = 0 THEN 0 ELSE 1, m |-> Mul(d.m, d.m), e |-> 2 * d.e]
Fin(f) == f.c = "fin"
\* the library's float, expressed in the integer units of the state (divide by 2^sc)
Unit(d) == [d EXCEPT !.e = d.e - sc]

\* ---- the statistic: err, d (numerator), se2 (squared standard error), dof ----
Res(err, d, se2, dof) == [err |-> err, d |-> d, se2 |-> se2, dof |-> dof]
Fail(e) == Res(e, Zero, Zero, Zero)
Pooled(a, b) ==
  LET n1 == Len(a) n2 == Len(b) IN
  IF n1 = 0 \/ n2 = 0 THEN Fail("size")
  ELSE IF n1 < 2 \/ n2 < 2 THEN Fail("unspecified")
  ELSE LET v1 == VarR(a) v2 == VarR(b) IN
       IF IsZero(v1) /\ IsZero(v2) THEN Fail("zerovar")
       ELSE LET v12 == RDiv(RAdd(RMul(IntR(n1 - 1), v1), RMul(IntR(n2 - 1), v2)), IntR(n1 + n2 - 2)) IN
            Res("none", RSub(MeanR(a), MeanR(b)), RMul(v12, RatI(n1 + n2, n1 * n2)), IntR(n1 + n2 - 2))
Welch(a, b) ==
  LET n1 == Len(a) n2 == Len(b) IN
  IF n1 <= 1 \/ n2 <= 1 THEN Fail("size")
  ELSE LET v1 == VarR(a) v2 == VarR(b)  s1 == RDiv(v1, IntR(n1))  s2 == RDiv(v2, IntR(n2)) IN
       IF IsZero(v1) /\ IsZero(v2) THEN Fail("zerovar")
       ELSE Res("none", RSub(MeanR(a), MeanR(b)), RAdd(s1, s2),
                RDiv(RSq(RAdd(s1, s2)), RAdd(RDiv(RSq(s1), IntR(n1 - 1)), RDiv(RSq(s2), IntR(n2 - 1)))))
One(s, mu) ==
  LET n == Len(s) IN
  IF n = 0 THEN Fail("size") ELSE IF n = 1 THEN Fail("unspecified")
  ELSE LET v == VarR(s) IN
       IF IsZero(v) THEN Fail("zerovar")
       ELSE Res("none", RSub(MeanR(s), mu), RDiv(v, IntR(n)), IntR(n - 1))
Paired(a, b, mu) ==
  IF Len(a) # Len(b) THEN Fail("mismatch")
  ELSE IF Len(a) <= 1 THEN Fail("size")
  ELSE One([i \in 1..Len(a) |-> SSub(a[i], b[i])], mu)

\* ---- judging a reply ----
Near(f, want, k) == Fin(f) /\ RNear(DyRat(f.d), want, IntR(1), k)           \* |f - want| <= 2^-k
OneR == IntR(1)
Judge(r, e, n1, n2, maxabs) ==
  IF r.err = "unspecified" THEN TRUE
  ELSE IF r.err # "none" THEN e.err = r.err
  ELSE /\ e.err = "none" /\ e.n1 = n1 /\ e.n2 = n2 /\ e.ralt = e.alt
       /\ Fin(e.T) /\ Fin(e.dof) /\ Fin(e.P)
       /\ LET A   == RAbs(r.d)
              tau == RAdd(RShr(A, 26), RShr(NatR(maxabs), 40))
              lo  == IF RLt(tau, A) THEN RSq(RSub(A, tau)) ELSE Zero
              hi  == RSq(RAdd(A, tau))
              t2s == RMul(DyRat(DySq(e.T.d)), r.se2)
          IN /\ RLe(lo, t2s) /\ RLe(t2s, hi)
             /\ RLt(tau, A) => e.T.d.s = r.d.n.s
       /\ RClose(DyRat(e.dof.d), r.dof, Zero, 26)
       /\ (r.dof.d = <<1>>) => REq(DyRat(e.dof.d), r.dof)                    \* integer degrees of freedom are exact
       /\ Fin(e.cT) /\ Fin(e.cA)
       /\ LET cT == DyRat(e.cT.d)  cA == DyRat(e.cA.d) IN
          CASE e.alt = -1 -> Near(e.P, cT, 29)
            [] e.alt = 1  -> Near(e.P, RSub(OneR, cT), 29)
            [] OTHER      -> Near(e.P, RMul(IntR(2), RSub(OneR, cA)), 28)

Reset == Ev("Reset") /\ x1' = <<>> /\ x2' = <<>> /\ sc' = Trace[l].sc
Push == /\ Ev("Push") /\ UNCHANGED sc
        /\ IF Trace[l].a = 1 THEN x1' = Append(x1, Sg(Trace[l].v)) /\ UNCHANGED x2
                             ELSE x2' = Append(x2, Sg(Trace[l].v)) /\ UNCHANGED x1
Test == /\ Ev("Test") /\ UNCHANGED <<x1, x2, sc>>
        /\ LET e == Trace[l]
               a == IF e.swap = 1 THEN x2 ELSE x1
               b == IF e.swap = 1 THEN x1 ELSE x2
               mu == SR(Sg(e.mu))
               m0 == MaxA(x1, Len(x1))  m1 == MaxA(x2, Len(x2))
               m2 == IF Cmp(m0, m1) > 0 THEN m0 ELSE m1
               maxabs == IF Cmp(m2, e.mu.m) > 0 THEN m2 ELSE e.mu.m
           IN /\ e.intact = 1
              /\ CASE e.kind = "pooled" -> Judge(Pooled(a, b), e, Len(a), Len(b), maxabs)
                   [] e.kind = "welch"  -> Judge(Welch(a, b), e, Len(a), Len(b), maxabs)
                   \* paired: the differences are formed first (exactly, on this lattice), so the rounding allowance is relative
                   \* to the largest |difference| and |mu|, not to the raw values - two samples of 2^40 that track each other
                   \* at a distance of 2^20 leave no room for a statistic built from the two means
                   [] e.kind = "paired" -> Judge(Paired(a, b, mu), e, Len(a), Len(b),
                                                 IF Len(a) = Len(b) THEN Add(MaxD(a, b, Len(a)), e.mu.m) ELSE Add(maxabs, maxabs))
                   [] e.kind = "one"    -> Judge(One(a, mu), e, Len(a), 0, maxabs)
MeanCI == /\ Ev("MeanCI") /\ UNCHANGED <<x1, x2, sc>>
          /\ LET e == Trace[l]
                 s == IF e.a = 1 THEN x1 ELSE x2
                 n == Len(s)
             IN /\ e.intact = 1
                /\ IF n = 0 THEN e.mean.c = "nan"
                   ELSE LET mean == MeanR(s)  ma == NatR(MaxA(s, n))  c == DyRat(e.conf.d) IN
                        /\ Fin(e.mean) /\ RNear(DyRat(Unit(e.mean.d)), mean, ma, 40)
                        /\ IF RLe(c, Zero) THEN Fin(e.lo) /\ Fin(e.hi) /\ e.lo.d = e.mean.d /\ e.hi.d = e.mean.d
                           ELSE IF RLe(OneR, c) \/ n <= 1 THEN e.lo.c = "-inf" /\ e.hi.c = "+inf"
                           ELSE /\ Fin(e.lo) /\ Fin(e.hi) /\ Fin(e.tq)
                                /\ LET lo == DyRat(Unit(e.lo.d))  hi == DyRat(Unit(e.hi.d))
                                       w == RMul(RatI(1, 2), RSub(hi, lo))
                                       v == VarR(s)
                                   IN /\ RLe(Zero, w)
                                      /\ RNear(RMul(RatI(1, 2), RAdd(hi, lo)), mean, RAdd(ma, w), 40)       \* symmetric about the mean
                                      \* w = tq s / sqrt(n), to 2^-25 relative and to the spacing of the floats that hold the two
                                      \* bounds (2^-48 of max|x|: at a tiny level the half-width is a few units on a mean of 3e9)
                                      /\ LET d == RAdd(RShr(w, 25), RShr(ma, 48))
                                             t == RMul(DyRat(DySq(e.tq.d)), v)
                                             low == IF RLt(d, w) THEN RMul(RSq(RSub(w, d)), IntR(n)) ELSE Zero
                                         IN RLe(low, t) /\ RLe(t, RMul(RSq(RAdd(w, d)), IntR(n)))
Next == Reset \/ Push \/ Test \/ MeanCI
Spec == Init /\ [][Next]_vars
Accepted == TLCGet("stats").diameter - 1 = Len(Trace)
=============================================================================
