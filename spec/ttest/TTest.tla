-------------------------------- MODULE TTest --------------------------------
(***************************************************************************)
(* stats.TwoSampleTTest, TwoSampleWelchTTest, PairedTTest, OneSampleTTest  *)
(* and MeanCI.  Samples are short sequences of small integers; the         *)
(* statistic is carried as sign and exact rational SQUARE (T2), the        *)
(* degrees of freedom as an exact rational:                                *)
(*   pooled : T2 = (m1-m2)^2 / (v12 (1/n1+1/n2)),  v12 = ((n1-1)v1+(n2-1)v2)/(n1+n2-2), dof = n1+n2-2 *)
(*   Welch  : T2 = (m1-m2)^2 / (v1/n1+v2/n2),  dof = (v1/n1+v2/n2)^2 / ((v1/n1)^2/(n1-1)+(v2/n2)^2/(n2-1)) *)
(*   paired : d = x1 - x2 (by position), T2 = n (mean(d)-mu0)^2 / var(d), dof = n-1 *)
(*   one    : T2 = n (m-mu0)^2 / v, dof = n-1                              *)
(* P = TCDF(dof, t), 1 - TCDF(dof, t), 2 (1 - TCDF(dof, |t|)) with the     *)
(* Student-t CDF left uninterpreted (the harness evaluates it with an      *)
(* independent incomplete beta function).                                  *)
(***************************************************************************)
EXTENDS Integers, Sequences, TLC, Json, SmallRat
CONSTANTS Vals, MaxLen,
          Reps        \* each enumerated sample is also used repeated k times (k in Reps), which reaches 30+ degrees of freedom
VARIABLES x1, x2, phase, rep
vars == <<x1, x2, phase, rep>>

RECURSIVE SumSeq(_), SumSq(_)
SumSeq(s) == IF s = <<>> THEN 0 ELSE Head(s) + SumSeq(Tail(s))
SumSq(s) == IF s = <<>> THEN 0 ELSE Head(s) * Head(s) + SumSq(Tail(s))
MeanQ(s) == QN(SumSeq(s), Len(s))
VarQ(s) == LET n == Len(s) IN QN(n * SumSq(s) - SumSeq(s) * SumSeq(s), n * (n - 1))      \* n >= 2
Sgn(q) == IF q[1] > 0 THEN 1 ELSE IF q[1] < 0 THEN -1 ELSE 0
Sq(q) == QMul(q, q)
Res(err, sign, t2, dof) == [err |-> err, sign |-> sign, t2 |-> t2, dof |-> dof]
Err(e) == Res(e, 0, QI(0), QI(0))

Pooled(a, b) ==
  LET n1 == Len(a) n2 == Len(b) IN
  IF n1 = 0 \/ n2 = 0 THEN Err("size")
  ELSE IF n1 < 2 \/ n2 < 2 THEN Err("unspecified")              \* a one-element sample: not claimed by the statement
  ELSE LET v1 == VarQ(a) v2 == VarQ(b) d == QSub(MeanQ(a), MeanQ(b)) IN
       IF v1 = QI(0) /\ v2 = QI(0) THEN Err("zerovar")
       ELSE LET v12 == QDiv(QAdd(QMul(QI(n1 - 1), v1), QMul(QI(n2 - 1), v2)), QI(n1 + n2 - 2)) IN
            Res("none", Sgn(d), QDiv(Sq(d), QMul(v12, QN(n1 + n2, n1 * n2))), QI(n1 + n2 - 2))
Welch(a, b) ==
  LET n1 == Len(a) n2 == Len(b) IN
  IF n1 <= 1 \/ n2 <= 1 THEN Err("size")
  ELSE LET v1 == VarQ(a) v2 == VarQ(b) d == QSub(MeanQ(a), MeanQ(b))
           s1 == QDiv(v1, QI(n1)) s2 == QDiv(v2, QI(n2)) IN
       IF v1 = QI(0) /\ v2 = QI(0) THEN Err("zerovar")
       ELSE Res("none", Sgn(d), QDiv(Sq(d), QAdd(s1, s2)),
                QDiv(Sq(QAdd(s1, s2)), QAdd(QDiv(Sq(s1), QI(n1 - 1)), QDiv(Sq(s2), QI(n2 - 1)))))
OneQ(s, mu) ==      \* mu a rational
  LET n == Len(s) IN
  IF n = 0 THEN Err("size") ELSE IF n = 1 THEN Err("unspecified")
  ELSE LET v == VarQ(s) d == QSub(MeanQ(s), mu) IN
       IF v = QI(0) THEN Err("zerovar") ELSE Res("none", Sgn(d), QDiv(QMul(QI(n), Sq(d)), v), QI(n - 1))
Paired(a, b, mu) ==
  IF Len(a) # Len(b) THEN Err("mismatch")
  ELSE IF Len(a) <= 1 THEN Err("size")
  ELSE OneQ([i \in 1..Len(a) |-> a[i] - b[i]], mu)
Mus == {QN(0, 1), QN(1, 2), QN(-3, 1)}

RECURSIVE Repl(_,_)
Repl(q, k) == IF k = 0 THEN <<>> ELSE q \o Repl(q, k - 1)
Init == x1 = <<>> /\ x2 = <<>> /\ phase = 1 /\ rep = 1
\* x1 is built as a non-decreasing sequence (a bag), x2 as an arbitrary sequence (pairing by position matters)
Grow1 == phase = 1 /\ Len(x1) < MaxLen /\ \E v \in Vals : (IF x1 = <<>> THEN TRUE ELSE v >= x1[Len(x1)]) /\ x1' = Append(x1, v) /\ UNCHANGED <<x2, phase, rep>>
Seal1 == phase = 1 /\ phase' = 2 /\ UNCHANGED <<x1, x2, rep>>
Grow2 == phase = 2 /\ Len(x2) < MaxLen /\ \E v \in Vals : x2' = Append(x2, v) /\ UNCHANGED <<x1, phase, rep>>
Seal2 == phase = 2 /\ phase' = 3 /\ (\E k \in Reps : rep' = k) /\ UNCHANGED <<x1, x2>>
Next == Grow1 \/ Seal1 \/ Grow2 \/ Seal2
Spec == Init /\ [][Next]_vars

\* ---- laws ----
Map(s, a, b) == [i \in 1..Len(s) |-> a * s[i] + b]
LawsOn(a1, a2) ==
  LET p == Pooled(a1, a2) w == Welch(a1, a2) ps == Pooled(a2, a1) ws == Welch(a2, a1) IN
  /\ ps.err = p.err /\ ps.t2 = p.t2 /\ ps.dof = p.dof /\ ps.sign = 0 - p.sign            \* swapping negates T
  /\ ws.err = w.err /\ ws.t2 = w.t2 /\ ws.dof = w.dof /\ ws.sign = 0 - w.sign
  /\ \A ab \in {<<1, 3>>, <<2, 0>>, <<3, -5>>} :                                         \* x -> a x + b, a > 0
       /\ Pooled(Map(a1, ab[1], ab[2]), Map(a2, ab[1], ab[2])) = p
       /\ Welch(Map(a1, ab[1], ab[2]), Map(a2, ab[1], ab[2])) = w
  /\ w.err = "none" => /\ QLe(QI((IF Len(a1) < Len(a2) THEN Len(a1) ELSE Len(a2)) - 1), w.dof)   \* Welch-Satterthwaite bounds
                       /\ QLe(w.dof, QI(Len(a1) + Len(a2) - 2))
  /\ (p.err = "none" /\ Len(a1) = Len(a2) /\ VarQ(a1) = VarQ(a2)) => p.t2 = w.t2 /\ p.dof = w.dof
  /\ (Len(a1) = Len(a2) /\ Len(a1) >= 2) => \A mu \in Mus : Paired(a1, a2, mu) = OneQ([i \in 1..Len(a1) |-> a1[i] - a2[i]], mu)

\* the laws (which involve the Welch-Satterthwaite quotient) are evaluated on the unreplicated samples, where all
\* rationals fit TLC's integers; replicated samples carry the pooled, paired and one-sample tests
Laws == (phase = 3 /\ rep = 1) => LawsOn(x1, x2)
EmitOn(a1, a2) ==
  PrintT(ToJson([x1 |-> a1, x2 |-> a2, pooled |-> Pooled(a1, a2), welch |-> IF rep = 1 THEN Welch(a1, a2) ELSE Err("unspecified"),
                 paired |-> [m \in 1..3 |-> LET mu == CHOOSE q \in Mus : (m = 1 /\ q = QN(0, 1)) \/ (m = 2 /\ q = QN(1, 2)) \/ (m = 3 /\ q = QN(-3, 1)) IN
                                [mu |-> mu, r |-> Paired(a1, a2, mu)]],
                 one |-> [m \in 1..3 |-> LET mu == CHOOSE q \in Mus : (m = 1 /\ q = QN(0, 1)) \/ (m = 2 /\ q = QN(1, 2)) \/ (m = 3 /\ q = QN(-3, 1)) IN
                                [mu |-> mu, r |-> OneQ(a1, mu)]],
                 mean1 |-> IF a1 = <<>> THEN QI(0) ELSE MeanQ(a1), var1 |-> IF Len(a1) >= 2 THEN VarQ(a1) ELSE QI(0)]))
Emit == phase = 3 => EmitOn(Repl(x1, rep), Repl(x2, rep))
ValsQuick == {-2, 0, 1}
ValsThorough == {-2, 0, 1, 3}
=============================================================================
