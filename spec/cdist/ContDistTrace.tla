---------------------------- MODULE ContDistTrace ----------------------------
(***************************************************************************)
(* Laws of stats.NormalDist, stats.TDist and stats.DeltaDist on recorded   *)
(* evaluations (Phi and the Student-t CDF stay uninterpreted):             *)
(*   CdfPt    sweep in x: values in [0,1], non-decreasing (slack 1e-12),   *)
(*            0 at -inf and 1 at +inf                                      *)
(*   Sym      CDF(c-d) + CDF(c+d) = 1 about the centre                     *)
(*   PdfPt    PDF finite and non-negative                                  *)
(*   Inv      NormalDist: CDF(InvCDF(p)) = p to 1e-9 relative; -inf at 0,  *)
(*            +inf at 1, NaN outside [0,1]                                 *)
(*   LS       CDF_{mu,sigma}(mu + sigma z) = CDF_{0,1}(z)                  *)
(*   Moments  Mean = Mu, Variance = Sigma^2, Bounds symmetric about Mu     *)
(*   Rand     Rand(src) = Mu + Sigma * (standard normal draw of src); with a  *)
(*            nil source the standardised draws still look standard normal *)
(*   Delta    DeltaDist{T}: CDF the unit step at T, PDF +inf at T else 0,  *)
(*            InvCDF = T on [0,1] and NaN outside  (complete specification)*)
(***************************************************************************)
EXTENDS BigInt, Json, IOUtils
CONSTANT TraceFile
Trace == ndJsonDeserialize(TraceFile)
VARIABLES last, l
vars == <<last, l>>
None == [valid |-> FALSE]
Init == last = None /\ l = 1
Fin(v) == v.c = "fin"
V(v) == DyRat(v.d)
Zero == RatI(0, 1)
One == RatI(1, 1)
Tol9 == RatI(1, 1000000000)
Tol12 == [n |-> SNat(<<1>>), d |-> <<0, 0, 0, 1>>]
Ev(e) == l <= Len(Trace) /\ Trace[l].op = e /\ l' = l + 1

CdfPt == /\ Ev("CdfPt") /\ LET ev == Trace[l] IN
           /\ Fin(ev.y) /\ RLe(Zero, V(ev.y)) /\ RLe(V(ev.y), One)
           /\ ev.x.c = "-inf" => ev.y.d.s = 0
           /\ ev.x.c = "+inf" => V(ev.y) = One
           /\ (ev.first = 0 /\ last.valid) => RLe(last.y, RAdd(V(ev.y), Tol12))
           /\ last' = [valid |-> TRUE, y |-> V(ev.y)]
Sym == /\ Ev("Sym") /\ LET ev == Trace[l] IN Fin(ev.y1) /\ Fin(ev.y2) /\ RLe(RAbs(RSub(RAdd(V(ev.y1), V(ev.y2)), One)), Tol9)
       /\ last' = None
PdfPt == Ev("PdfPt") /\ Fin(Trace[l].y) /\ Trace[l].y.d.s >= 0 /\ last' = None
Inv == /\ Ev("Inv") /\ LET ev == Trace[l] IN
          IF ev.p.c # "fin" \/ ev.p.d.s < 0 \/ RLt(One, V(ev.p)) THEN ev.x.c = "nan"
          ELSE IF ev.p.d.s = 0 THEN ev.x.c = "-inf"
          ELSE IF V(ev.p) = One THEN ev.x.c = "+inf"
          ELSE Fin(ev.x) /\ Fin(ev.y) /\ RLe(RAbs(RSub(V(ev.y), V(ev.p))), RMul(Tol9, V(ev.p)))
       /\ last' = None
\* |y - ystd| <= 1e-9 + 2^-48 |mu| / sigma   (the argument mu + sigma z is rounded once)
LS == /\ Ev("LS") /\ LET ev == Trace[l] IN
         Fin(ev.y) /\ Fin(ev.ystd) /\
         RLe(RMul(RAbs(RSub(V(ev.y), V(ev.ystd))), V(ev.sigma)),
             RAdd(RMul(Tol9, V(ev.sigma)), RShr(RAbs(V(ev.mu)), 48)))
      /\ last' = None
Moments == /\ Ev("Moments") /\ LET ev == Trace[l]  mu == V(ev.mu)  sg == V(ev.sigma) IN
              /\ V(ev.mean) = mu
              /\ RNear(V(ev.var), RMul(sg, sg), RMul(sg, sg), 50)
              /\ RLt(V(ev.lo), V(ev.hi))
              /\ RNear(RAdd(V(ev.lo), V(ev.hi)), RAdd(mu, mu), RAdd(RAbs(V(ev.lo)), RAbs(V(ev.hi))), 48)
           /\ last' = None
RandEv == /\ Ev("Rand") /\ LET ev == Trace[l] IN
             RNear(V(ev.x), RAdd(V(ev.mu), RMul(V(ev.sigma), V(ev.z))), RAdd(RAbs(V(ev.mu)), RAbs(RMul(V(ev.sigma), V(ev.z)))), 48)
          /\ last' = None
\* 2000 draws from the package-level source, standardised with Mu and Sigma: mean within 0.2 (8 standard errors), none beyond 10
RandNil == /\ Ev("RandNil") /\ LET ev == Trace[l] IN
              Fin(ev.mean) /\ Fin(ev.hi) /\ RLe(RAbs(V(ev.mean)), RatI(1, 5)) /\ RLe(V(ev.hi), RatI(10, 1))
           /\ last' = None
Delta == /\ Ev("Delta") /\ LET ev == Trace[l]  t == V(ev.t) IN
            /\ ev.cdf.c = "fin" /\ V(ev.cdf) = (IF RLe(t, V(ev.x)) THEN One ELSE Zero)
            /\ IF V(ev.x) = t THEN ev.pdf.c = "+inf" ELSE (ev.pdf.c = "fin" /\ ev.pdf.d.s = 0)
            /\ IF ev.p.c = "fin" /\ ev.p.d.s >= 0 /\ RLe(V(ev.p), One) THEN (Fin(ev.inv) /\ V(ev.inv) = t) ELSE ev.inv.c = "nan"
         /\ last' = None
Reset == Ev("Reset") /\ last' = None
Next == CdfPt \/ Sym \/ PdfPt \/ Inv \/ LS \/ Moments \/ RandEv \/ RandNil \/ Delta \/ Reset
Spec == Init /\ [][Next]_vars
Accepted == TLCGet("stats").diameter - 1 = Len(Trace)
=============================================================================
