------------------------------- MODULE ContDist -------------------------------
(***************************************************************************)
(* stats.TDist on an exact lattice, and parameter grids for NormalDist and *)
(* TDist.  For even nu the Student-t CDF is algebraic:                     *)
(*    F(x) = 1/2 + x/(2 s) * sum_{j < nu/2} C(2j,j)/4^j (nu/s^2)^j,        *)
(*    s^2 = nu + x^2,                                                      *)
(* and rational wherever s is: x = (nu/t - t)/2, s = (nu/t + t)/2 for a    *)
(* rational t = tp/tq.  With D = nu tq^2 + tp^2, X = nu tq^2 - tp^2,       *)
(* m = nu/2 and N = sum_j C(2j,j) (nu tp^2 tq^2)^j (D^2)^(m-1-j):          *)
(*    x = X / (2 tp tq),     F(x) = (D^(2m-1) + X N) / (2 D^(2m-1)).       *)
(* The same values pin mathx.BetaInc(nu/(nu+x^2), nu/2, 1/2) = 2(1-F(|x|)).*)
(* Phi and the general Student-t CDF are uninterpreted: the grids below    *)
(* are evaluated by the harness with independent implementations, and      *)
(* ContDistTrace.tla states the laws every recorded value must obey.       *)
(***************************************************************************)
EXTENDS Integers, Sequences, TLC, Json, BigInt
CONSTANTS Nus, Ts           \* even nu ; set of <<tp, tq>>
VARIABLES kind, par, done
vars == <<kind, par, done>>
Null == [null |-> TRUE]
RECURSIVE Ch(_,_)
Ch(n, k) == IF k < 0 \/ k > n THEN 0 ELSE IF k = 0 THEN 1 ELSE (Ch(n, k-1) * (n - k + 1)) \div k
RECURSIVE SumN(_,_,_,_)
\* sum_{j=0}^{m-1} C(2j,j) A^j B^(m-1-j)   (A, B naturals)
SumN(A, B, j, m) == IF j >= m THEN <<>> ELSE Add(Mul(FromNat(Ch(2 * j, j)), Mul(PowN(A, j), PowN(B, m - 1 - j))), SumN(A, B, j + 1, m))
TLattice(nu, tp, tq) ==
  LET m == nu \div 2
      D == nu * tq * tq + tp * tp
      X == nu * tq * tq - tp * tp
      N == SumN(FromNat(nu * tp * tp * tq * tq), Mul(FromNat(D), FromNat(D)), 0, m)
      Dp == PowN(FromNat(D), 2 * m - 1)
  IN [xnum |-> X, xden |-> 2 * tp * tq,
      fnum |-> SAdd(SNat(Dp), SMul(SFrom(X), SNat(N))), fden |-> MulS(Dp, 2)]

Init == kind \in {"tlattice", "grid"} /\ par = Null /\ done = FALSE
Pick == kind = "tlattice" /\ par = Null /\ \E nu \in Nus, t \in Ts : par' = [nu |-> nu, tp |-> t[1], tq |-> t[2]] /\ UNCHANGED <<kind, done>>
Finish == par # Null /\ ~done /\ done' = TRUE /\ UNCHANGED <<kind, par>>
Next == Pick \/ Finish
Spec == Init /\ [][Next]_vars

\* 0 < F < 1, F > 1/2 iff x > 0, and F(-x) = 1 - F(x) (t -> nu/t mirrors x)
LatticeLaws == (kind = "tlattice" /\ done) =>
  LET r == TLattice(par.nu, par.tp, par.tq)
      \* the mirror point: t' = nu/t = nu tq / tp
      r2 == TLattice(par.nu, par.nu * par.tq, par.tp) IN
  /\ r.fnum.s = 1 /\ Cmp(r.fnum.m, r.fden) < 0
  /\ (r.xnum > 0) = (Cmp(MulS(r.fnum.m, 2), r.fden) > 0)
  /\ r2.xnum * r.xden = 0 - r.xnum * r2.xden
  /\ Mul(SAdd(SMul(r.fnum, SNat(r2.fden)), SMul(r2.fnum, SNat(r.fden))).m, <<1>>) = Mul(r.fden, r2.fden)     \* F(x) + F(-x) = 1

MuGrid == {<<0, 1>>, <<1, 1>>, <<-7, 2>>, <<1000000, 1>>, <<-1000000, 1>>}
SigmaGrid == {<<1, 1>>, <<1, 1000000>>, <<5, 2>>, <<1000, 1>>, <<1000000, 1>>}
ZGrid == {<<0, 1>>, <<1, 1000>>, <<1, 2>>, <<1, 1>>, <<2, 1>>, <<3, 1>>, <<5, 1>>, <<8, 1>>, <<13, 1>>, <<25, 1>>, <<38, 1>>, <<40, 1>>}
VGrid == {<<1, 10>>, <<1, 2>>, <<1, 1>>, <<5, 2>>, <<7, 1>>, <<30, 1>>, <<100, 1>>, <<10000, 1>>}
\* a dense walk over the degrees of freedom (eighths up to 1000, then integers to 10^4): implementations switch between
\* Gamma, log-Gamma and asymptotic forms somewhere in this range
VWalk == {<<k, 8>> : k \in 1..8000} \cup {<<k, 1>> : k \in 1001..10000}
Emit ==
  /\ (kind = "tlattice" /\ done) => LET r == TLattice(par.nu, par.tp, par.tq) IN
        PrintT(ToJson([kind |-> "tlattice", nu |-> par.nu, tp |-> par.tp, tq |-> par.tq,
                       xnum |-> r.xnum, xden |-> r.xden, fnum |-> r.fnum, fden |-> r.fden]))
  /\ (kind = "grid" /\ ~done) => PrintT(ToJson([kind |-> "grid", mus |-> MuGrid, sigmas |-> SigmaGrid, zs |-> ZGrid, vs |-> VGrid, vwalk |-> VWalk]))
NusDef == {2, 4, 6, 8, 10, 12, 14, 16, 18, 20}
TsQuick == {<<1, 3>>, <<1, 2>>, <<1, 1>>, <<3, 2>>, <<2, 1>>, <<3, 1>>, <<5, 1>>, <<7, 3>>}
TsThorough == TsQuick \cup {<<1, 10>>, <<1, 5>>, <<2, 3>>, <<4, 3>>, <<5, 2>>, <<4, 1>>, <<7, 1>>, <<10, 1>>, <<9, 4>>, <<11, 5>>}
=============================================================================
