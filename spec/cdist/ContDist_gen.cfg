CONSTANTS
  Nus <- NusDef
  Ts <- @@Ts@@
SPECIFICATION Spec
INVARIANTS LatticeLaws Emit
CHECK_DEADLOCK FALSE
