------------------------------- MODULE Session -------------------------------
(***************************************************************************)
(* Purity of the library's API, as a session of calls over a shared heap.  *)
(*                                                                         *)
(* State:                                                                  *)
(*   heap[o]   content digest of every object (slice, Sample, graph,       *)
(*             scale, histogram, distribution ...) shared with the library *)
(*   memo[s]   result digest first observed for call signature s           *)
(*             (function name + content digests of all its arguments)      *)
(*   pc[g]     sequence number of goroutine g's last call                  *)
(* One action: Call.  A call may change an argument only if it is one of   *)
(* the documented in-place operations AND that argument is its receiver    *)
(* (flagged mut); every other argument is bit-identical afterwards.  A     *)
(* signature seen before must give the bit-identical result, whatever      *)
(* calls happened in between and on whichever goroutine.  Because nothing  *)
(* shared is ever changed in the concurrent phase, every interleaving of   *)
(* the per-goroutine sequences is a behaviour of this specification.       *)
(***************************************************************************)
EXTENDS Integers, Sequences, FiniteSets, TLC, Json, IOUtils
CONSTANT TraceFile
Trace == ndJsonDeserialize(TraceFile)
VARIABLES heap, memo, pc, l
vars == <<heap, memo, pc, l>>

InPlace == {"Sample.Sort", "graphalg.Reverse", "Linear.Nice", "Log.Nice", "Linear.SetClamp", "Log.SetClamp",
            "StreamStats.Add", "StreamStats.Combine", "LinearHist.Add", "LogHist.Add",
            "NodeMarks.Mark", "NodeMarks.Unmark", "KDE.lazyBandwidth"}
Empty == [x \in {} |-> ""]
Init == heap = Empty /\ memo = Empty /\ pc = [g \in {} |-> 0] /\ l = 1

ArgOK(f, a) == /\ (a.id \in DOMAIN heap => a.before = heap[a.id])          \* nobody changed it since we last saw it
               /\ (a.after = a.before \/ (a.mut = 1 /\ f \in InPlace))       \* untouched, or the receiver of an in-place operation
RECURSIVE Update(_,_,_)
Update(h, args, i) == IF i > Len(args) THEN h ELSE Update((args[i].id :> args[i].after) @@ h, args, i + 1)
Call == /\ l <= Len(Trace) /\ Trace[l].op = "Call" /\ l' = l + 1
        /\ LET ev == Trace[l] IN
           /\ ev.seq = (IF ev.g \in DOMAIN pc THEN pc[ev.g] ELSE 0) + 1
           /\ \A i \in 1..Len(ev.args) : ArgOK(ev.f, ev.args[i])
           /\ (ev.sig \in DOMAIN memo => ev.res = memo[ev.sig])             \* deterministic
           /\ ev.panicked = 0
           /\ heap' = Update(heap, ev.args, 1)
           /\ memo' = IF ev.sig \in DOMAIN memo THEN memo ELSE (ev.sig :> ev.res) @@ memo
           /\ pc' = (ev.g :> ev.seq) @@ pc
Reset == /\ l <= Len(Trace) /\ Trace[l].op = "Reset" /\ l' = l + 1
         /\ heap' = Empty /\ memo' = Empty /\ pc' = [g \in {} |-> 0]
Next == Call \/ Reset
Spec == Init /\ [][Next]_vars
Accepted == TLCGet("stats").diameter - 1 = Len(Trace)
=============================================================================
