CONSTANTS
  Acc = @@Acc@@
  Vals <- ValsDef
  Depth = @@Depth@@
  EmptyIsIdentity = TRUE
SPECIFICATION Spec
INVARIANTS Refines OrderFree Emit
PROPERTY CombineConserves
CHECK_DEADLOCK FALSE
