------------------------------- MODULE Stream -------------------------------
(***************************************************************************)
(* StreamStats (stats/stream.go) as a state machine.                       *)
(*                                                                         *)
(* Abstract state: bag[a] = the sequence of values added to accumulator a  *)
(* (directly or through Combine).  Every observable of the real object is  *)
(* DEFINED from the bag (Obs).  Next to it runs the algorithm-shaped state *)
(* alg[a] -- Welford's update and the pairwise merge of Chan et al. in     *)
(* exact rational arithmetic, as the code performs them -- and TLC checks  *)
(* that it refines the bag in every reachable state (Refines).             *)
(* The zero value of an accumulator is the empty bag.                      *)
(***************************************************************************)
EXTENDS Integers, Sequences, FiniteSets, TLC, Json, SmallRat
CONSTANTS Acc, Vals, Depth,
          EmptyIsIdentity   \* TRUE: the design; FALSE: the merge formulas applied blindly (pinned defect 5)
VARIABLES bag, alg, hist
vars == <<bag, alg, hist>>

RECURSIVE SumSeq(_), SumSq(_)
SumSeq(s) == IF s = <<>> THEN 0 ELSE Head(s) + SumSeq(Tail(s))
SumSq(s) == IF s = <<>> THEN 0 ELSE Head(s)*Head(s) + SumSq(Tail(s))
MinS(s) == CHOOSE m \in {s[i] : i \in 1..Len(s)} : \A i \in 1..Len(s) : m <= s[i]
MaxS(s) == CHOOSE m \in {s[i] : i \in 1..Len(s)} : \A i \in 1..Len(s) : m >= s[i]

\* The definition of every observable, from the bag alone.
\*   Count = n, Total = S, Mean = S/n, RMS^2 = Q/n, Variance = (nQ - S^2)/(n(n-1)), Min, Max
Obs(s) == [n  |-> Len(s), S |-> SumSeq(s), Q |-> SumSq(s),
           mn |-> IF s = <<>> THEN 0 ELSE MinS(s),
           mx |-> IF s = <<>> THEN 0 ELSE MaxS(s)]
Mean(s)     == QN(SumSeq(s), Len(s))
MeanSq(s)   == QN(SumSq(s), Len(s))
Variance(s) == QN(Len(s)*SumSq(s) - SumSeq(s)*SumSeq(s), Len(s)*(Len(s)-1))

\* ---- algorithm-shaped state (what the code keeps) ----
AlgZero == [n |-> 0, tot |-> 0, mn |-> 0, mx |-> 0, mean |-> QI(0), msq |-> QI(0), m2 |-> QI(0)]
AlgAdd(s, x) ==
  LET n1    == s.n + 1
      delta == QSub(QI(x), s.mean)
      mean1 == QAdd(s.mean, QDiv(delta, QI(n1)))
  IN [n   |-> n1, tot |-> s.tot + x,
      mn  |-> IF s.n = 0 \/ x < s.mn THEN x ELSE s.mn,
      mx  |-> IF s.n = 0 \/ x > s.mx THEN x ELSE s.mx,
      mean |-> mean1,
      msq  |-> QAdd(s.msq, QDiv(QSub(QI(x*x), s.msq), QI(n1))),
      m2   |-> QAdd(s.m2, QMul(delta, QSub(QI(x), mean1)))]
AlgMerge(s, o) ==
  LET n     == s.n + o.n
      delta == QSub(o.mean, s.mean)
  IN [n   |-> n, tot |-> s.tot + o.tot,
      mn  |-> IF o.mn < s.mn THEN o.mn ELSE s.mn,
      mx  |-> IF o.mx > s.mx THEN o.mx ELSE s.mx,
      mean |-> QAdd(s.mean, QDiv(QMul(delta, QI(o.n)), QI(n))),        \* n = 0 => TLC error
      msq  |-> QAdd(s.msq, QDiv(QMul(QSub(o.msq, s.msq), QI(o.n)), QI(n))),
      m2   |-> QAdd(QAdd(s.m2, o.m2), QDiv(QMul(QMul(delta, delta), QI(s.n * o.n)), QI(n)))]
AlgCombine(s, o) ==
  IF EmptyIsIdentity /\ o.n = 0 THEN s
  ELSE IF EmptyIsIdentity /\ s.n = 0 THEN o
  ELSE AlgMerge(s, o)

Init == bag = [a \in Acc |-> <<>>] /\ alg = [a \in Acc |-> AlgZero] /\ hist = <<>>

Add(a, v) == /\ bag' = [bag EXCEPT ![a] = Append(@, v)]
             /\ alg' = [alg EXCEPT ![a] = AlgAdd(@, v)]
             /\ hist' = Append(hist, [op |-> "Add", a |-> a, v |-> v])
Combine(a, b) == /\ a # b
                 /\ bag' = [bag EXCEPT ![a] = @ \o bag[b]]
                 /\ alg' = [alg EXCEPT ![a] = AlgCombine(@, alg[b])]
                 /\ hist' = Append(hist, [op |-> "Combine", a |-> a, b |-> b])
Next == /\ Len(hist) < Depth
        /\ \/ \E a \in Acc, v \in Vals : Add(a, v)
           \/ \E a, b \in Acc : Combine(a, b)
Spec == Init /\ [][Next]_vars

\* ---- design-level properties checked by TLC ----
\* the algorithm state refines the bag definition in every reachable state
Refines == \A a \in Acc :
  LET s == bag[a]  o == Obs(s)  g == alg[a] IN
  /\ g.n = o.n /\ g.tot = o.S
  /\ o.n > 0 => /\ g.mn = o.mn /\ g.mx = o.mx
                /\ g.mean = Mean(s) /\ g.msq = MeanSq(s)
                /\ g.m2 = QN(o.n*o.Q - o.S*o.S, o.n)
\* Combine leaves its argument alone and conserves the values (action property)
CombineConserves == [][\A a, b \in Acc :
     (hist' # hist /\ hist'[Len(hist')].op = "Combine" /\ hist'[Len(hist')].a = a /\ hist'[Len(hist')].b = b)
        => /\ bag'[b] = bag[b] /\ Len(bag'[a]) = Len(bag[a]) + Len(bag[b])
           /\ \A c \in Acc \ {a} : bag'[c] = bag[c]]_vars
\* observables are a function of the multiset only: reversing or rotating the order of arrival changes nothing
Reverse(s) == [i \in 1..Len(s) |-> s[Len(s) + 1 - i]]
Rotate(s) == IF s = <<>> THEN s ELSE Tail(s) \o <<Head(s)>>
OrderFree == \A a \in Acc : Obs(bag[a]) = Obs(Reverse(bag[a])) /\ Obs(bag[a]) = Obs(Rotate(bag[a]))

\* ---- case emission (replay direction) ----
ObsRec(s) == LET o == Obs(s) IN
   [n |-> o.n, S |-> o.S, Q |-> o.Q, mn |-> o.mn, mx |-> o.mx]
Emit == PrintT(ToJson([h |-> hist, o |-> [a \in Acc |-> ObsRec(bag[a])]]))
ValsDef == {-2, 1, 3}
=============================================================================
