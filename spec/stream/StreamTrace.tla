----------------------------- MODULE StreamTrace -----------------------------
(***************************************************************************)
(* Trace validation for StreamStats: events recorded from the real object  *)
(* (harness `binder record stream`) are replayed through the actions of    *)
(* the Stream design: Add appends to the bag, Combine concatenates, an     *)
(* empty accumulator is the identity.  The bag is kept as its exact        *)
(* sufficient statistics (n, S, Q, min, max) in BigInt, because recorded   *)
(* histories are long and use large offsets.  Every logged observable is   *)
(* constrained: Count/Total/Min/Max exactly, Mean/Variance/StdDev/RMS by   *)
(* exact comparison of the float's dyadic value with the rational.         *)
(***************************************************************************)
EXTENDS BigInt, Json, IOUtils
CONSTANT TraceFile
Trace == ndJsonDeserialize(TraceFile)
VARIABLES st, l
vars == <<st, l>>
Acc == 0..5
Zero == [n |-> 0, S |-> SZero, Q |-> SZero, mn |-> SZero, mx |-> SZero]
Init == st = [a \in Acc |-> Zero] /\ l = 1

Sg(x) == [s |-> x.s, m |-> x.m]           \* logged signed integer
MaxAbs(o) == IF Cmp(o.mn.m, o.mx.m) >= 0 THEN o.mn.m ELSE o.mx.m
DySq(d) == [s |-> IF d.s = 0 THEN 0 ELSE 1, m |-> Mul(d.m, d.m), e |-> 2 * d.e]
NatRat(a) == [n |-> SNat(a), d |-> <<1>>]

\* the reply of the real object after the step, judged against the abstract state o
Check(o, ev) ==
  LET n   == o.n
      nn  == FromNat(n)
      ma  == MaxAbs(o)
      mean == [n |-> o.S, d |-> nn]
      msq  == [n |-> o.Q, d |-> nn]
      var  == [n |-> SSub(SMul(SNat(nn), o.Q), SMul(o.S, o.S)), d |-> Mul(nn, FromNat(n-1))]
  IN
  /\ ev.n = n
  /\ n > 0 => /\ ev.ok = 1
              /\ Sg(ev.tot) = o.S /\ Sg(ev.mn) = o.mn /\ Sg(ev.mx) = o.mx
              /\ ev.mean.c = "fin" /\ DyClose(ev.mean.d, mean, NatRat(ma), 33)
              /\ ev.rms.c = "fin" /\ DyClose(DySq(ev.rms.d), msq, NatRat(<<>>), 30)
  /\ n > 1 => /\ ev.var.c = "fin" /\ DyClose(ev.var.d, var, NatRat(Mul(ma, ma)), 33)
              /\ ev.sd.c = "fin" /\ DyClose(DySq(ev.sd.d), var, NatRat(Mul(ma, ma)), 31)

Ev == l <= Len(Trace) /\ l' = l + 1
SMin(x, y) == IF SCmp(x, y) <= 0 THEN x ELSE y
SMax(x, y) == IF SCmp(x, y) >= 0 THEN x ELSE y
AddA == /\ Ev /\ Trace[l].op = "Add"
        /\ LET a == Trace[l].a  v == SFrom(Trace[l].v)  o == st[a]
               o2 == [n |-> o.n + 1, S |-> SAdd(o.S, v), Q |-> SAdd(o.Q, SMul(v, v)),
                      mn |-> IF o.n = 0 THEN v ELSE SMin(o.mn, v),
                      mx |-> IF o.n = 0 THEN v ELSE SMax(o.mx, v)]
           IN /\ st' = [st EXCEPT ![a] = o2]
              /\ Check(o2, Trace[l])
Comb == /\ Ev /\ Trace[l].op = "Combine"
        /\ LET a == Trace[l].a  b == Trace[l].b  x == st[a]  y == st[b]
               o2 == IF y.n = 0 THEN x ELSE IF x.n = 0 THEN y ELSE
                     [n |-> x.n + y.n, S |-> SAdd(x.S, y.S), Q |-> SAdd(x.Q, y.Q),
                      mn |-> SMin(x.mn, y.mn), mx |-> SMax(x.mx, y.mx)]
           IN /\ a # b
              /\ st' = [st EXCEPT ![a] = o2]
              /\ Trace[l].barg = 1            \* the argument accumulator is left alone
              /\ Check(o2, Trace[l])
Reset == /\ Ev /\ Trace[l].op = "Reset" /\ st' = [a \in Acc |-> Zero]
Next == AddA \/ Comb \/ Reset
Spec == Init /\ [][Next]_vars
Accepted == TLCGet("stats").diameter - 1 = Len(Trace)
=============================================================================
