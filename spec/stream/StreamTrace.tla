----------------------------- MODULE StreamTrace -----------------------------
(***************************************************************************)
(* Trace validation for StreamStats: events recorded from the real object  *)
(* (harness `binder record stream`) are replayed through the actions of    *)
(* the Stream design: Add appends to the bag, Combine concatenates, an     *)
(* empty accumulator is the identity.  The bag is kept as its exact        *)
(* sufficient statistics (n, S, Q, min, max) in BigInt, because recorded   *)
(* histories are long and use large offsets.  Every logged observable is   *)
(* constrained: Count/Total/Min/Max exactly, Mean/Variance/StdDev/RMS by   *)
(* exact comparison of the float's dyadic value with the rational.         *)
(***************************************************************************)
EXTENDS BigInt, Json, IOUtils
CONSTANT TraceFile
Trace == ndJsonDeserialize(TraceFile)
VARIABLES st, l
vars == <<st, l>>
Acc == 0..5
Zero == [n |-> 0, S |-> SZero, Q |-> SZero, mn |-> SZero, mx |-> SZero]
Init == st = [a \in Acc |-> Zero] /\ l = 1

Sg(x) == [s |-> x.s, m |-> x.m]           \* logged signed integer
MaxAbs(o) == IF Cmp(o.mn.m, o.mx.m) >= 0 THEN o.mn.m ELSE o.mx.m
DySq(d) == [s |-> IF d.s = 0 THEN 0 ELSE 1, m |-> Mul(d.m, d.m), e |-> 2 * d.e]
NatRat(a) == [n |-> SNat(a), d |-> <<1>>]

\* the reply of the real object after the step, judged against the abstract state o
Check(o, ev) ==
  LET n   == o.n
      nn  == FromNat(n)
      ma  == MaxAbs(o)
      rng == SSub(o.mx, o.mn).m
      mean == [n |-> o.S, d |-> nn]
      msq  == [n |-> o.Q, d |-> nn]
      var  == [n |-> SSub(SMul(SNat(nn), o.Q), SMul(o.S, o.S)), d |-> Mul(nn, FromNat(n-1))]
  IN
  \* tolerances follow the error bounds of Welford's update and Chan's merge for at most 2^9 values:
  \*   mean      n eps max|x|                       ->  2^-42 (|mean| + max|x|)
  \*   variance  n eps (variance + max|x| * range)  ->  2^-36 variance + 2^-42 max|x| (max - min)
  \* (a slack proportional to max|x|^2 would hide every error at a large common offset)
  /\ ev.n = n
  /\ n > 0 => /\ ev.ok = 1
              /\ Sg(ev.mn) = o.mn /\ Sg(ev.mx) = o.mx
              \* Total is a float64 sum: exact while the integer sum is below 2^53, rounded (once per operation) beyond
              /\ IF Cmp(o.S.m, Pow2(53)) < 0 THEN Sg(ev.tot) = o.S
                 ELSE RClose([n |-> Sg(ev.tot), d |-> <<1>>], [n |-> o.S, d |-> <<1>>], NatRat(<<>>), 42)
              /\ ev.mean.c = "fin" /\ DyClose(ev.mean.d, mean, NatRat(ma), 42)
              /\ ev.rms.c = "fin" /\ DyClose(DySq(ev.rms.d), msq, NatRat(<<>>), 30)
  /\ n > 1 => /\ ev.var.c = "fin" /\ DyClose(ev.var.d, var, [n |-> SNat(Mul(ma, rng)), d |-> <<64>>], 36)
              /\ ev.sd.c = "fin" /\ DyClose(DySq(ev.sd.d), var, [n |-> SNat(Mul(ma, rng)), d |-> <<64>>], 34)

\* String(): the textual report.  The recorder splits it into name=value items; every item whose name is one of the statistics
\* must carry that statistic (to the 6 significant digits of %g, i.e. 2^-16; squares 2^-15), whatever the order of the items.
\* Unknown names are ignored, so relabelling or adding items is free - but a value under the wrong name is not.
RepOK(o, it) ==
  LET n == o.n  nn == FromNat(n)  ma == MaxAbs(o)  rng == SSub(o.mx, o.mn).m  Z == NatRat(<<>>)
      var == [n |-> SSub(SMul(SNat(nn), o.Q), SMul(o.S, o.S)), d |-> Mul(nn, FromNat(n - 1))]
      fin == it.v.c = "fin"  d == it.v.d
  IN CASE it.k = "count"    -> fin /\ DyClose(d, NatRat(nn), Z, 16)
       [] it.k = "total"    -> n > 0 => (fin /\ DyClose(d, [n |-> o.S, d |-> <<1>>], Z, 16))
       [] it.k = "min"      -> n > 0 => (fin /\ DyClose(d, [n |-> o.mn, d |-> <<1>>], Z, 16))
       [] it.k = "max"      -> n > 0 => (fin /\ DyClose(d, [n |-> o.mx, d |-> <<1>>], Z, 16))
       [] it.k = "mean"     -> n > 0 => (fin /\ DyClose(d, [n |-> o.S, d |-> nn], [n |-> SNat(ma), d |-> Pow2(26)], 16))
       [] it.k = "rms"      -> n > 0 => (fin /\ d.s >= 0 /\ DyClose(DySq(d), [n |-> o.Q, d |-> nn], Z, 15))
       [] it.k = "variance" -> n > 1 => (fin /\ DyClose(d, var, [n |-> SNat(Mul(ma, rng)), d |-> Pow2(26)], 16))
       [] it.k = "stddev"   -> n > 1 => (fin /\ d.s >= 0 /\ DyClose(DySq(d), var, [n |-> SNat(Mul(ma, rng)), d |-> Pow2(25)], 15))
       [] OTHER -> TRUE
Report(o, ev) == \A i \in 1..Len(ev.rep) : RepOK(o, ev.rep[i])

Ev == l <= Len(Trace) /\ l' = l + 1
SMin(x, y) == IF SCmp(x, y) <= 0 THEN x ELSE y
SMax(x, y) == IF SCmp(x, y) >= 0 THEN x ELSE y
AddA == /\ Ev /\ Trace[l].op = "Add"
        /\ LET a == Trace[l].a  v == SFrom(Trace[l].v)  o == st[a]
               o2 == [n |-> o.n + 1, S |-> SAdd(o.S, v), Q |-> SAdd(o.Q, SMul(v, v)),
                      mn |-> IF o.n = 0 THEN v ELSE SMin(o.mn, v),
                      mx |-> IF o.n = 0 THEN v ELSE SMax(o.mx, v)]
           IN /\ st' = [st EXCEPT ![a] = o2]
              /\ Check(o2, Trace[l]) /\ Report(o2, Trace[l])
Comb == /\ Ev /\ Trace[l].op = "Combine"
        /\ LET a == Trace[l].a  b == Trace[l].b  x == st[a]  y == st[b]
               o2 == IF y.n = 0 THEN x ELSE IF x.n = 0 THEN y ELSE
                     [n |-> x.n + y.n, S |-> SAdd(x.S, y.S), Q |-> SAdd(x.Q, y.Q),
                      mn |-> SMin(x.mn, y.mn), mx |-> SMax(x.mx, y.mx)]
           IN /\ st' = [st EXCEPT ![a] = o2]       \* (a = b, an accumulator combined with itself: the same formula doubles it)
              /\ (a # b) => Trace[l].barg = 1            \* the argument accumulator is left alone
              /\ Check(o2, Trace[l]) /\ Report(o2, Trace[l])
\* the driver replaces an accumulator by a fresh one (zero value)
Clear == /\ Ev /\ Trace[l].op = "Clear" /\ st' = [st EXCEPT ![Trace[l].a] = Zero]
Reset == /\ Ev /\ Trace[l].op = "Reset" /\ st' = [a \in Acc |-> Zero]
Next == AddA \/ Comb \/ Clear \/ Reset
Spec == Init /\ [][Next]_vars
Accepted == TLCGet("stats").diameter - 1 = Len(Trace)
=============================================================================
