CONSTANTS
  BinN <- @@BinN@@
  EdgeMaxN = @@EdgeMaxN@@
  BinP <- @@BinP@@
  HypN <- @@HypN@@
  WalkMax = @@WalkMax@@
SPECIFICATION Spec
INVARIANTS Check Emit WalkCheck WalkEmit
CHECK_DEADLOCK FALSE
