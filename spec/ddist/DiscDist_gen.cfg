CONSTANTS
  BinN <- @@BinN@@
  EdgeMaxN = @@EdgeMaxN@@
  BinP <- @@BinP@@
  HypN <- @@HypN@@
SPECIFICATION Spec
INVARIANTS Check Emit
CHECK_DEADLOCK FALSE
