------------------------------ MODULE DiscDist ------------------------------
(***************************************************************************)
(* stats.BinomialDist and stats.HypergeometicDist as exact rational        *)
(* probability mass vectors (BigInt).                                      *)
(*   Binomial(N, P = a/b):   mass[k] = C(N,k) a^k (b-a)^(N-k)   over b^N   *)
(*   Hypergeometric(N,K,n):  mass[k] = C(K,k) C(N-K,n-k)        over C(N,n)*)
(*   PMF(k) = mass[Floor(k)] (0 outside the support),                      *)
(*   CDF(k) = sum of the masses at integers <= Floor(k),                   *)
(*   Bounds = the support end points, Step = 1, Mean and Variance = first  *)
(*   two moments of the mass vector, NormalApprox = Normal(Mean, Sqrt(Var))*)
(***************************************************************************)
EXTENDS Integers, Sequences, TLC, Json, BigInt
CONSTANTS BinN,      \* set of N for the binomial
          EdgeMaxN,  \* P within 1e-12 of 0 or 1 is combined with N <= EdgeMaxN only (600-digit denominators otherwise)
          BinP,      \* set of <<a, b>> (BigInt naturals) with 0 <= a <= b
          HypN,      \* set of N for the hypergeometric (all K, n in 0..N)
          WalkMax    \* the walk: N = 7 .. WalkMax one step at a time, carrying Pascal's rows N and N-7 (0: no walk)
VARIABLES kind, par, done
vars == <<kind, par, done>>
Null == [null |-> TRUE]

\* Pascal's triangle row n as a sequence of BigInt naturals (index k+1)
RECURSIVE PascalRow(_)
PascalRow(n) == IF n = 0 THEN << <<1>> >>
                ELSE LET p == PascalRow(n - 1) IN
                     TLCEval([k \in 1..(n + 1) |-> Add(IF k = 1 THEN <<>> ELSE p[k - 1], IF k = n + 1 THEN <<>> ELSE p[k])])
Choose(n, k) == IF k < 0 \/ k > n THEN <<>> ELSE PascalRow(n)[k + 1]
Max2(a, b) == IF a > b THEN a ELSE b
Min2(a, b) == IF a < b THEN a ELSE b

\* powers x^0 .. x^n as a sequence (index e+1), built incrementally
RECURSIVE Powers(_,_)
Powers(x, n) == IF n = 0 THEN << <<1>> >> ELSE LET p == Powers(x, n - 1) IN Append(p, Mul(p[n], x))
BinMass(N, a, b) == LET row == PascalRow(N)  pa == Powers(a, N)  pc == Powers(Sub(b, a), N) IN
   TLCEval([i \in 1..(N + 1) |-> Mul(row[i], Mul(pa[i], pc[N - i + 2]))])
HypLo(N, K, n) == Max2(0, n + K - N)
HypHi(N, K, n) == Min2(n, K)
HypMass(N, K, n) == LET lo == HypLo(N, K, n) hi == HypHi(N, K, n) IN
   LET rk == PascalRow(K)  rn == PascalRow(N - K) IN
   TLCEval([i \in 1..(hi - lo + 1) |-> Mul(rk[lo + i], rn[n - (lo + i - 1) + 1])])

RECURSIVE SumB(_,_), Mom1(_,_,_), Mom2(_,_,_)
SumB(m, i) == IF i = 0 THEN <<>> ELSE Add(m[i], SumB(m, i - 1))
Mom1(m, lo, i) == IF i = 0 THEN <<>> ELSE Add(MulS(m[i], lo + i - 1), Mom1(m, lo, i - 1))
Mom2(m, lo, i) == IF i = 0 THEN <<>> ELSE Add(MulS(m[i], (lo + i - 1) * (lo + i - 1)), Mom2(m, lo, i - 1))

\* ---- the walk: sizes far beyond the exhaustive grids, along a thin slice ----
\* state: par = [N, row (Pascal's row N), lag (row N - 7)].  Each N >= WalkFrom emits Binomial(N, 1/2) = row / 2^N and the two
\* hypergeometric families (N, 7, N div 2) and (N, N - 7, N div 3 + 3), whose masses are C(7,k) C(N-7, n-k) / C(N,n).
WalkFrom == 21
\* every size up to 400, then every 8th (a row of 1000 numbers of 300 digits is 300 kB of JSON), and the last one
WalkEmitAt(N) == N >= WalkFrom /\ (N <= 400 \/ N % 8 = 0 \/ N = WalkMax)
NextRow(r) == LET n == Len(r) IN TLCEval([i \in 1..(n + 1) |-> Add(IF i = 1 THEN <<>> ELSE r[i - 1], IF i = n + 1 THEN <<>> ELSE r[i])])
Row7 == PascalRow(7)
\* (half = row N div 2, for the central family Hyp(N, N/2, N/2) of even N, whose masses are C(N/2,k)^2 / C(N, N/2))
WalkInit == [N |-> 7, row |-> Row7, lag |-> PascalRow(0), half |-> PascalRow(3)]
WalkStep == /\ kind = "walk" /\ par.N < WalkMax /\ UNCHANGED <<kind, done>>
            /\ par' = [N |-> par.N + 1, row |-> NextRow(par.row), lag |-> NextRow(par.lag),
                       half |-> IF (par.N + 1) % 2 = 0 THEN NextRow(par.half) ELSE par.half]
WalkCentral == LET h == par.N \div 2 IN TLCEval([i \in 1..(h + 1) |-> Mul(par.half[i], par.half[h - i + 2])])
WalkCentralRec == LET N == par.N  h == N \div 2 IN
   [kind |-> "hypergeometric", N |-> N, K |-> h, n |-> h, lo |-> 0, hi |-> h, den |-> par.row[h + 1], mass |-> WalkCentral,
    meann |-> N, meand |-> 4, varn |-> N * N, vard |-> 16 * (N - 1)]
\* C(K,k) C(N-K, n-k) for K = 7 (small = TRUE) or K = N - 7, k over the support
WalkHyp(small, n) == LET N == par.N  K == IF small THEN 7 ELSE N - 7  lo == HypLo(N, K, n)  hi == HypHi(N, K, n) IN
   TLCEval([i \in 1..(hi - lo + 1) |-> LET k == lo + i - 1 IN
       IF small THEN Mul(Row7[k + 1], par.lag[n - k + 1]) ELSE Mul(par.lag[k + 1], Row7[n - k + 1])])
WalkHypRec(small, n) == LET N == par.N  K == IF small THEN 7 ELSE N - 7 IN
   [kind |-> "hypergeometric", N |-> N, K |-> K, n |-> n, lo |-> HypLo(N, K, n), hi |-> HypHi(N, K, n),
    den |-> par.row[n + 1], mass |-> WalkHyp(small, n),
    meann |-> n * K, meand |-> N, varn |-> n * K * (N - K) * (N - n), vard |-> N * N * (N - 1)]
WalkCheck == (kind = "walk" /\ WalkEmitAt(par.N)) =>
   /\ SumB(par.row, par.N + 1) = Pow2(par.N)
   /\ \A sm \in {TRUE, FALSE} : LET n == IF sm THEN par.N \div 2 ELSE par.N \div 3 + 3  m == WalkHyp(sm, n) IN
         SumB(m, Len(m)) = par.row[n + 1]                                                   \* Vandermonde
   /\ (par.N % 2 = 0) => SumB(WalkCentral, par.N \div 2 + 1) = par.row[par.N \div 2 + 1]
   /\ LET m == WalkHyp(TRUE, 5) IN SumB(m, Len(m)) = par.row[6]
   /\ LET m == WalkHyp(FALSE, par.N - 5) IN SumB(m, Len(m)) = par.row[par.N - 5 + 1]
WalkEmit == (kind = "walk" /\ WalkEmitAt(par.N)) =>
   /\ PrintT(ToJson([kind |-> "binomial", N |-> par.N, a |-> <<1>>, b |-> <<2>>, lo |-> 0, hi |-> par.N,
                     den |-> Pow2(par.N), mass |-> par.row]))
   /\ PrintT(ToJson(WalkHypRec(TRUE, par.N \div 2)))
   /\ PrintT(ToJson(WalkHypRec(FALSE, par.N \div 3 + 3)))
   \* strongly skewed members: 5 draws with 7 marked (mean 35/N: the upper support points lie many standard deviations out,
   \* with masses far above the tolerance), and the mirror image with N - 7 marked and N - 5 draws
   /\ PrintT(ToJson(WalkHypRec(TRUE, 5)))
   /\ PrintT(ToJson(WalkHypRec(FALSE, par.N - 5)))
   /\ (par.N % 2 = 0) => PrintT(ToJson(WalkCentralRec))

Init == \/ kind \in {"binomial", "hypergeometric"} /\ par = Null /\ done = FALSE
        \/ WalkMax > 0 /\ kind = "walk" /\ par = WalkInit /\ done = FALSE
Choose1 == /\ kind # "walk" /\ par = Null /\ UNCHANGED <<kind, done>>
           /\ \/ kind = "binomial" /\ \E N \in BinN, p \in BinP : (Len(p[2]) > 2 => N <= EdgeMaxN) /\ par' = [N |-> N, a |-> p[1], b |-> p[2]]
              \/ kind = "hypergeometric" /\ \E N \in HypN : \E K \in 0..N, n \in 0..N : par' = [N |-> N, K |-> K, n |-> n]
Finish == kind # "walk" /\ par # Null /\ ~done /\ done' = TRUE /\ UNCHANGED <<kind, par>>
Next == Choose1 \/ Finish \/ WalkStep
Spec == Init /\ [][Next]_vars

\* masses sum to the denominator; moments equal the closed forms (checked by TLC on every distribution)
Check == done =>
  IF kind = "binomial"
  THEN LET N == par.N  a == par.a  b == par.b  m == BinMass(N, a, b)  den == Powers(b, N)[N + 1]
           s1 == Mom1(m, 0, N + 1)  s2 == Mom2(m, 0, N + 1)
       IN /\ SumB(m, N + 1) = den
          /\ Mul(s1, b) = Mul(MulS(a, N), den)                                            \* mean = N a / b
          /\ Mul(Mul(b, b), Sub(Mul(den, s2), Mul(s1, s1))) = Mul(Mul(den, den), MulS(Mul(a, Sub(b, a)), N))   \* variance = N a (b-a) / b^2
  ELSE LET N == par.N  K == par.K  n == par.n  lo == HypLo(N, K, n)  m == HypMass(N, K, n)  den == Choose(N, n)
           s1 == Mom1(m, lo, Len(m))  s2 == Mom2(m, lo, Len(m))
       IN /\ SumB(m, Len(m)) = den                                                       \* Vandermonde's identity
          /\ Mul(s1, FromNat(N)) = Mul(den, FromNat(n * K))                                              \* mean = n K / N
          /\ N >= 2 => Mul(Sub(Mul(den, s2), Mul(s1, s1)), FromNat(N * N * (N - 1))) = Mul(Mul(den, den), FromNat(n * K * (N - K) * (N - n)))
          /\ LET m2 == HypMass(N, n, K) IN                                                \* the probabilities are symmetric in K and n
             Len(m2) = Len(m) /\ \A i \in 1..Len(m) : Mul(m[i], Choose(N, K)) = Mul(m2[i], den)

Emit == done =>
  IF kind = "binomial"
  THEN PrintT(ToJson([kind |-> kind, N |-> par.N, a |-> par.a, b |-> par.b, lo |-> 0, hi |-> par.N,
                      den |-> Powers(par.b, par.N)[par.N + 1], mass |-> BinMass(par.N, par.a, par.b)]))
  ELSE PrintT(ToJson([kind |-> kind, N |-> par.N, K |-> par.K, n |-> par.n,
                      lo |-> HypLo(par.N, par.K, par.n), hi |-> HypHi(par.N, par.K, par.n),
                      den |-> Choose(par.N, par.n), mass |-> HypMass(par.N, par.K, par.n),
                      meann |-> par.n * par.K, meand |-> par.N,
                      varn |-> par.n * par.K * (par.N - par.K) * (par.N - par.n), vard |-> par.N * par.N * (par.N - 1)]))

E12 == <<0, 0, 0>> \o <<1>>           \* 10^12 = 1 * (10^4)^3
PGrid(q) == {<<FromNat(k), FromNat(q)>> : k \in 0..q}
E6 == <<0, 100>>                      \* 10^6
\* success probabilities next to 0 and 1, and in the band between those and the first grid point (5e-6, 9e-6: large enough for
\* a second-order term N p^2 to matter, small enough for a first-order shortcut to look right)
PEdge == {<<<<1>>, E12>>, <<Sub(E12, <<1>>), E12>>, <<<<9>>, E6>>, <<<<5>>, E6>>, <<Sub(E6, <<9>>), E6>>, <<<<300>>, E6>>}
BinPQuick == PGrid(20) \cup PEdge
BinPThorough == PGrid(100) \cup PEdge
BinNQuick == (0..20) \cup {21, 33, 47, 64}
BinNThorough == (0..70) \cup {100, 128}
HypNQuick == 2..16
HypNThorough == (2..40) \cup {50, 64}
=============================================================================
