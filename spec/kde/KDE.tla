--------------------------------- MODULE KDE ---------------------------------
(***************************************************************************)
(* stats.KDE: kernel density estimate with optional reflecting boundaries. *)
(*                                                                         *)
(* State of a KDE object: sample (values, optional weights), kernel,       *)
(* bandwidth h (0 = not yet chosen: the first query fills it with Scott's  *)
(* rule -- the one documented in-place effect), boundaries.                *)
(* Structure (exact, all quantities on the lattice of multiples of 1/4):   *)
(*   unbounded  PDF(x) = sum_i w_i K((x-x_i)/h)/h / W,  CDF likewise       *)
(*   lower only PDF(x) = y(x) + y(2 bmin - x)     CDF = Y(x) - Y(2bmin-x)  *)
(*   upper only PDF(x) = y(x) + y(2 bmax - x)     CDF = Y(x) + 1 - Y(2bmax-x)*)
(*   both       PDF(x) = sum_n y(x + n d) + y(2 bmin - x + n d), d = 2(bmax-bmin)*)
(*              CDF(x) = sum_n Y(x + n d) - Y(2 bmin - x + n d)   (n over all integers)*)
(*   outside [bmin, bmax): PDF 0, CDF 0 below and 1 from bmax.             *)
(* The IMAGE LIST (evaluation points and signs) is emitted for every query *)
(* so that the harness can evaluate the same structure with the Gaussian   *)
(* kernel; for the Epanechnikov kernel the values themselves are exact     *)
(* rationals computed here, and the delta kernel's CDF is the weighted     *)
(* empirical CDF.                                                          *)
(***************************************************************************)
EXTENDS Integers, Sequences, FiniteSets, TLC, Json
CONSTANTS Samples,     \* set of [xs |-> seq of ints (quarters), ws |-> seq of positive ints or <<>>]
          Hs,          \* set of <<hn, hd>> bandwidths hn/hd
          Bounds       \* set of boundary configurations [lo, hi] as offsets from the data: [kind, a, b]
VARIABLES smp, h, bnd, done
vars == <<smp, h, bnd, done>>
Null == [null |-> TRUE]
L == 4       \* lattice: a value v stands for v / 4

RECURSIVE SumSeq(_)
SumSeq(s) == IF s = <<>> THEN 0 ELSE Head(s) + SumSeq(Tail(s))
MinS(s) == CHOOSE m \in {s[i] : i \in 1..Len(s)} : \A i \in 1..Len(s) : m <= s[i]
MaxS(s) == CHOOSE m \in {s[i] : i \in 1..Len(s)} : \A i \in 1..Len(s) : m >= s[i]
W(s) == IF s.ws = <<>> THEN Len(s.xs) ELSE SumSeq(s.ws)
Wt(s, i) == IF s.ws = <<>> THEN 1 ELSE s.ws[i]
IAbs(a) == IF a < 0 THEN 0 - a ELSE a
CeilDiv(a, b) == 0 - ((0 - a) \div b)

\* u = (t - x_i)/h = U/V with U = (t - x_i) * hd, V = L * hn
V(hh) == L * hh[1]
U(hh, t, xi) == (t - xi) * hh[2]
\* Epanechnikov kernel sums at evaluation point t (lattice int):
\*   y(t) = 3 hd S1(t) / (4 hn V^2 W),  S1 = sum_{|U_i| < V} w_i (V^2 - U_i^2)
\*   Y(t) = S2(t) / (4 V^3 W),  S2 = sum_i w_i * (0 if U_i <= -V; 4 V^3 if U_i >= V; 2V^3 + 3 U_i V^2 - U_i^3 otherwise)
RECURSIVE S1(_,_,_,_), S2(_,_,_,_)
S1(s, hh, t, i) == IF i > Len(s.xs) THEN 0
   ELSE LET u == U(hh, t, s.xs[i]) v == V(hh) IN (IF IAbs(u) < v THEN Wt(s, i) * (v * v - u * u) ELSE 0) + S1(s, hh, t, i + 1)
S2(s, hh, t, i) == IF i > Len(s.xs) THEN 0
   ELSE LET u == U(hh, t, s.xs[i]) v == V(hh) IN
        Wt(s, i) * (IF u <= 0 - v THEN 0 ELSE IF u >= v THEN 4 * v * v * v ELSE 2 * v * v * v + 3 * u * v * v - u * u * u)
        + S2(s, hh, t, i + 1)
\* weighted empirical CDF numerator (delta kernel): sum of weights with x_i <= t
RECURSIVE SE(_,_,_)
SE(s, t, i) == IF i > Len(s.xs) THEN 0 ELSE (IF s.xs[i] <= t THEN Wt(s, i) ELSE 0) + SE(s, t, i + 1)

\* ---- boundaries ----
\* resolved boundary record: [kind |-> "none"|"lo"|"hi"|"both", lo, hi] in lattice ints
Resolve(s, b) == [kind |-> b.kind, lo |-> MinS(s.xs) - b.a, hi |-> MaxS(s.xs) + b.b]
\* images: sequence of [t |-> evaluation point, s |-> sign for the CDF] ; PDF adds y(t) for every image,
\* CDF adds s * Y(t), plus cdfc (a constant)
\* R: kernel reach in lattice units beyond which the kernel is (treated as) zero
NImg(s, r, R) == CeilDiv(MaxS(s.xs) - MinS(s.xs) + R + (r.hi - r.lo), 2 * (r.hi - r.lo)) + 1
Images(s, r, x, R) ==
  CASE r.kind = "none" -> << [t |-> x, s |-> 1] >>
    [] r.kind = "lo"   -> << [t |-> x, s |-> 1], [t |-> 2 * r.lo - x, s |-> -1] >>
    [] r.kind = "hi"   -> << [t |-> x, s |-> 1], [t |-> 2 * r.hi - x, s |-> -1] >>
    [] r.kind = "both" -> LET N == NImg(s, r, R)  d == 2 * (r.hi - r.lo) IN
         [k \in 1..(2 * N + 1) |-> [t |-> x + (k - N - 1) * d, s |-> 1]] \o
         [k \in 1..(2 * N + 1) |-> [t |-> 2 * r.lo - x + (k - N - 1) * d, s |-> -1]]
CdfConst(r) == IF r.kind = "hi" THEN 1 ELSE 0
Inside(r, x) == r.kind = "none" \/ ((r.kind = "hi" \/ x >= r.lo) /\ (r.kind = "lo" \/ x < r.hi))
Below(r, x) == r.kind \in {"lo", "both"} /\ x < r.lo

\* exact Epanechnikov values: PDF numerator over 4 hn V^2 W / (3 hd), CDF numerator over 4 V^3 W
RECURSIVE SumImg1(_,_,_,_), SumImg2(_,_,_,_)
SumImg1(s, hh, im, k) == IF k > Len(im) THEN 0 ELSE S1(s, hh, im[k].t, 1) + SumImg1(s, hh, im, k + 1)
SumImg2(s, hh, im, k) == IF k > Len(im) THEN 0 ELSE im[k].s * S2(s, hh, im[k].t, 1) + SumImg2(s, hh, im, k + 1)
EpReach(hh) == CeilDiv(L * hh[1], hh[2])
EpPdfNum(s, hh, r, x) == IF ~Inside(r, x) THEN 0 ELSE SumImg1(s, hh, Images(s, r, x, EpReach(hh)), 1)
EpPdfDen(s, hh) == 4 * hh[1] * V(hh) * V(hh) * W(s)           \* PDF = 3 hd * num / den
EpCdfDen(s, hh) == 4 * V(hh) * V(hh) * V(hh) * W(s)
EpCdfNum(s, hh, r, x) == IF Below(r, x) THEN 0 ELSE IF ~Inside(r, x) THEN EpCdfDen(s, hh)
                         ELSE SumImg2(s, hh, Images(s, r, x, EpReach(hh)), 1) + CdfConst(r) * EpCdfDen(s, hh)
\* the CDF formula itself (without the clamp) evaluated at the upper boundary gives exactly 1: total mass on the support
FormulaAt(s, hh, r, x) == SumImg2(s, hh, Images(s, r, x, EpReach(hh)), 1) + CdfConst(r) * EpCdfDen(s, hh)

Queries(s, r) == LET lo == (IF r.kind \in {"lo", "both"} THEN r.lo ELSE MinS(s.xs)) - 6
                     hi == (IF r.kind \in {"hi", "both"} THEN r.hi ELSE MaxS(s.xs)) + 6
                 IN {x \in lo..hi : TRUE}

-----------------------------------------------------------------------------
Init == smp \in Samples /\ h = Null /\ bnd = Null /\ done = FALSE
ChooseH == h = Null /\ \E hh \in Hs : h' = hh /\ UNCHANGED <<smp, bnd, done>>
ChooseB == /\ h # Null /\ bnd = Null /\ UNCHANGED <<smp, h, done>>
           /\ \E b \in Bounds : LET r == Resolve(smp, b) IN
                /\ (b.kind = "both" => r.hi > r.lo)                                \* a proper interval
                /\ (b.kind = "both" => NImg(smp, r, 40 * EpReach(h)) <= 1500)      \* keep the image list finite
                /\ bnd' = r
Finish == bnd # Null /\ ~done /\ done' = TRUE /\ UNCHANGED <<smp, h, bnd>>
Next == ChooseH \/ ChooseB \/ Finish
Spec == Init /\ [][Next]_vars

\* ---- laws of the structure, checked exactly for the Epanechnikov kernel ----
\* exact Epanechnikov sums stay within TLC's 32-bit integers only for moderate bandwidths when both boundaries are set;
\* beyond that the case carries the image structure only (Gaussian kernel and the general laws are still checked)
EpExact == bnd.kind # "both" \/ V(h) <= 40
Laws == (done /\ EpExact) =>
  LET Q == Queries(smp, bnd)  cd == EpCdfDen(smp, h) IN
  /\ \A x \in Q : EpPdfNum(smp, h, bnd, x) >= 0
  /\ \A x \in Q : EpCdfNum(smp, h, bnd, x) >= 0 /\ EpCdfNum(smp, h, bnd, x) <= cd
  /\ \A x \in Q : (x + 1) \in Q => EpCdfNum(smp, h, bnd, x) <= EpCdfNum(smp, h, bnd, x + 1)
  \* total mass: the unclamped formula reaches exactly 0 at the lower and 1 at the upper boundary
  /\ bnd.kind \in {"lo", "both"} => FormulaAt(smp, h, bnd, bnd.lo) = 0
  /\ bnd.kind \in {"hi", "both"} => FormulaAt(smp, h, bnd, bnd.hi) = cd
  /\ bnd.kind \in {"none", "lo"} => EpCdfNum(smp, h, bnd, MaxS(smp.xs) + EpReach(h) + 1) = cd
  /\ bnd.kind \in {"none", "hi"} => EpCdfNum(smp, h, bnd, MinS(smp.xs) - EpReach(h) - 1) = 0

\* ---- bandwidth selectors: the exact ingredients of Scott's and Silverman's rules (unweighted samples) ----
RECURSIVE SortSeq2(_)
SortSeq2(q) == IF q = <<>> THEN <<>> ELSE
   LET m == MinS(q)  i == CHOOSE j \in 1..Len(q) : q[j] = m
   IN <<m>> \o SortSeq2(SubSeq(q, 1, i - 1) \o SubSeq(q, i + 1, Len(q)))
\* Hyndman-Fan type 8 at level a/4: h = ((3n+1) a + 4)/12 ; value as <<num, den>> in lattice units
R8(q, a) == LET n == Len(q) srt == SortSeq2(q) hnum == (3 * n + 1) * a + 4  k == hnum \div 12  fr == hnum % 12 IN
            IF k <= 0 THEN <<srt[1], 1>> ELSE IF k >= n THEN <<srt[n], 1>>
            ELSE <<12 * srt[k] + fr * (srt[k + 1] - srt[k]), 12>>
RECURSIVE SumSq(_)
SumSq(q) == IF q = <<>> THEN 0 ELSE Head(q) * Head(q) + SumSq(Tail(q))
\* variance (n-1 denominator) in lattice^2 units as <<num, den>>; den = 0 marks n < 2
VarLat(q) == LET n == Len(q) IN <<n * SumSq(q) - SumSeq(q) * SumSeq(q), n * (n - 1)>>
\* Scott = 1.06 min(s, IQR/1.349) n^(-1/5), Silverman = 1.06 s n^(-1/5): Sqrt and Pow are left to the harness

PointRec(x) == [x |-> x, inside |-> Inside(bnd, x), below |-> Below(bnd, x),
                pn |-> IF EpExact THEN EpPdfNum(smp, h, bnd, x) ELSE 0, cn |-> IF EpExact THEN EpCdfNum(smp, h, bnd, x) ELSE 0,
                en |-> SE(smp, x, 1)]
Emit == done =>
  PrintT(ToJson([xs |-> smp.xs, ws |-> smp.ws, hn |-> h[1], hd |-> h[2], kind |-> bnd.kind, lo |-> bnd.lo, hi |-> bnd.hi,
                 epexact |-> EpExact, pden |-> IF EpExact THEN EpPdfDen(smp, h) ELSE 1, cden |-> IF EpExact THEN EpCdfDen(smp, h) ELSE 1, wsum |-> W(smp),
                 shifts |-> IF bnd.kind = "both" THEN LET N == NImg(smp, bnd, 40 * EpReach(h)) IN [k \in 1..(2 * N + 1) |-> (k - N - 1) * 2 * (bnd.hi - bnd.lo)] ELSE <<0>>,
                 mirror |-> IF bnd.kind \in {"lo", "both"} THEN 2 * bnd.lo ELSE IF bnd.kind = "hi" THEN 2 * bnd.hi ELSE 0,
                 cdfc |-> CdfConst(bnd),
                 var |-> VarLat(smp.xs), q1 |-> R8(smp.xs, 1), q3 |-> R8(smp.xs, 3),
                 pts |-> {PointRec(x) : x \in Queries(smp, bnd)}]))

SamplesQuick == {[xs |-> <<4>>, ws |-> <<>>], [xs |-> <<0, 8>>, ws |-> <<>>], [xs |-> <<8, 0, 4>>, ws |-> <<1, 2, 3>>],
                 [xs |-> <<4, 8, 12>>, ws |-> <<>>], [xs |-> <<16, 3, 3, 9>>, ws |-> <<>>], [xs |-> <<2, 13>>, ws |-> <<3, 1>>],
                 [xs |-> <<0, 0, 0, 0, 0, 0, 4>>, ws |-> <<>>]}      \* heavily tied: both quartiles coincide, the spread does not vanish
SamplesThorough == SamplesQuick \cup {[xs |-> <<0, 1, 2, 3, 16>>, ws |-> <<>>], [xs |-> <<5, 5, 5>>, ws |-> <<>>],
                 [xs |-> <<12, 0, 7, 7, 20>>, ws |-> <<2, 1, 1, 4, 1>>], [xs |-> <<-8, 8>>, ws |-> <<>>], [xs |-> <<1, 2, 4, 8, 16>>, ws |-> <<5, 4, 3, 2, 1>>]}
HsQuick == {<<1, 2>>, <<1, 1>>, <<2, 1>>, <<5, 1>>, <<50, 1>>}
HsThorough == HsQuick \cup {<<1, 4>>, <<3, 2>>, <<3, 1>>, <<10, 1>>}
BoundsQuick == {[kind |-> "none", a |-> 0, b |-> 0], [kind |-> "lo", a |-> 0, b |-> 0], [kind |-> "lo", a |-> 6, b |-> 0],
                [kind |-> "hi", a |-> 0, b |-> 1], [kind |-> "hi", a |-> 0, b |-> 8], [kind |-> "hi", a |-> 0, b |-> 0],      \* b = 0: the upper boundary touches the largest value
                [kind |-> "both", a |-> 0, b |-> 0],
                [kind |-> "both", a |-> 0, b |-> 1], [kind |-> "both", a |-> 2, b |-> 4], [kind |-> "both", a |-> 40, b |-> 60]}
BoundsThorough == BoundsQuick \cup {[kind |-> "lo", a |-> 80, b |-> 0], [kind |-> "hi", a |-> 0, b |-> 80], [kind |-> "both", a |-> 1, b |-> 1],
                [kind |-> "both", a |-> 12, b |-> 3], [kind |-> "both", a |-> 200, b |-> 200]}
=============================================================================
