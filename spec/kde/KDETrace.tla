------------------------------ MODULE KDETrace ------------------------------
(***************************************************************************)
(* Trace validation for stats.KDE (C12) as a mutable object.               *)
(*                                                                         *)
(* The driver (harness `binder record kde`) builds a KDE on a random       *)
(* sample of 1..40 values (optionally weighted), then alternates field     *)
(* assignments (Kernel, Bandwidth, boundaries - the struct's fields are    *)
(* public) with PDF/CDF queries and Bounds calls.  The spec state is the   *)
(* object's configuration in exact integers: a value v stands for the      *)
(* float v * 2^sc; the bandwidth is the dyadic hm * 2^he (lattice units).  *)
(* A zero bandwidth is the state "auto": the first query must fill the     *)
(* field with Scott's rule (href: evaluated by the harness in 200-bit      *)
(* arithmetic, Sqrt and Pow being uninterpreted here) and the object then  *)
(* behaves as if that bandwidth had been assigned - the one documented     *)
(* in-place effect.  Every query is judged by the reflection structure:    *)
(*   none  f(x)            lo   f(x) + s f(2 lo - x)                       *)
(*   hi    f(x) + s f(2 hi - x) (+1 for the CDF)                           *)
(*   both  sum over n of f(x + n d) + s f(2 lo - x + n d), d = 2 (hi - lo) *)
(*   s = +1 for the density, -1 for the CDF; 0 / 0..1 outside [lo, hi)     *)
(* with f the kernel average over the sample:                              *)
(*   Epanechnikov: exact rational arithmetic here (BigInt),                *)
(*   delta kernel (no boundaries): the weighted empirical CDF, exact,      *)
(*   Gaussian: the values of f at the image points are logged by the       *)
(*   harness (independent Exp / Erfc evaluation); the spec checks that the *)
(*   image list is the one the structure dictates and sums it.             *)
(* Bounds must be finite, ordered, inside the boundaries, and hold at      *)
(* least 98% of the mass (exact for Epanechnikov).                         *)
(***************************************************************************)
EXTENDS BigInt, Json, IOUtils
CONSTANT TraceFile
Trace == ndJsonDeserialize(TraceFile)
VARIABLES k, sc, l
vars == <<k, sc, l>>
None == [kern |-> "none"]
Init == k = None /\ sc = 0 /\ l = 1
Ev(op) == l <= Len(Trace) /\ Trace[l].op = op /\ l' = l + 1

Sg(x) == [s |-> x.s, m |-> x.m]
Fin(f) == f.c = "fin"
IntR(i) == [n |-> SFrom(i), d |-> <<1>>]
Zero == IntR(0)
OneR == IntR(1)
SR(x) == [n |-> x, d |-> <<1>>]
RNeg(r) == [n |-> SNeg(r.n), d |-> r.d]
Max2(a, b) == IF a > b THEN a ELSE b
\* r * 2^e
RScale2(r, e) == IF e >= 0 THEN [n |-> SMul(r.n, SNat(Pow2(e))), d |-> r.d] ELSE [n |-> r.n, d |-> Mul(r.d, Pow2(0 - e))]
\* a logged float (real units) in lattice units: divide by 2^sc
Lat(d) == [d EXCEPT !.e = d.e - sc]

RECURSIVE SumW(_,_)
SumW(ws, i) == IF i = 0 THEN 0 ELSE ws[i] + SumW(ws, i - 1)
Wt(c, i) == IF c.ws = <<>> THEN 1 ELSE c.ws[i]
W(c) == IF c.ws = <<>> THEN Len(c.xs) ELSE SumW(c.ws, Len(c.ws))
RECURSIVE MinX(_,_), MaxX(_,_)
MinX(c, i) == IF i = 1 THEN c.xs[1] ELSE LET r == MinX(c, i - 1) IN IF SCmp(c.xs[i], r) < 0 THEN c.xs[i] ELSE r
MaxX(c, i) == IF i = 1 THEN c.xs[1] ELSE LET r == MaxX(c, i - 1) IN IF SCmp(c.xs[i], r) > 0 THEN c.xs[i] ELSE r

\* ---- bandwidth h = hm * 2^he in lattice units; sums are scaled by 2^E, E = max(0, -he) ----
EE(c) == Max2(0, 0 - c.he)
Vh(c) == Mul(c.hm, Pow2(c.he + EE(c)))               \* h * 2^E, a natural
HRat(c) == IF c.he >= 0 THEN [n |-> SNat(Mul(c.hm, Pow2(c.he))), d |-> <<1>>] ELSE [n |-> SNat(c.hm), d |-> Pow2(0 - c.he)]
InvH(c) == [n |-> SNat(HRat(c).d), d |-> HRat(c).n.m]

\* ---- Epanechnikov sums at the point t = tn / td (tn signed, td a natural power of two) ----
\*   U_i = (tn - x_i td) 2^E,  V = Vh td ;   |U_i| < V  <=>  the sample lies within the kernel's reach
\*   density  y(t) = 3 * 2^E * td * S1 / (4 V^3 W)        S1 = sum w_i (V^2 - U_i^2) over |U_i| < V
\*   cdf      Y(t) = S2 / (4 V^3 W)                        S2 = sum w_i g_i, g = 0 | 4V^3 | 2V^3 + 3 U V^2 - U^3
U(c, tn, td, i) == SMul(SSub(tn, SMul(c.xs[i], SNat(td))), SNat(Pow2(EE(c))))
RECURSIVE S1(_,_,_,_,_), S2(_,_,_,_,_), SE(_,_,_,_)
S1(c, tn, td, V, i) == IF i = 0 THEN SZero ELSE
   LET u == U(c, tn, td, i) IN
   SAdd(IF Cmp(u.m, V) < 0 THEN SMulI(SSub(SNat(Mul(V, V)), SMul(u, u)), Wt(c, i)) ELSE SZero, S1(c, tn, td, V, i - 1))
S2(c, tn, td, V, i) == IF i = 0 THEN SZero ELSE
   LET u == U(c, tn, td, i)  V2 == Mul(V, V)  V3 == Mul(V2, V)
       g == IF Cmp(u.m, V) >= 0 THEN (IF u.s < 0 THEN SZero ELSE SNat(MulS(V3, 4)))
            ELSE SSub(SAdd(SNat(MulS(V3, 2)), SMul(SMulI(u, 3), SNat(V2))), SMul(u, SMul(u, u)))
   IN SAdd(SMulI(g, Wt(c, i)), S2(c, tn, td, V, i - 1))
EpDen(c, V) == MulS(MulS(Mul(Mul(V, V), V), 4), W(c))
\* weighted empirical CDF numerator at the lattice point t (delta kernel)
SE(c, t, i, acc) == IF i = 0 THEN acc ELSE SE(c, t, i - 1, IF SCmp(c.xs[i], t) <= 0 THEN acc + Wt(c, i) ELSE acc)

RECURSIVE DeSumJ(_,_,_)
DeSumJ(c, im, j) == IF j = 0 THEN SZero ELSE
   LET v == SFrom(SE(c, im[j].t, Len(c.xs), 0)) IN SAdd(IF im[j].s = 1 THEN v ELSE SNeg(v), DeSumJ(c, im, j - 1))
DeSum(c, im) == DeSumJ(c, im, Len(im))
\* ---- reflection structure, at the point tn / td ----
HasLo(c) == c.kind \in {"lo", "both"}
HasHi(c) == c.kind \in {"hi", "both"}
Below(c, tn, td) == HasLo(c) /\ SCmp(tn, SMul(c.lo, SNat(td))) < 0
AboveEq(c, tn, td) == HasHi(c) /\ SCmp(tn, SMul(c.hi, SNat(td))) >= 0
Dd(c) == SMulI(SSub(c.hi, c.lo), 2)                   \* d = 2 (hi - lo), "both" only
\* images: sequence of [t (numerator over td), s]; n runs over -N..N for "both"
Images(c, tn, td, N) ==
  LET T(x) == SMul(x, SNat(td)) IN
  CASE c.kind = "none" -> << [t |-> tn, s |-> 1] >>
    [] c.kind = "lo"   -> << [t |-> tn, s |-> 1], [t |-> SSub(T(SMulI(c.lo, 2)), tn), s |-> -1] >>
    [] c.kind = "hi"   -> << [t |-> tn, s |-> 1], [t |-> SSub(T(SMulI(c.hi, 2)), tn), s |-> -1] >>
    [] c.kind = "both" -> [j \in 1..(2 * N + 1) |-> [t |-> SAdd(tn, T(SMulI(Dd(c), j - N - 1))), s |-> 1]] \o
                          [j \in 1..(2 * N + 1) |-> [t |-> SAdd(SSub(T(SMulI(c.lo, 2)), tn), T(SMulI(Dd(c), j - N - 1))), s |-> -1]]
CdfConst(c) == IF c.kind = "hi" THEN OneR ELSE Zero
\* the image count must cover the kernel's reach R (a rational, lattice units): N d >= span + R + (hi - lo)
Span(c) == SSub(MaxX(c, Len(c.xs)), MinX(c, Len(c.xs)))
Covers(c, N, R) == c.kind = "both" => RLe(RAdd(RAdd(SR(Span(c)), R), SR(SSub(c.hi, c.lo))), SR(SMulI(Dd(c), N)))

\* all images share the denominator 4 V^3 W, so numerators are summed (no rational blow-up)
RECURSIVE SumPdfN(_,_,_,_,_), SumCdfN(_,_,_,_,_)
SumPdfN(c, im, td, V, j) == IF j = 0 THEN SZero ELSE SAdd(S1(c, im[j].t, td, V, Len(c.xs)), SumPdfN(c, im, td, V, j - 1))
SumCdfN(c, im, td, V, j) == IF j = 0 THEN SZero ELSE
   LET y == S2(c, im[j].t, td, V, Len(c.xs)) IN SAdd(IF im[j].s = 1 THEN y ELSE SNeg(y), SumCdfN(c, im, td, V, j - 1))
EpCdfAt(c, tn, td, N) == IF Below(c, tn, td) THEN Zero ELSE IF AboveEq(c, tn, td) THEN OneR
                         ELSE LET im == Images(c, tn, td, N)  V == Mul(Vh(c), td)  den == EpDen(c, V) IN
                              [n |-> SAdd(SumCdfN(c, im, td, V, Len(im)), IF c.kind = "hi" THEN SNat(den) ELSE SZero), d |-> den]
EpPdfAt(c, tn, td, N) == IF Below(c, tn, td) \/ AboveEq(c, tn, td) THEN Zero
                         ELSE LET im == Images(c, tn, td, N)  V == Mul(Vh(c), td) IN
                              [n |-> SMul(SMulI(SumPdfN(c, im, td, V, Len(im)), 3), SNat(Mul(Pow2(EE(c)), td))), d |-> EpDen(c, V)]
\* a dyadic point (lattice units) as numerator / power-of-two denominator
DyTn(d) == DyNum(d)
DyTd(d) == DyDen(d)

\* Gaussian: the harness logs f at each image; the list itself must be the structure's
\* (dyadic values are summed over the common denominator 2^-emin)
GVal(g, j, pdf) == IF pdf THEN g[j].y.d ELSE g[j].Y.d
RECURSIVE GMinE(_,_,_), GSumN(_,_,_,_)
GMinE(g, j, pdf) == IF j = 0 THEN 0 ELSE LET r == GMinE(g, j - 1, pdf)  d == GVal(g, j, pdf) IN IF d.s # 0 /\ d.e < r THEN d.e ELSE r
GSumN(g, j, pdf, emin) == IF j = 0 THEN SZero ELSE
   LET d == GVal(g, j, pdf)
       v == IF d.s = 0 THEN SZero ELSE [s |-> IF pdf \/ g[j].s = 1 THEN d.s ELSE 0 - d.s, m |-> Mul(d.m, Pow2(d.e - emin))]
   IN SAdd(v, GSumN(g, j - 1, pdf, emin))
GSum(g, j, pdf) == LET emin == GMinE(g, j, pdf) IN [n |-> GSumN(g, j, pdf, emin), d |-> Pow2(0 - emin)]
SameImages(g, im) == Len(g) = Len(im) /\ \A j \in 1..Len(im) : Sg(g[j].t) = im[j].t /\ g[j].s = im[j].s /\ Fin(g[j].y) /\ Fin(g[j].Y)

Near(f, want, slack, bits) == Fin(f) /\ RNear(DyRat(f.d), want, slack, bits)
ProbOK(f) == Fin(f) /\ f.d.s >= 0 /\ RLe(DyRat(f.d), RAdd(OneR, RShr(OneR, 40)))

\* ---- actions ----
Reset == Ev("Reset") /\ k' = None /\ sc' = Trace[l].sc
Cfg(e) == [xs |-> [i \in 1..Len(e.xs) |-> Sg(e.xs[i])], ws |-> e.ws, kern |-> e.kern,
           hm |-> e.hm, he |-> e.he, auto |-> (e.hm = <<>>), kind |-> e.kind, lo |-> Sg(e.lo), hi |-> Sg(e.hi)]
New == Ev("New") /\ k' = Cfg(Trace[l]) /\ UNCHANGED sc
SetKernel == Ev("SetKernel") /\ k.kern # "none" /\ k' = [k EXCEPT !.kern = Trace[l].kern] /\ UNCHANGED sc
SetBandwidth == Ev("SetBandwidth") /\ k.kern # "none" /\ UNCHANGED sc
                /\ k' = [k EXCEPT !.hm = Trace[l].hm, !.he = Trace[l].he, !.auto = (Trace[l].hm = <<>>)]
\* the Sample field is public too: new weights / new values on an object that has already been queried
SetWeights == Ev("SetWeights") /\ k.kern # "none" /\ UNCHANGED sc /\ Len(Trace[l].ws) \in {0, Len(k.xs)}
              /\ k' = [k EXCEPT !.ws = Trace[l].ws]
SetXs == Ev("SetXs") /\ k.kern # "none" /\ UNCHANGED sc /\ Len(Trace[l].xs) >= 1 /\ Len(Trace[l].ws) \in {0, Len(Trace[l].xs)}
         /\ k' = [k EXCEPT !.xs = [i \in 1..Len(Trace[l].xs) |-> Sg(Trace[l].xs[i])], !.ws = Trace[l].ws]
SetBounds == Ev("SetBounds") /\ k.kern # "none" /\ UNCHANGED sc
             /\ k' = [k EXCEPT !.kind = Trace[l].kind, !.lo = Sg(Trace[l].lo), !.hi = Sg(Trace[l].hi)]

\* the configuration after a call: the bandwidth is filled by Scott's rule if it was zero, untouched otherwise
After(e) == IF k.auto THEN [k EXCEPT !.hm = Lat(e.hafter.d).m, !.he = Lat(e.hafter.d).e, !.auto = FALSE] ELSE k
AfterOK(e) == /\ Fin(e.hafter) /\ e.hafter.d.s = 1
              /\ IF k.auto THEN Fin(e.href) /\ RClose(DyRat(e.hafter.d), DyRat(e.href.d), Zero, 36)
                 ELSE Lat(e.hafter.d).m = k.hm /\ Lat(e.hafter.d).e = k.he
Judge(c, e) == LET x == Sg(e.x)  one == <<1>> IN
  /\ e.intact = 1
  /\ CASE c.kern = "ep" ->
            /\ Covers(c, e.N, HRat(c))
            /\ Fin(e.pdf) /\ e.pdf.d.s >= 0
            /\ RNear(RScale2(DyRat(e.pdf.d), sc), EpPdfAt(c, x, one, e.N), InvH(c), 30)         \* density: real -> lattice units
            /\ Near(e.cdf, EpCdfAt(c, x, one, e.N), OneR, 30)
            /\ ProbOK(e.cdf)
       [] c.kern = "ga" ->
            /\ ProbOK(e.cdf) /\ Fin(e.pdf) /\ e.pdf.d.s >= 0
            /\ IF Below(c, x, one) THEN e.pdf.d.s = 0 /\ e.cdf.d.s = 0
               ELSE IF AboveEq(c, x, one) THEN e.pdf.d.s = 0 /\ REq(DyRat(e.cdf.d), OneR)
               ELSE /\ Covers(c, e.N, RMul(IntR(10), HRat(c)))
                    /\ SameImages(e.g, Images(c, x, one, e.N))
                    /\ Near(e.pdf, GSum(e.g, Len(e.g), TRUE), RScale2(InvH(c), 0 - sc), 30)
                    /\ Near(e.cdf, RAdd(GSum(e.g, Len(e.g), FALSE), CdfConst(c)), OneR, 30)
       [] c.kern = "de" ->
            \* the delta kernel's "kernel average" is the weighted empirical CDF (a right-continuous step function); with
            \* boundaries it is folded by the same structure; its density is not a function (only its zeros are claimed)
            /\ ProbOK(e.cdf)
            /\ IF Below(c, x, one) THEN e.pdf.c = "fin" /\ e.pdf.d.s = 0 /\ e.cdf.d.s = 0
               ELSE IF AboveEq(c, x, one) THEN e.pdf.c = "fin" /\ e.pdf.d.s = 0 /\ REq(DyRat(e.cdf.d), OneR)
               ELSE /\ Covers(c, e.N, Zero)
                    /\ Near(e.cdf, RAdd([n |-> DeSum(c, Images(c, x, one, e.N)), d |-> FromNat(W(c))], CdfConst(c)), OneR, 40)
Query == /\ Ev("Query") /\ k.kern # "none" /\ UNCHANGED sc
         /\ AfterOK(Trace[l]) /\ k' = After(Trace[l]) /\ Judge(After(Trace[l]), Trace[l])

\* Bounds: finite, ordered, inside the boundaries, >= 98% of the mass between them
Mass98(m) == RLe(RatI(98, 100), RAdd(m, RShr(OneR, 30)))
BoundsEv == /\ Ev("Bounds") /\ k.kern # "none" /\ UNCHANGED sc
            /\ LET e == Trace[l]  c == After(e) IN
               /\ AfterOK(e) /\ k' = c /\ e.intact = 1
               /\ Fin(e.blo) /\ Fin(e.bhi)
               /\ LET lo == Lat(e.blo.d)  hi == Lat(e.bhi.d)  rlo == DyRat(lo)  rhi == DyRat(hi) IN
                  /\ IF c.kern = "de" THEN RLe(rlo, rhi) ELSE RLt(rlo, rhi)      \* a step function's 0.5% and 99.5% points may coincide
                  /\ HasLo(c) => RLe(SR(c.lo), rlo)
                  /\ HasHi(c) => RLe(rhi, SR(c.hi))
                  /\ IF c.kern = "ep"
                     THEN /\ Covers(c, e.N, HRat(c))
                          /\ Mass98(RSub(EpCdfAt(c, DyTn(hi), DyTd(hi), e.N), EpCdfAt(c, DyTn(lo), DyTd(lo), e.N)))
                     ELSE IF c.kern = "ga" THEN Fin(e.mass) /\ Mass98(DyRat(e.mass.d))
                     ELSE TRUE         \* delta kernel: atoms may sit on the interval's ends; only finiteness, order and the boundaries are claimed
Next == Reset \/ New \/ SetKernel \/ SetBandwidth \/ SetBounds \/ SetWeights \/ SetXs \/ Query \/ BoundsEv
Spec == Init /\ [][Next]_vars
Accepted == TLCGet("stats").diameter - 1 = Len(Trace)
=============================================================================
