CONSTANTS
  Samples <- @@Samples@@
  Hs <- @@Hs@@
  Bounds <- @@Bounds@@
SPECIFICATION Spec
INVARIANTS Laws Emit
CHECK_DEADLOCK FALSE
