CONSTANT TraceFile = "trace.ndjson"
SPECIFICATION Spec
POSTCONDITION Accepted
CHECK_DEADLOCK FALSE
