------------------------------- MODULE Special -------------------------------
(***************************************************************************)
(* mathx: Choose, Lchoose, Beta, BetaInc, GammaInc, GammaIncComp, Sign.    *)
(*                                                                         *)
(* Exact parts (BigInt):                                                   *)
(*   Choose(n,k)      Pascal's triangle, row by row (state: the current    *)
(*                    row); 0 for k < 0 or k > n; symmetric                *)
(*   Lchoose          = Ln(Choose) (NaN out of range): Ln uninterpreted    *)
(*   Beta(a,b)        = (a-1)! (b-1)! / (a+b-1)! for positive integers     *)
(*   BetaInc(x,a,b)   for positive integers a, b and rational x = p/q:     *)
(*       I_x(a,b) = sum_{j=a}^{n} C(n,j) p^j (q-p)^(n-j) / q^n, n = a+b-1  *)
(* Off the integer lattice the regularized functions are uninterpreted:    *)
(* the parameter grids below (log-spaced parameters; x at 0, 1, near them, *)
(* at the mean and on both sides of the continued-fraction switch-over)    *)
(* are emitted for the harness to compare with an independent library, and *)
(* SpecialTrace.tla states the identities every recorded value must obey.  *)
(***************************************************************************)
EXTENDS Integers, Sequences, TLC, Json, BigInt
CONSTANTS MaxN,        \* Pascal rows 0..MaxN
          MaxAB,       \* integer BetaInc parameters 1..MaxAB
          XDens        \* denominators q of x = p/q
VARIABLES kind, n, row, par, done
vars == <<kind, n, row, par, done>>
Null == [null |-> TRUE]

NextRow(r) == LET k == Len(r) IN TLCEval([i \in 1..(k + 1) |-> Add(IF i = 1 THEN <<>> ELSE r[i - 1], IF i = k + 1 THEN <<>> ELSE r[i])])
RECURSIVE PascalRow(_)
PascalRow(m) == IF m = 0 THEN << <<1>> >> ELSE NextRow(PascalRow(m - 1))
RECURSIVE Powers(_,_)
Powers(x, k) == IF k = 0 THEN << <<1>> >> ELSE LET p == Powers(x, k - 1) IN Append(p, Mul(p[k], x))
RECURSIVE Fact(_)
Fact(m) == IF m <= 1 THEN <<1>> ELSE MulS(Fact(m - 1), m)
\* numerator of I_{p/q}(a,b) over q^(a+b-1)
RECURSIVE TailSum(_,_,_,_,_)
TailSum(r, pp, pq, j, m) == IF j > m THEN <<>> ELSE Add(Mul(r[j + 1], Mul(pp[j + 1], pq[m - j + 1])), TailSum(r, pp, pq, j + 1, m))
BetaIncNum(a, b, p, q) == LET m == a + b - 1 IN TailSum(PascalRow(m), Powers(FromNat(p), m), Powers(FromNat(q - p), m), a, m)

Init == /\ kind \in {"choose", "betainc", "grid"} /\ n = 0 /\ row = << <<1>> >> /\ par = Null /\ done = FALSE
StepRow == kind = "choose" /\ n < MaxN /\ n' = n + 1 /\ row' = NextRow(row) /\ UNCHANGED <<kind, par, done>>
PickBeta == /\ kind = "betainc" /\ par = Null /\ UNCHANGED <<kind, n, row, done>>
            /\ \E a \in 1..MaxAB, b \in 1..MaxAB, q \in XDens : \E p \in 0..q : par' = [a |-> a, b |-> b, p |-> p, q |-> q]
Finish == par # Null /\ ~done /\ done' = TRUE /\ UNCHANGED <<kind, n, row, par>>
Next == StepRow \/ PickBeta \/ Finish
Spec == Init /\ [][Next]_vars

RECURSIVE SumRow(_,_)
SumRow(r, i) == IF i = 0 THEN <<>> ELSE Add(r[i], SumRow(r, i - 1))
\* rows are symmetric, sum to 2^n, start and end with 1
RowLaws == kind = "choose" =>
   /\ Len(row) = n + 1 /\ row[1] = <<1>> /\ row[n + 1] = <<1>>
   /\ \A i \in 1..(n + 1) : row[i] = row[n + 2 - i]
   /\ SumRow(row, n + 1) = Pow2(n)
\* I_x(a,b) + I_{1-x}(b,a) = 1 ; I_0 = 0 ; I_1 = 1 ; non-decreasing in x on the lattice
BetaLaws == (kind = "betainc" /\ done) =>
   LET a == par.a b == par.b p == par.p q == par.q  den == Powers(FromNat(q), a + b - 1)[a + b] IN
   /\ Add(BetaIncNum(a, b, p, q), BetaIncNum(b, a, q - p, q)) = den
   /\ p = 0 => BetaIncNum(a, b, p, q) = <<>>
   /\ p = q => BetaIncNum(a, b, p, q) = den
   /\ p < q => Cmp(BetaIncNum(a, b, p, q), BetaIncNum(a, b, p + 1, q)) <= 0

\* ---- parameter grids for the uninterpreted parts (rationals <<num, den>>) ----
\* (binary fractions and integers, and decimal fractions whose float images are inexact: sums such as a+1, a+b+2 then round)
ABGrid == {<<1, 20>>, <<1, 5>>, <<1, 4>>, <<1, 3>>, <<1, 2>>, <<1, 1>>, <<3, 2>>, <<5, 2>>, <<13, 5>>, <<37, 5>>, <<21, 2>>, <<301, 4>>, <<300, 1>>}
XBase == {<<0, 1>>, <<1, 1>>, <<1, 1000000>>, <<999999, 1000000>>, <<1, 100>>, <<1, 10>>, <<1, 4>>, <<1, 2>>, <<3, 4>>, <<9, 10>>, <<99, 100>>}
\* mean a/(a+b) and switch-over (a+1)/(a+b+2), each also shifted by +-1/1000 (as rationals: n1/d1 over n2/d2 ...)
RatDiv(x, y) == <<x[1] * y[2], x[2] * y[1]>>
RatAdd(x, y) == <<x[1] * y[2] + y[1] * x[2], x[2] * y[2]>>
One == <<1, 1>>
BetaXs(a, b) == XBase \cup {RatDiv(a, RatAdd(a, b)), RatDiv(RatAdd(a, One), RatAdd(RatAdd(a, b), <<2, 1>>))}
GammaAs == ABGrid \cup {<<2, 1>>, <<10, 1>>, <<100, 1>>}
GammaXs(a) == {<<0, 1>>, <<1, 1000000>>, <<1, 100>>, <<1, 2>>, <<1, 1>>, <<5, 2>>, <<10, 1>>, <<100, 1>>, <<1000, 1>>, <<10000, 1>>, <<1000000, 1>>, <<1000000000, 1>>, a, RatAdd(a, One),
               RatAdd(a, <<999, 1000>>), RatAdd(a, <<1001, 1000>>), RatAdd(a, a)}

Emit ==
  /\ kind = "choose" => PrintT(ToJson([kind |-> "choose", n |-> n, row |-> row]))
  /\ (kind = "betainc" /\ done) =>
        PrintT(ToJson([kind |-> "betainc", a |-> par.a, b |-> par.b, p |-> par.p, q |-> par.q,
                       num |-> BetaIncNum(par.a, par.b, par.p, par.q), den |-> Powers(FromNat(par.q), par.a + par.b - 1)[par.a + par.b],
                       bnum |-> Mul(Fact(par.a - 1), Fact(par.b - 1)), bden |-> Fact(par.a + par.b - 1)]))
  /\ (kind = "grid" /\ n = 0 /\ ~done) =>
        PrintT(ToJson([kind |-> "grid",
                       beta |-> {[a |-> a, b |-> b, xs |-> BetaXs(a, b)] : a \in ABGrid, b \in ABGrid},
                       gamma |-> {[a |-> a, xs |-> GammaXs(a)] : a \in GammaAs}]))
=============================================================================
