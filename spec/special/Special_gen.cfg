CONSTANTS
  MaxN = @@MaxN@@
  MaxAB = @@MaxAB@@
  XDens = @@XDens@@
SPECIFICATION Spec
INVARIANTS RowLaws BetaLaws Emit
CHECK_DEADLOCK FALSE
