----------------------------- MODULE SpecialTrace -----------------------------
(***************************************************************************)
(* Identities that every recorded value of mathx.BetaInc / GammaInc /      *)
(* GammaIncComp must obey (the functions themselves are uninterpreted):    *)
(*   BetaPt   sweep in x for fixed (a,b): values in [0,1], non-decreasing  *)
(*            (slack 1e-12 for float noise), 0 at x = 0, 1 at x = 1        *)
(*   BetaSym  I_x(a,b) + I_{1-x}(b,a) = 1                                  *)
(*   GammaPt  sweep in x for fixed a: P + Q = 1, P non-decreasing,         *)
(*            Q non-increasing, both in [0,1], P(a,0) = 0                  *)
(*   GammaMul Q(1,x+y) = Q(1,x) Q(1,y)          (Q(1,x) = exp(-x))         *)
(*   GammaRec (P(a,x) - P(a+1,x)) x = (P(a+1,x) - P(a+2,x)) (a+1)          *)
(*   NaNDom   arguments outside the domain give NaN                        *)
(* Values are exact dyadic images of the float64 results; tolerances 1e-9. *)
(***************************************************************************)
EXTENDS BigInt, Json, IOUtils
CONSTANT TraceFile
Trace == ndJsonDeserialize(TraceFile)
VARIABLES last, l
vars == <<last, l>>
None == [valid |-> FALSE]
Init == last = None /\ l = 1

Fin(v) == v.c = "fin"
V(v) == DyRat(v.d)
Zero == RatI(0, 1)
One == RatI(1, 1)
Tol9 == RatI(1, 1000000000)
Tol12 == [n |-> SNat(<<1>>), d |-> <<0, 0, 0, 1>>]
In01(v) == Fin(v) /\ RLe(Zero, V(v)) /\ RLe(V(v), One)
Ev(e) == l <= Len(Trace) /\ Trace[l].op = e /\ l' = l + 1

BetaPt == /\ Ev("BetaPt") /\ LET ev == Trace[l] IN
            /\ In01(ev.y)
            /\ (ev.x.d.s = 0) => ev.y.d.s = 0
            /\ (V(ev.x) = One) => V(ev.y) = One
            /\ (ev.first = 0 /\ last.valid) => RLe(last.y, RAdd(V(ev.y), Tol12))
            /\ last' = [valid |-> TRUE, y |-> V(ev.y), q |-> Zero]
BetaSym == /\ Ev("BetaSym") /\ LET ev == Trace[l] IN
             Fin(ev.y1) /\ Fin(ev.y2) /\ RLe(RAbs(RSub(RAdd(V(ev.y1), V(ev.y2)), One)), Tol9)
           /\ last' = None
GammaPt == /\ Ev("GammaPt") /\ LET ev == Trace[l] IN
             /\ In01(ev.p) /\ In01(ev.q)
             /\ RLe(RAbs(RSub(RAdd(V(ev.p), V(ev.q)), One)), Tol9)
             /\ (ev.x.d.s = 0) => (ev.p.d.s = 0 /\ V(ev.q) = One)
             /\ (ev.first = 0 /\ last.valid) => /\ RLe(last.y, RAdd(V(ev.p), Tol12))
                                                /\ RLe(V(ev.q), RAdd(last.q, Tol12))
             /\ last' = [valid |-> TRUE, y |-> V(ev.p), q |-> V(ev.q)]
GammaMul == /\ Ev("GammaMul") /\ LET ev == Trace[l] IN
              Fin(ev.q1) /\ Fin(ev.q2) /\ Fin(ev.q12) /\ RLe(RAbs(RSub(V(ev.q12), RMul(V(ev.q1), V(ev.q2)))), Tol9)
            /\ last' = None
GammaRec == /\ Ev("GammaRec") /\ LET ev == Trace[l]  a1 == RAdd(V(ev.a), One) IN
              /\ Fin(ev.p0) /\ Fin(ev.p1) /\ Fin(ev.p2)
              /\ RLe(RAbs(RSub(RMul(RSub(V(ev.p0), V(ev.p1)), V(ev.x)), RMul(RSub(V(ev.p1), V(ev.p2)), a1))),
                     RMul(Tol9, RAdd(V(ev.x), a1)))
            /\ last' = None
NaNDom == Ev("NaNDom") /\ Trace[l].r.c = "nan" /\ last' = None
Reset == Ev("Reset") /\ last' = None
Next == BetaPt \/ BetaSym \/ GammaPt \/ GammaMul \/ GammaRec \/ NaNDom \/ Reset
Spec == Init /\ [][Next]_vars
Accepted == TLCGet("stats").diameter - 1 = Len(Trace)
=============================================================================
