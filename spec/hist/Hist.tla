-------------------------------- MODULE Hist --------------------------------
(***************************************************************************)
(* stats.LinearHist / stats.LogHist / HistogramQuantile.                   *)
(*                                                                         *)
(* State: the shape and the three counters (under, bins, over).  Add(x)    *)
(* increments exactly one counter, chosen by the bin edges:                *)
(*   bin i  iff Edge(i) <= x < Edge(i+1);  under iff x < Edge(0);          *)
(*   over iff x >= Edge(nbins).                                            *)
(* All values are exact: Linear shapes and their inputs live on the        *)
(* lattice of multiples of 1/Unit; Log shapes take integer inputs >= 1     *)
(* (decided by comparing x^m with b^k) and inputs below 1 (always under).  *)
(* HistogramQuantile is specified by an ADMISSIBLE SET (two rank           *)
(* conventions, interval around the rank-interpolated position).           *)
(***************************************************************************)
EXTENDS Integers, Sequences, FiniteSets, TLC, Json, SmallRat
CONSTANTS Shapes,     \* set of shape records
          Depth       \* number of Adds
VARIABLES shape, adds, under, bins, over
vars == <<shape, adds, under, bins, over>>

\* shape: [kind |-> "lin", min, max, nbins, unit, xs]   values are integers / unit; (max-min) % nbins may be # 0
\*        [kind |-> "log", b, m, nbins, xs]             xs: integers (negative ones lie below the range like every x < 1), 0 standing for the value 1/2
RECURSIVE IPow(_,_)
IPow(a, e) == IF e = 0 THEN 1 ELSE a * IPow(a, e - 1)

\* index of the counter that x belongs to: -1 under, nbins over, else the bin
LinBin(s, x) == \* floor((x - min) * nbins / (max - min)) by integer floor division
   LET k == ((x - s.min) * s.nbins) \div (s.max - s.min) IN
   IF k < 0 THEN -1 ELSE IF k >= s.nbins THEN s.nbins ELSE k
RECURSIVE LogK(_,_,_)
LogK(s, xm, k) == IF IPow(s.b, k + 1) > xm THEN k ELSE LogK(s, xm, k + 1)    \* largest k with b^k <= x^m
LogBin(s, x) == IF x < 1 THEN -1
                ELSE LET k == LogK(s, IPow(x, s.m), 0) IN IF k >= s.nbins THEN s.nbins ELSE k
\* value codes 100000 + 10 j + side: a value just below (side 1) or just above (side 2) bin edge j - at a distance of 1e-10
\* of a bin (relative 1e-10 for logarithmic edges), i.e. clearly in one bin and far outside any rounding ambiguity of the edge
\* value codes 200001..200004: +1e300, +Inf, -1e300, -Inf (far beyond any range: over- and underflow)
IsFar(x) == x >= 200000
FarBin(s, x) == IF x <= 200002 THEN s.nbins ELSE -1
IsNear(x) == x >= 100000 /\ x < 200000
NearJ(x) == (x - 100000) \div 10
NearBin(s, x) == LET k == IF (x - 100000) % 10 = 1 THEN NearJ(x) - 1 ELSE NearJ(x) IN
                 IF k < 0 THEN -1 ELSE IF k >= s.nbins THEN s.nbins ELSE k
BinOf(s, x) == IF IsFar(x) THEN FarBin(s, x) ELSE IF IsNear(x) THEN NearBin(s, x) ELSE IF s.kind = "lin" THEN LinBin(s, x) ELSE LogBin(s, x)
\* is x exactly on an edge (for shapes whose float edges are inexact the binder may accept either side)
OnEdge(s, x) == IF IsNear(x) \/ IsFar(x) THEN FALSE ELSE IF s.kind = "lin" THEN ((x - s.min) * s.nbins) % (s.max - s.min) = 0
                ELSE x >= 1 /\ IPow(s.b, LogK(s, IPow(x, s.m), 0)) = IPow(x, s.m)

Init == /\ shape \in Shapes
        /\ adds = <<>> /\ under = 0 /\ over = 0
        /\ bins = [i \in 1..shape.nbins |-> 0]
Add(x) == LET k == BinOf(shape, x) IN
          /\ adds' = Append(adds, x)
          /\ under' = IF k = -1 THEN under + 1 ELSE under
          /\ over' = IF k = shape.nbins THEN over + 1 ELSE over
          /\ bins' = IF k >= 0 /\ k < shape.nbins THEN [bins EXCEPT ![k+1] = @ + 1] ELSE bins
          /\ UNCHANGED shape
\* values are added in non-decreasing order of their position in xs, so every multiset has one path
Next == /\ Len(adds) < Depth
        /\ \E i \in 1..Len(shape.xs) :
              /\ (IF adds = <<>> THEN TRUE ELSE \E j \in 1..i : shape.xs[j] = adds[Len(adds)])
              /\ Add(shape.xs[i])
Spec == Init /\ [][Next]_vars

RECURSIVE SumTo(_,_)
SumTo(f, k) == IF k = 0 THEN 0 ELSE f[k] + SumTo(f, k - 1)
Total == under + SumTo(bins, shape.nbins) + over
Conserves == Total = Len(adds)
OneCounter == [][(under' - under) + (over' - over) + (SumTo(bins', shape.nbins) - SumTo(bins, shape.nbins)) = 1
                 /\ under' >= under /\ over' >= over /\ \A i \in 1..shape.nbins : bins'[i] >= bins[i]]_vars

\* ---- HistogramQuantile ----
\* the bin (1-based index into bins) holding in-range sample number g (1-based among the binned samples) and its rank there
RECURSIVE Locate(_,_)
Locate(g, i) == IF g <= bins[i] THEN <<i, g>> ELSE Locate(g - bins[i], i + 1)
\* interval of bin coordinates (rationals) around rank r of c in bin i (0-based bin coordinate i-1), clipped to the bin
Around(i, r, c) == [lo |-> QN((i - 1) * c + (r - 1), c), hi |-> QN((i - 1) * c + (IF r + 1 > c THEN c ELSE r + 1), c)]
NaNAlt == [nan |-> TRUE, lo |-> QI(0), hi |-> QI(0)]
\* sample number g (1-based over all samples incl. under/overflow); g < 1 or g > Total: no such sample
AltFor(g) == IF g < 1 \/ g > Total \/ g <= under \/ g > Total - over THEN NaNAlt
             ELSE LET p == Locate(g - under, 1) IN
                  [nan |-> FALSE] @@ Around(p[1], p[2], bins[p[1]])
\* q = a/16; floor(q * total); both readings of "the floor(q*total)-th smallest sample"
\* first the 1-based reading (sample number g), then the 0-based one (sample index g); an implementation must
\* follow ONE reading for all q
Admissible(a) == LET g == (a * Total) \div 16 IN <<AltFor(g), AltFor(g + 1)>>
\* within one rank convention the admissible intervals move up with q, so "non-decreasing in q" is satisfiable
G(a) == (a * Total) \div 16
AdmMonotone == \A a \in 0..15 : \A d \in {0, 1} :
   LET x == AltFor(G(a) + d)  y == AltFor(G(a + 1) + d) IN (~x.nan /\ ~y.nan) => QLe(x.lo, y.lo) /\ QLe(x.hi, y.hi)

Emit == PrintT(ToJson([shape |-> shape, adds |-> adds, under |-> under, bins |-> bins, over |-> over,
                       edge |-> [i \in 1..Len(adds) |-> OnEdge(shape, adds[i])],
                       q |-> [a \in 1..17 |-> Admissible(a - 1)]]))

ShapesQuick == {
  [kind |-> "lin", min |-> 0,   max |-> 30,  nbins |-> 3, unit |-> 1, xs |-> <<100001, 100002, 100011, 100012, 100021, 100022, 100031, 100032, 5>>],
  [kind |-> "lin", min |-> -4,  max |-> 12,  nbins |-> 4, unit |-> 1, xs |-> <<-5, 0, 11, 12, 200001, 200002, 200003, 200004>>],
  [kind |-> "log", b |-> 10, m |-> 2, nbins |-> 3, xs |-> <<0, 1, 9, 40, 200001, 200002, 200003, 200004>>],
  \* wide logarithmic histograms: the upper edges b^(k/m) lie beyond 2^63 (values next to those edges by code)
  [kind |-> "log", b |-> 10, m |-> 1, nbins |-> 24, xs |-> <<0, 1, 5, 100, 100181, 100192, 100201, 100232, 100241, 100242>>],
  [kind |-> "log", b |-> 7,  m |-> 2, nbins |-> 50, xs |-> <<0, 1, 7, 50, 100441, 100452, 100491, 100492, 100501, 100502>>],
  [kind |-> "log", b |-> 10, m |-> 1, nbins |-> 3, xs |-> <<100001, 100002, 100011, 100012, 100021, 100022, 100031, 100032, 7>>],
  [kind |-> "log", b |-> 2,  m |-> 3, nbins |-> 5, xs |-> <<100001, 100002, 100011, 100022, 100041, 100042, 100051, 100052, 3>>],
  [kind |-> "lin", min |-> 0,   max |-> 64,  nbins |-> 4, unit |-> 8, xs |-> <<-200, -9, -1, 0, 15, 16, 17, 63, 64, 700>>],
  [kind |-> "lin", min |-> -32, max |-> 32,  nbins |-> 8, unit |-> 8, xs |-> <<-40, -33, -32, -31, -8, -1, 0, 7, 31, 32>>],
  [kind |-> "lin", min |-> 0,   max |-> 80,  nbins |-> 3, unit |-> 8, xs |-> <<-27, -1, 0, 26, 27, 53, 54, 79, 81, 107>>],
  [kind |-> "lin", min |-> 5,   max |-> 6,   nbins |-> 1, unit |-> 1, xs |-> <<4, 5, 6, 7>>],
  [kind |-> "log", b |-> 2,  m |-> 1, nbins |-> 4, xs |-> <<-40, -2, -1, 0, 1, 2, 3, 4, 7, 8, 15, 16, 40>>],
  [kind |-> "log", b |-> 10, m |-> 2, nbins |-> 4, xs |-> <<-100, -3, 0, 1, 3, 4, 9, 10, 31, 32, 99, 100, 101>>],
  [kind |-> "log", b |-> 3,  m |-> 3, nbins |-> 6, xs |-> <<0, 1, 2, 3, 4, 5, 6, 8, 9, 10>>] }
ShapesThorough == ShapesQuick \cup {
  [kind |-> "lin", min |-> -7,  max |-> 93,  nbins |-> 50, unit |-> 1, xs |-> <<-9, -8, -7, -6, -5, 0, 1, 91, 92, 93, 94>>],
  [kind |-> "lin", min |-> 3,   max |-> 24,  nbins |-> 7,  unit |-> 4, xs |-> <<0, 2, 3, 5, 6, 8, 9, 23, 24, 26>>],
  [kind |-> "lin", min |-> 0,   max |-> 10,  nbins |-> 10, unit |-> 16, xs |-> <<-1, 0, 1, 2, 3, 9, 10, 11, 12>>],
  [kind |-> "log", b |-> 5,  m |-> 4, nbins |-> 8, xs |-> <<0, 1, 2, 3, 4, 5, 6, 12, 24, 25, 26>>],
  [kind |-> "log", b |-> 7,  m |-> 1, nbins |-> 2, xs |-> <<-49, -7, -1, 0, 1, 6, 7, 8, 48, 49, 50>>],
  [kind |-> "log", b |-> 2,  m |-> 4, nbins |-> 12, xs |-> <<0, 1, 2, 3, 5, 7, 8, 9, 11>>] }
=============================================================================
