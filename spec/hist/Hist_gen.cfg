CONSTANTS
  Shapes <- @@Shapes@@
  Depth = @@Depth@@
SPECIFICATION Spec
INVARIANTS Conserves AdmMonotone Emit
PROPERTY OneCounter
CHECK_DEADLOCK FALSE
