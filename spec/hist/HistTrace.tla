------------------------------ MODULE HistTrace ------------------------------
(***************************************************************************)
(* Trace validation of stats.LinearHist / stats.LogHist / HistogramQuantile *)
(* on long random Add sequences and random shapes (1..50 bins, any integer  *)
(* min < max on a lattice, log bases 2..10 with 1..4 bins per power).       *)
(*   New      fixes the shape, all counters 0                               *)
(*   Add(x)   exactly one counter moves by one: the one the edges select    *)
(*            (a value exactly on an edge whose float image is inexact may  *)
(*            fall one counter lower)                                       *)
(*   Quantile(q = a/1024)  NaN or a value inside the bin holding the ranked *)
(*            sample (rank-interpolation interval for Linear), under ONE    *)
(*            rank convention for the whole history; non-decreasing in q    *)
(*            while the counters do not change                              *)
(***************************************************************************)
EXTENDS BigInt, Json, IOUtils
CONSTANT TraceFile
Trace == ndJsonDeserialize(TraceFile)
VARIABLES shape, under, bins, over, conv, lastq, l
vars == <<shape, under, bins, over, conv, lastq, l>>
NoShape == [kind |-> "none"]
Init == shape = NoShape /\ under = 0 /\ bins = <<>> /\ over = 0 /\ conv = <<TRUE, TRUE>> /\ lastq = [valid |-> FALSE] /\ l = 1

RECURSIVE IPow(_,_)
IPow(a, e) == IF e = 0 THEN 1 ELSE a * IPow(a, e - 1)
RECURSIVE GCD(_,_)
GCD(a, b) == IF b = 0 THEN a ELSE GCD(b, a % b)
RECURSIVE IsPow2(_)
IsPow2(k) == IF k = 1 THEN TRUE ELSE IF k % 2 = 1 THEN FALSE ELSE IsPow2(k \div 2)
\* Linear: is 1/width = nbins unit / (max - min) exactly representable (a power of two)?
\* ... and are the lattice values themselves (multiples of 1/unit) exact floats?
LinExact(s) == LET p == s.nbins * s.unit  q == s.max - s.min  g == GCD(p, q) IN IsPow2(p \div g) /\ IsPow2(q \div g) /\ IsPow2(s.unit)
LinBin(s, x) == LET k == ((x - s.min) * s.nbins) \div (s.max - s.min) IN IF k < 0 THEN -1 ELSE IF k >= s.nbins THEN s.nbins ELSE k
LinOnEdge(s, x) == ((x - s.min) * s.nbins) % (s.max - s.min) = 0
RECURSIVE LogK(_,_,_)
LogK(s, xm, k) == IF IPow(s.b, k + 1) > xm THEN k ELSE LogK(s, xm, k + 1)
LogBin(s, x) == IF x < 1 THEN -1 ELSE LET k == LogK(s, IPow(x, s.m), 0) IN IF k >= s.nbins THEN s.nbins ELSE k
LogOnEdge(s, x) == x > 1 /\ IPow(s.b, LogK(s, IPow(x, s.m), 0)) = IPow(x, s.m)
BinOf(s, x) == IF s.kind = "lin" THEN LinBin(s, x) ELSE LogBin(s, x)
\* may x fall one counter lower because the float edge is inexact?
MayFallLower(s, x) == IF s.kind = "lin" THEN LinOnEdge(s, x) /\ ~LinExact(s) /\ x # s.min ELSE LogOnEdge(s, x)

Ev(e) == l <= Len(Trace) /\ Trace[l].op = e /\ l' = l + 1
New == /\ Ev("New") /\ shape' = Trace[l].shape
       /\ under' = 0 /\ over' = 0 /\ bins' = [i \in 1..Trace[l].shape.nbins |-> 0]
       /\ Trace[l].under = 0 /\ Trace[l].over = 0 /\ Trace[l].bins = [i \in 1..Trace[l].shape.nbins |-> 0]
       /\ conv' = <<TRUE, TRUE>> /\ lastq' = [valid |-> FALSE]
Bump(k) == /\ under' = IF k = -1 THEN under + 1 ELSE under
           /\ over' = IF k = shape.nbins THEN over + 1 ELSE over
           /\ bins' = IF k >= 0 /\ k < shape.nbins THEN [bins EXCEPT ![k + 1] = @ + 1] ELSE bins
AddEv == /\ Ev("Add") /\ shape.kind # "none" /\ UNCHANGED <<shape, conv>> /\ lastq' = [valid |-> FALSE]
       /\ LET x == Trace[l].x  k == BinOf(shape, x) IN
          \/ Bump(k)
          \/ (MayFallLower(shape, x) /\ Bump(k - 1))
       /\ Trace[l].under = under' /\ Trace[l].over = over' /\ Trace[l].bins = bins'      \* the logged counters are the new state

RECURSIVE SumTo(_,_)
SumTo(f, k) == IF k = 0 THEN 0 ELSE f[k] + SumTo(f, k - 1)
Total == under + SumTo(bins, shape.nbins) + over
RECURSIVE Locate(_,_)
Locate(g, i) == IF g <= bins[i] THEN <<i, g>> ELSE Locate(g - bins[i], i + 1)
V(v) == DyRat(v.d)
Tol == RatI(1, 1000000000)
\* is the reply r admissible for sample number g (1-based over all samples)?
OKFor(g, r) ==
  IF g < 1 \/ g > Total \/ g <= under \/ g > Total - over THEN r.c = "nan"
  ELSE LET p == Locate(g - under, 1)  i == p[1]  rk == p[2]  c == bins[i] IN
       /\ r.c = "fin"
       /\ IF shape.kind = "lin"
          THEN LET w == RatI(shape.max - shape.min, shape.nbins * shape.unit)
                   lo == RAdd(RatI(shape.min, shape.unit), RMul(RatI((i - 1) * c + (rk - 1), c), w))
                   hi == RAdd(RatI(shape.min, shape.unit), RMul(RatI((i - 1) * c + (IF rk + 1 > c THEN c ELSE rk + 1), c), w))
                   slack == RMul(Tol, RAbs(RatI(shape.max - shape.min, shape.unit)))
               IN RLe(RSub(lo, slack), V(r)) /\ RLe(V(r), RAdd(hi, slack))
          ELSE \* inside bin i-1: b^(i-1) <= r^m <= b^i, 1e-9 relative
               LET rm == LET RECURSIVE P(_) P(e) == IF e = 0 THEN RatI(1, 1) ELSE RMul(V(r), P(e - 1)) IN P(shape.m)
                   lo == [n |-> SNat(PowS(shape.b, i - 1)), d |-> <<1>>]  hi == [n |-> SNat(PowS(shape.b, i)), d |-> <<1>>]
               IN RLe(RMul(lo, RSub(RatI(1, 1), RMul(Tol, RatI(8, 1)))), rm) /\ RLe(rm, RMul(hi, RAdd(RatI(1, 1), RMul(Tol, RatI(8, 1)))))
Quantile == /\ Ev("Quantile") /\ shape.kind # "none" /\ UNCHANGED <<shape, under, bins, over>>
            /\ LET ev == Trace[l]  g == (ev.a * Total) \div 1024
                   c1 == conv[1] /\ OKFor(g, ev.r)  c0 == conv[2] /\ OKFor(g + 1, ev.r) IN
               /\ c1 \/ c0                                               \* one rank reading explains the whole history
               /\ conv' = <<c1, c0>>
               /\ ev.panicked = 0
               /\ (lastq.valid /\ lastq.a <= ev.a /\ lastq.r.c = "fin" /\ ev.r.c = "fin") =>
                      RLe(V(lastq.r), RAdd(V(ev.r), RMul(Tol, RAbs(V(ev.r)))))      \* non-decreasing in q
               /\ lastq' = [valid |-> TRUE, a |-> ev.a, r |-> ev.r]
Reset == Ev("Reset") /\ shape' = NoShape /\ under' = 0 /\ bins' = <<>> /\ over' = 0 /\ conv' = <<TRUE, TRUE>> /\ lastq' = [valid |-> FALSE]
Next == New \/ AddEv \/ Quantile \/ Reset
Spec == Init /\ [][Next]_vars
Accepted == TLCGet("stats").diameter - 1 = Len(Trace)
=============================================================================
