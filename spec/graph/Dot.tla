--------------------------------- MODULE Dot ---------------------------------
(***************************************************************************)
(* graphout.DotString: quoting of strings for Graphviz.  Strings are       *)
(* sequences over a small alphabet that contains every character the       *)
(* escaping rules distinguish.  Escape is the specification; Unescape is   *)
(* what a dot reader does; TLC checks Unescape(Escape(s)) = s and that an  *)
(* escaped string contains no unescaped quote (so the quoted string ends   *)
(* where it should) for every string up to MaxLen.                         *)
(*  codes: 1 quote  2 backslash  3 newline  4 {  5 }  6 <  7 >  8 |        *)
(*         9 the letter a  10 space  11 the letter n                       *)
(***************************************************************************)
EXTENDS Integers, Sequences, TLC, Json
CONSTANT MaxLen
VARIABLE s
Alphabet == 1..11
Special == {1, 2, 4, 5, 6, 7, 8}
Init == s = <<>>
Next == Len(s) < MaxLen /\ \E c \in Alphabet : s' = Append(s, c)
Spec == Init /\ [][Next]_s

RECURSIVE EscBody(_)
EscBody(t) == IF t = <<>> THEN <<>>
              ELSE LET c == Head(t) IN
                   (IF c = 3 THEN <<2, 11>> ELSE IF c \in Special THEN <<2, c>> ELSE <<c>>) \o EscBody(Tail(t))
Escape(t) == <<1>> \o EscBody(t) \o <<1>>
RECURSIVE UnescBody(_)
UnescBody(t) == IF t = <<>> THEN <<>>
                ELSE IF Head(t) = 2 /\ Len(t) >= 2
                     THEN <<IF t[2] = 11 THEN 3 ELSE t[2]>> \o UnescBody(Tail(Tail(t)))
                     ELSE <<Head(t)>> \o UnescBody(Tail(t))
Unescape(q) == UnescBody(SubSeq(q, 2, Len(q) - 1))
\* position of the first quote that is not preceded by an (unconsumed) backslash, scanning from index i
RECURSIVE CloseAt(_,_)
CloseAt(q, i) == IF i > Len(q) THEN 0 ELSE IF q[i] = 2 THEN CloseAt(q, i + 2) ELSE IF q[i] = 1 THEN i ELSE CloseAt(q, i + 1)

RoundTrip == Unescape(Escape(s)) = s
Terminates == LET q == Escape(s) IN CloseAt(q, 2) = Len(q)
NoRawNewline == \A i \in 1..Len(Escape(s)) : Escape(s)[i] # 3
Emit == PrintT(ToJson([s |-> s, esc |-> Escape(s)]))
=============================================================================
