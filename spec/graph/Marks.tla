-------------------------------- MODULE Marks --------------------------------
(***************************************************************************)
(* graphalg.NodeMarks: a set of non-negative integers.                     *)
(*   abstract layer : marks \subseteq Nat; Mark, Unmark, Test, Next        *)
(*   storage layer  : the bit-vector design of marks.go -- `len` 32-bit    *)
(*                    words, grown on demand to the next power of two that *)
(*                    holds the id; TLC checks that it refines the set and *)
(*                    never indexes outside its storage (Refines).         *)
(***************************************************************************)
EXTENDS Integers, Sequences, FiniteSets, TLC, Json
CONSTANTS Ids,        \* the ids used by the bounded model (storage growth boundaries)
          Depth,
          GrowOK      \* TRUE: round up while k < n (the design); FALSE: the inverted loop of the pinned defect
VARIABLES marks, len, bits, hist
vars == <<marks, len, bits, hist>>

RECURSIVE Pow2AtLeast(_,_)
Pow2AtLeast(k, m) == IF k >= m THEN k ELSE Pow2AtLeast(2*k, m)
Grow(i) == LET need == (i \div 32) + 1 IN IF GrowOK THEN Pow2AtLeast(1, need) ELSE 1

Init == marks = {} /\ len = 32 /\ bits = {} /\ hist = <<>>
Mark(i) == /\ marks' = marks \cup {i}
           /\ len' = IF (i \div 32) >= len THEN Grow(i) ELSE len
           /\ bits' = bits \cup {i}
           /\ hist' = Append(hist, [op |-> "Mark", n |-> i])
Unmark(i) == /\ marks' = marks \ {i}
             /\ UNCHANGED len
             /\ bits' = IF (i \div 32) >= len THEN bits ELSE bits \ {i}
             /\ hist' = Append(hist, [op |-> "Unmark", n |-> i])
Next == Len(hist) < Depth /\ \E i \in Ids : Mark(i) \/ Unmark(i)
Spec == Init /\ [][Next]_vars

\* queries, defined on the abstract set
Test(i) == i \in marks
NextAfter(i) == LET c == {x \in marks : x > i} IN IF c = {} THEN -1 ELSE CHOOSE x \in c : \A y \in c : x <= y

\* the storage layer holds exactly the set and every stored id fits the allocated words
Refines == bits = marks /\ \A i \in bits : (i \div 32) < len
\* Next enumerates the set in ascending order
RECURSIVE Walk(_)
Walk(i) == LET j == NextAfter(i) IN IF j = -1 THEN <<>> ELSE <<j>> \o Walk(j)
WalkOK == LET w == Walk(-1) IN
          /\ {w[k] : k \in 1..Len(w)} = marks /\ \A k \in 1..(Len(w)-1) : w[k] < w[k+1]

Emit == PrintT(ToJson([h |-> hist, set |-> marks, walk |-> Walk(-1)]))
IdsDef == {0, 31, 32, 1023, 1024, 2047, 2048, 65536}
=============================================================================
