------------------------------ MODULE GraphTrace ------------------------------
(***************************************************************************)
(* Trace validation of graphalg on recorded random multigraphs (far larger *)
(* than the exhaustively enumerated ones): every recorded result is judged *)
(* by the definitions -- depth-first orders following adjacency order,     *)
(* SCCs as classes of mutual reachability numbered in reverse topological  *)
(* order with exact condensation out-sets, immediate dominators by node    *)
(* deletion, dominance frontiers (root membership don't-care when the root *)
(* has exactly one incoming edge).  Reachability is computed breadth-first *)
(* so that graphs of a few dozen nodes stay cheap.                         *)
(*   Load    makes the recorded graph the current state                    *)
(*   Orders / SCC / Dom   judge one recorded result against it             *)
(***************************************************************************)
EXTENDS Integers, Sequences, FiniteSets, TLC, Json, IOUtils
CONSTANT TraceFile
Trace == ndJsonDeserialize(TraceFile)
VARIABLES n, adj, l
vars == <<n, adj, l>>
Init == n = 0 /\ adj = <<>> /\ l = 1
Nodes == 0..(n - 1)
Out(u) == adj[u + 1]
Succ(u) == {Out(u)[i] : i \in 1..Len(Out(u))}
RECURSIVE BFS(_,_,_)
BFS(front, seen, avoid) == IF front = {} THEN seen
   ELSE LET nx == (UNION {Succ(u) : u \in front}) \ (seen \cup avoid) IN BFS(nx, seen \cup nx, avoid)
ReachAvoid(r, avoid) == IF r \in avoid THEN {} ELSE BFS({r}, {r}, avoid)
Reach(r) == ReachAvoid(r, {})
SeqToSet(s) == {s[i] : i \in 1..Len(s)}

RECURSIVE Visit(_,_), VisitList(_,_)
Visit(st, u) == IF u \in st.vis THEN st
   ELSE LET s1 == [vis |-> st.vis \cup {u}, pre |-> Append(st.pre, u), post |-> st.post]
            s2 == VisitList(s1, Out(u))
        IN [vis |-> s2.vis, pre |-> s2.pre, post |-> Append(s2.post, u)]
VisitList(st, lst) == IF lst = <<>> THEN st ELSE VisitList(Visit(st, Head(lst)), Tail(lst))
DFS(r) == Visit([vis |-> {}, pre |-> <<>>, post |-> <<>>], r)

Ev(e) == l <= Len(Trace) /\ Trace[l].op = e /\ l' = l + 1
Load == Ev("Load") /\ n' = Trace[l].n /\ adj' = Trace[l].adj
Orders == /\ Ev("Orders") /\ UNCHANGED <<n, adj>>
          /\ LET ev == Trace[l]  d == DFS(ev.root) IN ev.panicked = 0 /\ ev.pre = d.pre /\ ev.post = d.post
\* SCC: comp[u+1] = component id of node u, outs[c+1] = recorded out-list of component c
SCC == /\ Ev("SCC") /\ UNCHANGED <<n, adj>>
       /\ LET ev == Trace[l]
              R == TLCEval([u \in Nodes |-> Reach(u)])
              C(u) == ev.comp[u + 1]
          IN /\ ev.panicked = 0 /\ Len(ev.comp) = n
             /\ \A u \in Nodes : C(u) >= 0 /\ C(u) < ev.ncomp
             /\ \A c \in 0..(ev.ncomp - 1) : \E u \in Nodes : C(u) = c                                  \* no empty component
             /\ \A u, v \in Nodes : (C(u) = C(v)) <=> (v \in R[u] /\ u \in R[v])                         \* classes of mutual reachability
             /\ \A u \in Nodes : \A v \in Succ(u) : C(u) # C(v) => C(u) > C(v)                           \* reverse topological numbering
             /\ \A c \in 0..(ev.ncomp - 1) :
                  /\ SeqToSet(ev.outs[c + 1]) = {C(v) : v \in UNION {Succ(u) : u \in {w \in Nodes : C(w) = c}}} \ {c}
                  /\ Cardinality(SeqToSet(ev.outs[c + 1])) = Len(ev.outs[c + 1])                        \* each once
Dom == /\ Ev("Dom") /\ UNCHANGED <<n, adj>>
       /\ LET ev == Trace[l]  r == ev.root
              Rr == Reach(r)
              A == TLCEval([x \in Nodes |-> IF x = r THEN {} ELSE ReachAvoid(r, {x})])
              Dm(x, v) == x = v \/ x = r \/ v \notin A[x]
              sdom == TLCEval([v \in Nodes |-> {x \in Rr : x # v /\ Dm(x, v)}])
              idom == TLCEval([v \in Nodes |-> IF v = r \/ v \notin Rr THEN -1
                                               ELSE CHOOSE x \in sdom[v] : \A x2 \in sdom[v] : Dm(x2, x)])
              df(x) == {y \in Rr : (\E p \in Rr : y \in Succ(p) /\ Dm(x, p)) /\ ~(x # y /\ Dm(x, y))}
              indeg == LET RECURSIVE Cnt(_) Cnt(u) == IF u < 0 THEN 0 ELSE Cardinality({i \in 1..Len(Out(u)) : Out(u)[i] = r}) + Cnt(u - 1) IN Cnt(n - 1)
              indegR == LET RECURSIVE Cnt(_) Cnt(u) == IF u < 0 THEN 0 ELSE (IF u \in Rr THEN Cardinality({i \in 1..Len(Out(u)) : Out(u)[i] = r}) ELSE 0) + Cnt(u - 1) IN Cnt(n - 1)
              care == IF indeg = 1 \/ indegR = 1 THEN {r} ELSE {}
          IN /\ ev.panicked = 0
             /\ ev.idom = [i \in 1..n |-> idom[i - 1]]
             /\ \A x \in Rr : SeqToSet(ev.df[x + 1]) \ care = df(x) \ care
             \* Dom: the tree's child lists invert IDom (each child once), same numbering
             /\ ev.tn = n /\ ev.tidom = ev.idom
             /\ \A x \in Nodes : /\ SeqToSet(ev.kids[x + 1]) = {v \in Nodes : idom[v] = x}
                                 /\ Cardinality(SeqToSet(ev.kids[x + 1])) = Len(ev.kids[x + 1])
Reset == Ev("Reset") /\ n' = 0 /\ adj' = <<>>
Next == Load \/ Orders \/ SCC \/ Dom \/ Reset
Spec == Init /\ [][Next]_vars
Accepted == TLCGet("stats").diameter - 1 = Len(Trace)
=============================================================================
