CONSTANTS
  MaxNodes = @@MaxNodes@@
  MaxEdges = @@MaxEdges@@
  Ordered = @@Ordered@@
SPECIFICATION Spec
INVARIANTS SubIdentity EmitSub
CHECK_DEADLOCK FALSE
