CONSTANTS
  MaxNodes = @@MaxNodes@@
  MaxEdges = @@MaxEdges@@
  Ordered = @@Ordered@@
SPECIFICATION Spec
INVARIANTS AlgAgrees
CHECK_DEADLOCK FALSE
