-------------------------------- MODULE Graph --------------------------------
(***************************************************************************)
(* Directed multigraphs as the library sees them (graph.IntGraph): node    *)
(* ids 0..n-1 and, per node, an ORDERED list of successor ids (adjacency   *)
(* order matters for depth-first orders; self-loops and parallel edges are *)
(* ordinary list entries).  adj[i+1] is the out-list of node i.            *)
(*                                                                         *)
(* The module DEFINES, from first principles:                              *)
(*   depth-first pre-/post-order and the Euler tour (Orders),              *)
(*   reachability, strongly connected components and the condensation,    *)
(*   the transpose, dominance by node deletion, immediate dominators,      *)
(*   dominance frontiers, SubgraphKeep / SubgraphRemove and their maps.    *)
(* The state machine builds graphs edge by edge so that TLC enumerates     *)
(* every graph within the bounds exactly once (generation through Next so  *)
(* that all workers are used).                                             *)
(***************************************************************************)
EXTENDS Integers, Sequences, FiniteSets, TLC, Json
CONSTANTS MaxNodes,      \* graphs on 1..MaxNodes nodes
          MaxEdges,      \* at most this many edges in total
          Ordered        \* TRUE: every list order incl. duplicates; FALSE: strictly ascending lists (edge sets)
VARIABLES n, adj
vars == <<n, adj>>

Nodes == 0..(n-1)
Out(u) == adj[u+1]
RECURSIVE SumLen(_)
SumLen(s) == IF s = <<>> THEN 0 ELSE Len(Head(s)) + SumLen(Tail(s))
NumEdges == SumLen(adj)
\* the last node that has an out-edge: edges are appended node by node, so every
\* list-of-lists has exactly one construction path
Cur == LET S == {u \in Nodes : Out(u) # <<>>} IN IF S = {} THEN 0 ELSE CHOOSE u \in S : \A w \in S : w <= u

Init == /\ n \in 1..MaxNodes
        /\ adj = [i \in 1..n |-> <<>>]
AddEdge(u, v) == /\ adj' = [adj EXCEPT ![u+1] = Append(@, v)]
                 /\ UNCHANGED n
Next == /\ NumEdges < MaxEdges
        /\ \E u \in Nodes, v \in Nodes :
             /\ u >= Cur
             /\ (IF Ordered \/ Out(u) = <<>> THEN TRUE ELSE v > Out(u)[Len(Out(u))])
             /\ AddEdge(u, v)
Spec == Init /\ [][Next]_vars

-----------------------------------------------------------------------------
\* Depth-first orders, following adjacency order over the part reachable from the root
RECURSIVE Visit(_,_), VisitList(_,_)
Visit(st, u) ==
  IF u \in st.vis THEN st
  ELSE LET s1 == [vis |-> st.vis \cup {u}, pre |-> Append(st.pre, u), post |-> st.post,
                  eul |-> Append(st.eul, u + 1)]
           s2 == VisitList(s1, Out(u))
       IN [vis |-> s2.vis, pre |-> s2.pre, post |-> Append(s2.post, u), eul |-> Append(s2.eul, 0 - (u + 1))]
VisitList(st, l) == IF l = <<>> THEN st ELSE VisitList(Visit(st, Head(l)), Tail(l))
DFS(r) == Visit([vis |-> {}, pre |-> <<>>, post |-> <<>>, eul |-> <<>>], r)
\* eul: +(u+1) = Enter(u), -(u+1) = Exit(u)

-----------------------------------------------------------------------------
\* Reachability (by iterating the successor relation), avoiding a set of deleted nodes
Succ(u) == {Out(u)[i] : i \in 1..Len(Out(u))}
RECURSIVE ReachFrom(_,_)
ReachFrom(S, avoid) ==
  LET S2 == S \cup {v \in Nodes : v \notin avoid /\ \E u \in S : v \in Succ(u)}
  IN IF S2 = S THEN S ELSE ReachFrom(S2, avoid)
Reach(r) == ReachFrom({r}, {})
\* strongly connected component of u: the nodes that reach u and are reached by u
Comp(u) == {v \in Reach(u) : u \in Reach(v)}
Comps == {Comp(u) : u \in Nodes}
MinOf(S) == CHOOSE x \in S : \A y \in S : x <= y
Rep(u) == MinOf(Comp(u))
\* condensation: edges between different components, named by their least node
CEdges == {<<Rep(u), Rep(v)>> : u \in Nodes, v \in Nodes} \cap
          {p \in Nodes \X Nodes : p[1] # p[2] /\ \E u \in Comp(p[1]) : \E v \in Comp(p[2]) : v \in Succ(u)}
\* transpose as predecessor bags: how many edges u -> v
Mult(u, v) == Cardinality({i \in 1..Len(Out(u)) : Out(u)[i] = v})
InBag(v) == [u \in Nodes |-> Mult(u, v)]

-----------------------------------------------------------------------------
\* Dominance, by node deletion.  d dominates v (w.r.t. root r) iff d = v or v cannot be reached
\* from r once d is deleted.  The operators below are the definitions; RootInfo evaluates them
\* through a per-root table A[d] = nodes reachable from r avoiding d (same meaning, computed once).
Dominates(r, d, v) == d = v \/ d = r \/ v \notin ReachFrom({r}, {d})
SDom(r, v) == {d \in Reach(r) : d # v /\ Dominates(r, d, v)}
IDomOf(r, v) == IF v = r \/ v \notin Reach(r) THEN -1
                ELSE CHOOSE d \in SDom(r, v) : \A d2 \in SDom(r, v) : Dominates(r, d2, d)
\* dominance frontier of a reachable x
DF(r, x) == {y \in Reach(r) :
               /\ \E p \in Reach(r) : y \in Succ(p) /\ Dominates(r, x, p)
               /\ ~(x # y /\ Dominates(r, x, y))}
RECURSIVE SumMult(_,_)
SumMult(S, v) == IF S = {} THEN 0 ELSE LET u == CHOOSE x \in S : TRUE IN Mult(u, v) + SumMult(S \ {u}, v)
InDeg(v) == SumMult(Nodes, v)

SeqToSet(s) == {s[i] : i \in 1..Len(s)}
RECURSIVE ChainT(_,_,_)
ChainT(idom, v, stop) == IF v = stop \/ v = -1 THEN {} ELSE {v} \cup ChainT(idom, idom[v], stop)
RootInfo(r) ==
  LET d    == DFS(r)
      R    == d.vis
      A    == TLCEval([x \in Nodes |-> IF x = r THEN {} ELSE ReachFrom({r}, {x})])
      Dom(x, v) == x = v \/ x = r \/ v \notin A[x]
      sdom == TLCEval([v \in Nodes |-> {x \in R : x # v /\ Dom(x, v)}])
      cand == TLCEval([v \in Nodes |-> {x \in sdom[v] : \A x2 \in sdom[v] : Dom(x2, x)}])
      idom == TLCEval([v \in Nodes |-> IF v = r \/ v \notin R THEN -1 ELSE CHOOSE x \in cand[v] : TRUE])
      df   == TLCEval([x \in Nodes |-> IF x \notin R THEN {} ELSE
                 {y \in R : /\ \E p \in R : y \in Succ(p) /\ Dom(x, p)
                            /\ ~(x # y /\ Dom(x, y))}])
      \* Cytron et al.: for y with predecessor p, y is in DF(x) for exactly the x on the idom chain from p up to (excluding) idom(y)
      dfw  == [x \in Nodes |-> IF x \notin R THEN {} ELSE
                 {y \in R : \E p \in R : y \in Succ(p) /\ x \in ChainT(idom, p, idom[y])}]
      ok   == /\ R = Reach(r)
              /\ SeqToSet(d.pre) = R /\ Len(d.pre) = Cardinality(R)
              /\ SeqToSet(d.post) = R /\ Len(d.post) = Cardinality(R)
              /\ d.pre[1] = r /\ d.post[Len(d.post)] = r /\ Len(d.eul) = 2 * Len(d.pre)
              /\ \A v \in R \ {r} : Cardinality(cand[v]) = 1          \* the immediate dominator exists and is unique
              /\ \A x \in R : df[x] = dfw[x]                           \* two formulations of the frontier agree
  IN [r |-> r, pre |-> d.pre, post |-> d.post, eul |-> d.eul, reach |-> R,
      idom |-> [i \in 1..n |-> idom[i-1]], df |-> [i \in 1..n |-> df[i-1]],
      rootin |-> InDeg(r), rootinreach |-> SumMult(R, r), ok |-> ok]

\* ---- properties of the definitions themselves (checked by TLC on every graph) ----
CompsPartition == /\ UNION Comps = Nodes
                  /\ \A a, b \in Comps : a = b \/ a \cap b = {}
\* the condensation is acyclic
CondAcyclic == \A p \in CEdges : <<p[2], p[1]>> \notin CEdges
\* the table-based evaluation in RootInfo means what the definitions say (checked on small graphs)
TableAgrees == /\ \A r \in Nodes : LET ri == RootInfo(r) IN
                    \A v \in Nodes : ri.idom[v+1] = IDomOf(r, v) /\ (v \in Reach(r) => ri.df[v+1] = DF(r, v))
               /\ CompsPartition /\ CondAcyclic

-----------------------------------------------------------------------------
\* Subgraphs.  A request names nodes (a sequence without repetition) and edges <<node, index>> (0-based index).
EdgesOf == {<<u, i>> : u \in Nodes, i \in 0..(MaxEdges)} \cap {e \in Nodes \X (0..MaxEdges) : e[2] < Len(Out(e[1]))}
PosOf(s, x) == CHOOSE i \in 1..Len(s) : s[i] = x
\* Keep: new node i-1 is nodes[i]; its out list is the requested edges of that node in request order
RECURSIVE KeepOut(_,_,_)
KeepOut(nodes, edges, u) ==    \* edges: sequence of <<node, idx>>
  IF edges = <<>> THEN <<>>
  ELSE LET e == Head(edges) rest == KeepOut(nodes, Tail(edges), u) IN
       IF e[1] = u THEN <<[to |-> PosOf(nodes, Out(u)[e[2]+1]) - 1, old |-> e[2]]>> \o rest ELSE rest
Keep(nodes, edges) == [i \in 1..Len(nodes) |-> [old |-> nodes[i], out |-> KeepOut(nodes, edges, nodes[i])]]
\* Remove: surviving nodes renumbered ascending; surviving edges in original order
RECURSIVE Asc(_,_)
Asc(S, k) == IF k >= n THEN <<>> ELSE (IF k \in S THEN <<k>> ELSE <<>>) \o Asc(S, k+1)
RemoveOut(keepSeq, rmN, rmE, u) ==
  LET RECURSIVE Go(_)
      Go(i) == IF i > Len(Out(u)) THEN <<>>
               ELSE (IF Out(u)[i] \in rmN \/ <<u, i-1>> \in rmE THEN <<>>
                     ELSE <<[to |-> PosOf(keepSeq, Out(u)[i]) - 1, old |-> i-1]>>) \o Go(i+1)
  IN Go(1)
Remove(rmN, rmE) == LET ks == Asc(Nodes \ rmN, 0) IN
   [i \in 1..Len(ks) |-> [old |-> ks[i], out |-> RemoveOut(ks, rmN, rmE, ks[i])]]
\* request families used for emission
RECURSIVE Desc(_,_)
Desc(S, k) == IF k < 0 THEN <<>> ELSE (IF k \in S THEN <<k>> ELSE <<>>) \o Desc(S, k-1)
ParityEdges(par) == {e \in EdgesOf : (e[1] + e[2]) % 2 = par}
RECURSIVE EdgeSeq(_,_,_)
\* all edges among S whose parity differs from par, listed node-descending, index-descending
EdgeSeqNode(S, par, u, i) == LET RECURSIVE G(_)
      G(j) == IF j < 0 THEN <<>> ELSE (IF Out(u)[j+1] \in S /\ (u + j) % 2 # par THEN <<<<u, j>>>> ELSE <<>>) \o G(j-1)
   IN G(i)
EdgeSeq(S, par, u) == IF u < 0 THEN <<>> ELSE (IF u \in S THEN EdgeSeqNode(S, par, u, Len(Out(u)) - 1) ELSE <<>>) \o EdgeSeq(S, par, u-1)
\* every node subset, once together with half of the edges and once with no explicit edge removal at all
\* (then a kept node loses out-edges only through removed targets)
RemoveRequests ==
  {[nodes |-> S, edges |-> ParityEdges(Cardinality(S) % 2),
    res |-> Remove(S, ParityEdges(Cardinality(S) % 2))] : S \in SUBSET Nodes}
  \cup {[nodes |-> S, edges |-> {}, res |-> Remove(S, {})] : S \in SUBSET Nodes}
KeepRequests ==
  {[nodes |-> Desc(S, n-1), edges |-> EdgeSeq(S, Cardinality(S) % 2, n-1),
    res |-> Keep(Desc(S, n-1), EdgeSeq(S, Cardinality(S) % 2, n-1))] : S \in (SUBSET Nodes) \ {{}}}
\* Keep with every node and every edge (in original order) is the identity; Remove of nothing too
AllEdgeSeq == LET RECURSIVE A(_) 
                  A(u) == IF u >= n THEN <<>> ELSE [j \in 1..Len(Out(u)) |-> <<u, j-1>>] \o A(u+1)
              IN A(0)
SubIdentity == /\ \A i \in 1..n : LET k == Keep(Asc(Nodes, 0), AllEdgeSeq)[i] IN
                     k.old = i-1 /\ [j \in 1..Len(k.out) |-> k.out[j].to] = adj[i]
               /\ \A i \in 1..n : LET k == Remove({}, {})[i] IN
                     k.old = i-1 /\ [j \in 1..Len(k.out) |-> k.out[j].to] = adj[i]

-----------------------------------------------------------------------------
-----------------------------------------------------------------------------
(***************************************************************************)
(* Algorithm layer: the procedures the library actually runs, transcribed  *)
(* step for step, and checked against the definitions above on every       *)
(* enumerated graph (design-level assurance; configuration Graph_alg.cfg). *)
(*   CHK      Cooper-Harvey-Kennedy iterative dominators (graphalg.IDom)   *)
(*   DFCode   the frontier walk of graphalg.DomFrontier                    *)
(*   Tarjan   graphalg.SCC with the low-link / stack discipline            *)
(***************************************************************************)
\* predecessors of b in the order MakeBiGraph lists them (by source node, then edge position)
RECURSIVE PredsFrom(_,_)
PredsFrom(b, u) == IF u >= n THEN <<>>
                   ELSE SelectSeq(Out(u), LAMBDA v : v = b) \o PredsFrom(b, u + 1)
\* SelectSeq keeps the matching targets; each stands for one edge from u, so replace them by u
PredList(b) == LET RECURSIVE P(_)
                   P(u) == IF u >= n THEN <<>> ELSE [i \in 1..Len(SelectSeq(Out(u), LAMBDA v : v = b)) |-> u] \o P(u + 1)
               IN P(0)
PosIn(sq, x) == CHOOSE i \in 1..Len(sq) : sq[i] = x
RECURSIVE Intersect(_,_,_,_)
Intersect(idom, po, b1, b2) ==
   IF b1 = b2 THEN b1
   ELSE IF PosIn(po, b1) < PosIn(po, b2) THEN Intersect(idom, po, idom[b1], b2)
   ELSE Intersect(idom, po, b1, idom[b2])
RECURSIVE FoldPreds(_,_,_,_)
FoldPreds(idom, po, ps, new) == IF ps = <<>> THEN new
   ELSE LET p == Head(ps) IN
        IF idom[p] = -1 THEN FoldPreds(idom, po, Tail(ps), new)
        ELSE FoldPreds(idom, po, Tail(ps), IF new = -1 THEN p ELSE Intersect(idom, po, p, new))
RECURSIVE Sweep(_,_,_,_,_)
\* one pass over the reverse post-order; returns <<idom, changed>>
Sweep(idom, po, r, i, changed) ==
   IF i < 1 THEN <<idom, changed>>
   ELSE LET b == po[i] IN
        IF b = r THEN Sweep(idom, po, r, i - 1, changed)
        ELSE LET nw == FoldPreds(idom, po, PredList(b), -1) IN
             IF idom[b] # nw THEN Sweep([idom EXCEPT ![b] = nw], po, r, i - 1, TRUE)
             ELSE Sweep(idom, po, r, i - 1, changed)
RECURSIVE Iterate(_,_,_,_)
Iterate(idom, po, r, fuel) == LET s == Sweep(idom, po, r, Len(po), FALSE) IN
   IF ~s[2] \/ fuel = 0 THEN <<s[1], fuel>> ELSE Iterate(s[1], po, r, fuel - 1)
CHK(r) == LET po == DFS(r).post
              res == Iterate([v \in Nodes |-> IF v = r THEN r ELSE -1], po, r, 2 * n + 2)
          IN [idom |-> [res[1] EXCEPT ![r] = -1], fuel |-> res[2]]
\* graphalg.DomFrontier: for every reachable b with at least two incoming edges, walk up from each reachable predecessor
RECURSIVE Walk(_,_,_,_,_)
Walk(df, idom, runner, stop, b) == IF runner = stop THEN df
   ELSE Walk([df EXCEPT ![runner] = @ \cup {b}], idom, idom[runner], stop, b)
RECURSIVE WalkPreds(_,_,_,_,_)
WalkPreds(df, idom, r, ps, b) == IF ps = <<>> THEN df
   ELSE LET p == Head(ps) IN
        IF idom[p] = -1 /\ p # r THEN WalkPreds(df, idom, r, Tail(ps), b)
        ELSE WalkPreds(Walk(df, idom, p, idom[b], b), idom, r, Tail(ps), b)
RECURSIVE DFNodes(_,_,_,_)
DFNodes(df, idom, r, b) == IF b >= n THEN df
   ELSE IF (idom[b] = -1 /\ b # r) \/ Len(PredList(b)) < 2 THEN DFNodes(df, idom, r, b + 1)
   ELSE DFNodes(WalkPreds(df, idom, r, PredList(b), b), idom, r, b + 1)
DFCode(r) == DFNodes([v \in Nodes |-> {}], CHK(r).idom, r, 0)

\* Tarjan's algorithm as graphalg.SCC runs it.  st = [low, index, stack, comp, ncomp]
\* low[v] = 0: unvisited; Done: already assigned to a component
Done == 1000000
RECURSIVE Connect(_,_), ConnectOut(_,_,_,_)
ConnectOut(st, nid, outs, mn) ==
   IF outs = <<>> THEN <<st, mn>>
   ELSE LET o == Head(outs)
            s1 == IF st.low[o] = 0 THEN Connect(st, o) ELSE st
            m1 == IF s1.low[o] < mn THEN s1.low[o] ELSE mn
        IN ConnectOut(s1, nid, Tail(outs), m1)
RECURSIVE PopTo(_,_)
PopTo(st, nid) ==   \* pop the stack down to and including nid, giving every popped node the new component id
   LET top == st.stack[Len(st.stack)]
       s1 == [st EXCEPT !.low[top] = Done, !.comp[top] = st.ncomp, !.stack = SubSeq(st.stack, 1, Len(st.stack) - 1)]
   IN IF top = nid THEN s1 ELSE PopTo(s1, nid)
Connect(st, nid) ==
   LET s0 == [st EXCEPT !.low[nid] = st.index, !.index = st.index + 1, !.stack = Append(st.stack, nid)]
       r == ConnectOut(s0, nid, Out(nid), st.index)
       s1 == r[1]  mn == r[2]
   IN IF mn < s1.low[nid] THEN [s1 EXCEPT !.low[nid] = mn]
      ELSE LET s2 == PopTo(s1, nid) IN [s2 EXCEPT !.ncomp = s2.ncomp + 1]
RECURSIVE TarjanFrom(_,_)
TarjanFrom(st, v) == IF v >= n THEN st ELSE TarjanFrom(IF st.low[v] = 0 THEN Connect(st, v) ELSE st, v + 1)
Tarjan == TarjanFrom([low |-> [v \in Nodes |-> 0], index |-> 1, stack |-> <<>>, comp |-> [v \in Nodes |-> -1], ncomp |-> 0], 0)

AlgAgrees ==
  /\ \A r \in Nodes : LET c == CHK(r) IN
        /\ c.fuel > 0                                                          \* the iteration reaches its fixpoint (terminates)
        /\ \A v \in Nodes : c.idom[v] = IDomOf(r, v)
        /\ LET dfc == DFCode(r)  care == IF InDeg(r) = 1 THEN {r} ELSE {} IN
           \A x \in Reach(r) : dfc[x] \ care = DF(r, x) \ care
  /\ LET t == Tarjan IN
        /\ t.stack = <<>>
        /\ \A u, v \in Nodes : (t.comp[u] = t.comp[v]) <=> (Comp(u) = Comp(v))     \* components = classes of mutual reachability
        /\ {t.comp[u] : u \in Nodes} = 0..(t.ncomp - 1)
        /\ \A u \in Nodes : \A v \in Succ(u) : t.comp[u] # t.comp[v] => t.comp[u] > t.comp[v]   \* reverse topological numbering

\* case emission (the invariant is FALSE, i.e. a specification error, if a design check fails)
EmitMain ==
  LET info == [i \in 1..n |-> RootInfo(i-1)]
      RT   == TLCEval([u \in Nodes |-> info[u+1].reach])
      comp == TLCEval([u \in Nodes |-> {v \in RT[u] : u \in RT[v]}])
      rep  == TLCEval([u \in Nodes |-> MinOf(comp[u])])
      ced  == {<<rep[u], rep[v]>> : u \in Nodes, v \in Nodes} \cap
              {p \in Nodes \X Nodes : p[1] # p[2] /\ \E u \in comp[p[1]] : \E v \in comp[p[2]] : v \in Succ(u)}
  IN
  /\ \A i \in 1..n : info[i].ok
  /\ UNION {comp[u] : u \in Nodes} = Nodes
  /\ \A a, b \in Nodes : comp[a] = comp[b] \/ comp[a] \cap comp[b] = {}       \* components partition the nodes
  /\ \A p \in ced : <<p[2], p[1]>> \notin ced                                   \* the condensation is acyclic
  /\ PrintT(ToJson(
       [n |-> n, adj |-> adj, roots |-> info,
        comp |-> [i \in 1..n |-> comp[i-1]],
        cedges |-> ced,
        inbag |-> [i \in 1..n |-> [j \in 1..n |-> Mult(j-1, i-1)]]]))
EmitSub == PrintT(ToJson([n |-> n, adj |-> adj, remove |-> RemoveRequests, keep |-> KeepRequests]))
=============================================================================
