------------------------------ MODULE MarksTrace ------------------------------
(* Trace validation of graphalg.NodeMarks against the set model of Marks.tla:   *)
(* every recorded Mark/Unmark/Test/Next call (ids up to 100000) is one step.    *)
EXTENDS Integers, Sequences, FiniteSets, TLC, Json, IOUtils
CONSTANT TraceFile
Trace == ndJsonDeserialize(TraceFile)
VARIABLES marks, l
vars == <<marks, l>>
Init == marks = {} /\ l = 1
Ev(e) == l <= Len(Trace) /\ Trace[l].op = e /\ l' = l + 1
Mark == Ev("Mark") /\ Trace[l].n >= 0 /\ marks' = marks \cup {Trace[l].n}
Unmark == Ev("Unmark") /\ marks' = marks \ {Trace[l].n}
Test == Ev("Test") /\ UNCHANGED marks /\ Trace[l].r = (IF Trace[l].n \in marks THEN 1 ELSE 0)
NextA == Ev("Next") /\ UNCHANGED marks /\
         LET c == {x \in marks : x > Trace[l].n} IN
         Trace[l].r = (IF c = {} THEN -1 ELSE CHOOSE x \in c : \A y \in c : x <= y)
Reset == Ev("Reset") /\ marks' = {}
Next == Mark \/ Unmark \/ Test \/ NextA \/ Reset
Spec == Init /\ [][Next]_vars
Accepted == TLCGet("stats").diameter - 1 = Len(Trace)
=============================================================================
