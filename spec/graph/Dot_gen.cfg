CONSTANT MaxLen = @@MaxLen@@
SPECIFICATION Spec
INVARIANTS RoundTrip Terminates NoRawNewline Emit
CHECK_DEADLOCK FALSE
