CONSTANTS
  Ids <- IdsDef
  Depth = @@Depth@@
  GrowOK = TRUE
SPECIFICATION Spec
INVARIANTS Refines WalkOK Emit
CHECK_DEADLOCK FALSE
