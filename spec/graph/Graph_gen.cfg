CONSTANTS
  MaxNodes = @@MaxNodes@@
  MaxEdges = @@MaxEdges@@
  Ordered = @@Ordered@@
SPECIFICATION Spec
INVARIANTS EmitMain @@Extra@@
CHECK_DEADLOCK FALSE
