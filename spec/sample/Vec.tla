--------------------------------- MODULE Vec ---------------------------------
(* The vec helpers by their defining identities (exact rationals):               *)
(*   Linspace(lo,hi,n)[i] = lo + i (hi-lo)/(n-1), i = 0..n-1 ; n = 1 gives <<lo>> *)
(*   Logspace = base ^ Linspace ; Sum ; Map / Vectorize apply f pointwise ;       *)
(*   Concat is sequence concatenation.                                            *)
EXTENDS Integers, Sequences, TLC, Json, SmallRat
CONSTANTS Ends, Nums
VARIABLES lo, hi, n
vars == <<lo, hi, n>>
Init == lo \in Ends /\ hi = 0 /\ n = -1
PickHi == n = -1 /\ \E h \in Ends : hi' = h /\ n' = 0 /\ UNCHANGED lo
PickN == n = 0 /\ \E k \in Nums : n' = k /\ UNCHANGED <<lo, hi>>
Next == PickHi \/ PickN
Spec == Init /\ [][Next]_vars
Linspace(a, b, k) == IF k = 1 THEN <<QI(a)>> ELSE [i \in 1..k |-> QAdd(QI(a), QN((i - 1) * (b - a), k - 1))]
RECURSIVE SumQ(_)
SumQ(s) == IF s = <<>> THEN QI(0) ELSE QAdd(Head(s), SumQ(Tail(s)))
\* laws: end points, equal spacing, symmetry under reversal, arithmetic-series sum
Laws == n > 0 => LET v == Linspace(lo, hi, n) IN
   /\ Len(v) = n /\ v[1] = QI(lo) /\ (n > 1 => v[n] = QI(hi))
   /\ \A i \in 1..(n - 2) : QSub(v[i + 1], v[i]) = QSub(v[i + 2], v[i + 1])
   /\ LET w == Linspace(hi, lo, n) IN n > 1 => \A i \in 1..n : w[i] = v[n + 1 - i]
   /\ n > 1 => SumQ(v) = QN(n * (lo + hi), 2)
Emit == n > 0 => PrintT(ToJson([lo |-> lo, hi |-> hi, n |-> n, lin |-> Linspace(lo, hi, n), sum |-> SumQ(Linspace(lo, hi, n))]))
EndsDef == {-7, -1, 0, 2, 3, 10}
\* lengths: small ones, and the sizes around powers of two and up to the statement's 200 where a blocked or parallel
\* implementation would change regime
NumsQuick == {1, 2, 3, 4, 5, 8, 11, 31, 32, 33, 63, 64, 65, 100, 127, 128, 129, 130, 131, 199, 200}
NumsThorough == (1..260) \cup {511, 512, 513, 1000, 1023, 1025}
=============================================================================
