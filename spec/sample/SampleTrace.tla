----------------------------- MODULE SampleTrace -----------------------------
(***************************************************************************)
(* Trace validation of stats.Sample: recorded histories of New / Sort /    *)
(* Copy and queries on samples of up to a few hundred integer values are   *)
(* replayed through the Sample design.  Sort is relational (ascending,     *)
(* pair bag unchanged, same storage), Copy yields an equal object on       *)
(* disjoint storage, and every query reply is compared -- as the exact     *)
(* dyadic value of the returned float64 -- with the exact rational value   *)
(* of the bag.  Levels q are multiples of 1/1024 (exact in binary).        *)
(***************************************************************************)
EXTENDS BigInt, FiniteSets, Json, IOUtils
CONSTANT TraceFile
Trace == ndJsonDeserialize(TraceFile)
VARIABLES obj, l
vars == <<obj, l>>
Init == obj = <<>> /\ l = 1

Wt(o, i) == IF o.weighted = 0 THEN 1 ELSE o.ws[i]
Ascending(s) == \A i \in 1..(Len(s) - 1) : s[i] <= s[i + 1]
\* multiset equality of pair sequences, through counting
PairsOf(xs, ws, weighted) == [i \in 1..Len(xs) |-> <<xs[i], IF weighted = 0 THEN 1 ELSE ws[i]>>]
SameBag(p, q) == /\ Len(p) = Len(q)
                 /\ LET S == {p[i] : i \in 1..Len(p)} IN
                    /\ S = {q[i] : i \in 1..Len(q)}
                    /\ \A e \in S : Cardinality({i \in 1..Len(p) : p[i] = e}) = Cardinality({i \in 1..Len(q) : q[i] = e})
\* insertion sort of pairs by value (stable): computed once per New
RECURSIVE Insert(_,_)
Insert(s, p) == IF s = <<>> THEN <<p>> ELSE IF p[1] < Head(s)[1] THEN <<p>> \o s ELSE <<Head(s)>> \o Insert(Tail(s), p)
RECURSIVE SortP(_,_)
SortP(ps, i) == IF i = 0 THEN <<>> ELSE Insert(SortP(ps, i - 1), ps[i])
MkObj(xs, ws, weighted, sorted) ==
   [xs |-> xs, ws |-> ws, weighted |-> weighted, sorted |-> sorted,
    srt |-> LET ps == PairsOf(xs, ws, weighted) IN SortP(ps, Len(ps))]

RECURSIVE SumW(_,_), SumWX(_,_), SumXX(_,_)
SumW(o, i) == IF i = 0 THEN 0 ELSE Wt(o, i) + SumW(o, i - 1)
SumWX(o, i) == IF i = 0 THEN SZero ELSE SAdd(SMul(SFrom(Wt(o, i)), SFrom(o.xs[i])), SumWX(o, i - 1))
SumXX(o, i) == IF i = 0 THEN SZero ELSE SAdd(SMul(SFrom(o.xs[i]), SFrom(o.xs[i])), SumXX(o, i - 1))
Live(o) == {o.srt[i][1] : i \in {j \in 1..Len(o.srt) : o.srt[j][2] > 0}}
MinOf(S) == CHOOSE x \in S : \A y \in S : x <= y
MaxOf(S) == CHOOSE x \in S : \A y \in S : x >= y
IAbs(a) == IF a < 0 THEN 0 - a ELSE a
Scale(o) == IF Live(o) = {} THEN <<1>> ELSE
            LET a == IAbs(MinOf(Live(o))) b == IAbs(MaxOf(Live(o))) IN FromNat(IF a > b THEN a ELSE IF b = 0 THEN 1 ELSE b)
NatRat(a) == [n |-> SNat(a), d |-> <<1>>]
IntRat(i) == [n |-> SFrom(i), d |-> <<1>>]
Fin(r) == r.c = "fin"
IsNaN(r) == r.c = "nan"
Near(r, y, o, k) == Fin(r) /\ DyClose(r.d, y, NatRat(Scale(o)), k)

\* type-8 quantile at q = a/1024 on the sorted values: exact rational
R8(o, a) == LET n == Len(o.srt)  x(k) == o.srt[k][1]
                hnum == (3 * n + 1) * a + 1024  hden == 3 * 1024  k == hnum \div hden
            IN IF a <= 0 \/ k <= 0 THEN IntRat(x(1)) ELSE IF a >= 1024 \/ k >= n THEN IntRat(x(n))
               ELSE [n |-> SAdd(SMul(SFrom(x(k)), SFrom(hden)), SMul(SFrom(hnum - k * hden), SFrom(x(k + 1) - x(k)))), d |-> FromNat(hden)]
RECURSIVE FirstOver(_,_,_,_)
FirstOver(o, i, cum, target) ==      \* first index whose cumulative weight * 1024 exceeds a * W
   IF i > Len(o.srt) THEN Len(o.srt)
   ELSE IF (cum + o.srt[i][2]) * 1024 > target THEN i ELSE FirstOver(o, i + 1, cum + o.srt[i][2], target)
QW(o, a) == IF a <= 0 THEN IntRat(MinOf(Live(o))) ELSE IF a >= 1024 THEN IntRat(MaxOf(Live(o)))
            ELSE IntRat(o.srt[FirstOver(o, 1, 0, a * SumW(o, Len(o.xs)))][1])
QuantileOf(o, a) == IF o.weighted = 1 THEN QW(o, a) ELSE R8(o, a)

ReplyOK(o, ev) ==
  LET n == Len(o.xs)  r == ev.r IN
  CASE ev.f = "Mean" -> IF n = 0 THEN IsNaN(r) ELSE Near(r, [n |-> SumWX(o, n), d |-> FromNat(SumW(o, n))], o, 36)
    [] ev.f = "Sum" -> Near(r, [n |-> SumWX(o, n), d |-> <<1>>], o, 30)
    [] ev.f = "Weight" -> Fin(r) /\ DyRat(r.d) = IntRat(SumW(o, n))
    [] ev.f = "Min" -> IF Live(o) = {} THEN IsNaN(r) ELSE Fin(r) /\ REq(DyRat(r.d), IntRat(MinOf(Live(o))))
    [] ev.f = "Max" -> IF Live(o) = {} THEN IsNaN(r) ELSE Fin(r) /\ REq(DyRat(r.d), IntRat(MaxOf(Live(o))))
    [] ev.f = "Variance" -> IF n = 0 THEN IsNaN(r) ELSE IF n = 1 THEN Fin(r) /\ r.d.s = 0
         ELSE Fin(r) /\ DyClose(r.d, [n |-> SSub(SMul(SFrom(n), SumXX(o, n)), SMul(SumWX(o, n), SumWX(o, n))), d |-> FromNat(n * (n - 1))],
                                NatRat(Mul(Scale(o), Scale(o))), 30)
    [] ev.f = "Quantile" -> IF n = 0 THEN IsNaN(r) ELSE Near(r, QuantileOf(o, ev.a), o, 36)
    [] ev.f = "IQR" -> Near(r, RSub(QuantileOf(o, 768), QuantileOf(o, 256)), o, 35)

Ev(e) == l <= Len(Trace) /\ Trace[l].op = e /\ l' = l + 1
Reset == Ev("Reset") /\ obj' = <<>>
New == /\ Ev("New") /\ LET ev == Trace[l] IN
          /\ ev.i = Len(obj) + 1
          /\ (ev.sorted = 1 => Ascending(ev.xs))                 \* the driver's obligation
          /\ obj' = Append(obj, MkObj(ev.xs, ev.ws, ev.weighted, ev.sorted))
Sort == /\ Ev("Sort") /\ LET ev == Trace[l]  o == obj[ev.i] IN
           /\ Ascending(ev.xs) /\ ev.sorted = 1 /\ ev.samestore = 1 /\ ev.retself = 1
           /\ SameBag(PairsOf(ev.xs, ev.ws, o.weighted), PairsOf(o.xs, o.ws, o.weighted))
           /\ obj' = [obj EXCEPT ![ev.i] = [@ EXCEPT !.xs = ev.xs, !.ws = ev.ws, !.sorted = 1]]
Copy == /\ Ev("Copy") /\ LET ev == Trace[l]  o == obj[ev.i] IN
           /\ ev.j = Len(obj) + 1 /\ ev.xs = o.xs /\ ev.ws = o.ws /\ ev.sorted = o.sorted /\ ev.disjoint = 1
           /\ obj' = Append(obj, o)
\* the caller writes into Xs in place (same length; objects not flagged as sorted): the object is the new data from now on
Poke == /\ Ev("Poke") /\ LET ev == Trace[l]  o == obj[ev.i] IN
           /\ o.sorted = 0 /\ Len(ev.xs) = Len(o.xs) /\ ev.ws = o.ws
           /\ obj' = [obj EXCEPT ![ev.i] = MkObj(ev.xs, o.ws, o.weighted, 0)]
Query == /\ Ev("Query") /\ LET ev == Trace[l] IN ev.unchanged = 1 /\ ReplyOK(obj[ev.i], ev)
         /\ UNCHANGED obj
Next == Reset \/ New \/ Sort \/ Copy \/ Poke \/ Query
Spec == Init /\ [][Next]_vars
Accepted == TLCGet("stats").diameter - 1 = Len(Trace)
=============================================================================
