CONSTANTS
  Ends <- EndsDef
  Nums <- @@Nums@@
SPECIFICATION Spec
INVARIANTS Laws Emit
CHECK_DEADLOCK FALSE
