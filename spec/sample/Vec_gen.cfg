CONSTANTS
  Ends <- EndsDef
  Nums = {1, 2, 3, 4, 5, 8, 11}
SPECIFICATION Spec
INVARIANTS Laws Emit
CHECK_DEADLOCK FALSE
