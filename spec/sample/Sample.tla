-------------------------------- MODULE Sample --------------------------------
(***************************************************************************)
(* stats.Sample and the slice-level descriptive statistics.                *)
(*                                                                         *)
(* State: a small heap of Sample objects                                   *)
(*    obj[i] = [xs, ws, sorted, store]                                     *)
(* xs a sequence of integers, ws a sequence of non-negative integer        *)
(* weights or <<>> (no weights), sorted the public Sorted flag, store the  *)
(* identity of the backing arrays.  Actions: Sort(i) (in place: ANY        *)
(* arrangement with xs ascending and the bag of (x, w) pairs unchanged),   *)
(* Copy(i) (new object, fresh store), and the queries, which are           *)
(* functions of the BAG of (x, w) pairs only and change nothing.           *)
(* A Sorted flag may be set by the caller only on ascending data.          *)
(***************************************************************************)
EXTENDS Integers, Sequences, FiniteSets, TLC, Json, SmallRat
CONSTANTS Vals,        \* integer values
          MaxLen,      \* longest sample
          WeightVals,  \* weights used in weighted samples
          Depth,       \* number of Sort/Copy operations
          MaxObjs
VARIABLES obj, hist, phase, first
vars == <<obj, hist, phase, first>>

RECURSIVE SumSeq(_)
SumSeq(s) == IF s = <<>> THEN 0 ELSE Head(s) + SumSeq(Tail(s))
Ascending(s) == \A i \in 1..(Len(s) - 1) : s[i] <= s[i + 1]
Wt(o, i) == IF o.ws = <<>> THEN 1 ELSE o.ws[i]
Weighted(o) == o.ws # <<>>
\* the bag of pairs as a function  <<x, w>> -> multiplicity
PairBag(o) == [p \in {<<o.xs[i], Wt(o, i)>> : i \in 1..Len(o.xs)} |->
                 Cardinality({i \in 1..Len(o.xs) : <<o.xs[i], Wt(o, i)>> = p})]
\* canonical ascending arrangement (by value, then weight) -- one of the arrangements Sort may produce
RECURSIVE SortPairs(_)
SortPairs(ps) == IF ps = <<>> THEN <<>> ELSE
   LET m == CHOOSE i \in 1..Len(ps) : \A j \in 1..Len(ps) : ps[i][1] < ps[j][1] \/ (ps[i][1] = ps[j][1] /\ ps[i][2] <= ps[j][2])
   IN <<ps[m]>> \o SortPairs(SubSeq(ps, 1, m - 1) \o SubSeq(ps, m + 1, Len(ps)))
Pairs(o) == [i \in 1..Len(o.xs) |-> <<o.xs[i], Wt(o, i)>>]

\* ---- definitions of the queries (functions of the bag) ----
NaN == [nan |-> TRUE]
Val(q) == [nan |-> FALSE, v |-> q]
TotW(o) == LET RECURSIVE S(_) S(i) == IF i = 0 THEN 0 ELSE Wt(o, i) + S(i - 1) IN S(Len(o.xs))
SumWX(o) == LET RECURSIVE S(_) S(i) == IF i = 0 THEN 0 ELSE Wt(o, i) * o.xs[i] + S(i - 1) IN S(Len(o.xs))
SumSq(o) == LET RECURSIVE S(_) S(i) == IF i = 0 THEN 0 ELSE o.xs[i] * o.xs[i] + S(i - 1) IN S(Len(o.xs))
Mean(o) == IF Len(o.xs) = 0 THEN NaN ELSE Val(QN(SumWX(o), TotW(o)))
Variance(o) == LET n == Len(o.xs) IN                    \* unweighted only (the weighted form is not implemented)
   IF n = 0 THEN NaN ELSE IF n = 1 THEN Val(QI(0)) ELSE Val(QN(n * SumSq(o) - SumSeq(o.xs) * SumSeq(o.xs), n * (n - 1)))
Sum(o) == QI(SumWX(o))
Weight(o) == QI(TotW(o))
Live(o) == {o.xs[i] : i \in {j \in 1..Len(o.xs) : Wt(o, j) > 0}}      \* zero-weight values are ignored by Bounds
MinOf(S) == CHOOSE x \in S : \A y \in S : x <= y
MaxOf(S) == CHOOSE x \in S : \A y \in S : x >= y
BoundsOf(o) == IF Live(o) = {} THEN NaN ELSE [nan |-> FALSE, lo |-> MinOf(Live(o)), hi |-> MaxOf(Live(o))]
\* Hyndman-Fan type 8, q = qn/qd:  h = ((3n+1) qn + qd) / (3 qd)
QuantileU(o, qn, qd) ==
  LET n == Len(o.xs)  srt == SortPairs(Pairs(o))
      x(k) == srt[k][1]
      hnum == (3 * n + 1) * qn + qd   hden == 3 * qd
      k == hnum \div hden
  IN IF n = 0 THEN {NaN}
     ELSE IF qn <= 0 THEN {Val(QI(x(1)))} ELSE IF qn >= qd THEN {Val(QI(x(n)))}
     ELSE IF k <= 0 THEN {Val(QI(x(1)))} ELSE IF k >= n THEN {Val(QI(x(n)))}
     ELSE {Val(QAdd(QI(x(k)), QMul(QN(hnum - k * hden, hden), QI(x(k + 1) - x(k)))))}
\* weighted: the first value in ascending order whose cumulative weight exceeds q W; when the cumulative weight
\* EQUALS q W and q is not a dyadic rational the float product W*q may round either way: both neighbours admissible
IsDyadic(qd) == \E e \in 0..10 : qd = 2 ^ e
QuantileW(o, qn, qd) ==
  LET n == Len(o.xs)  srt == SortPairs(Pairs(o))  W == TotW(o)
      RECURSIVE Cum(_)
      Cum(i) == IF i = 0 THEN 0 ELSE srt[i][2] + Cum(i - 1)
      live == {i \in 1..n : srt[i][2] > 0}
      firstOver == {i \in 1..n : Cum(i) * qd > qn * W /\ \A j \in 1..(i - 1) : Cum(j) * qd <= qn * W}
      firstAtOrOver == {i \in 1..n : Cum(i) * qd >= qn * W /\ \A j \in 1..(i - 1) : Cum(j) * qd < qn * W}
  IN IF n = 0 THEN {NaN}
     ELSE IF qn <= 0 THEN {Val(QI(MinOf(Live(o))))} ELSE IF qn >= qd THEN {Val(QI(MaxOf(Live(o))))}
     ELSE {Val(QI(srt[i][1])) : i \in firstOver} \cup
          (IF IsDyadic(qd) THEN {} ELSE {Val(QI(srt[i][1])) : i \in firstAtOrOver})
Quantile(o, qn, qd) == IF Weighted(o) THEN QuantileW(o, qn, qd) ELSE QuantileU(o, qn, qd)
\* q levels: below 0, 0, sixteenths, thirds, above 1 (the R8 break points (3k-1)/(3n+1) are added per sample)
QLevels(o) == {<<-1, 2>>, <<0, 1>>, <<1, 1>>, <<3, 2>>} \cup {<<j, 16>> : j \in 1..15} \cup {<<1, 3>>, <<2, 3>>} \cup
              {<<3 * k - 1, 3 * Len(o.xs) + 1>> : k \in 1..Len(o.xs)}

\* ---- state machine ----
Init == obj = <<>> /\ hist = <<>> /\ phase = "build" /\ first = <<>>
\* building the first object value by value (so that TLC's workers share the enumeration)
Start == /\ phase = "build" /\ obj = <<>>
         /\ \E w \in {"nil", "weights"} : obj' = <<[xs |-> <<>>, ws |-> <<>>, sorted |-> FALSE, store |-> 1, weighted |-> (w = "weights")]>>
         /\ UNCHANGED <<hist, phase, first>>
Grow == /\ phase = "build" /\ obj # <<>> /\ Len(obj[1].xs) < MaxLen
        /\ \E v \in Vals : \E w \in (IF obj[1].weighted THEN WeightVals ELSE {1}) :
             obj' = <<[obj[1] EXCEPT !.xs = Append(@, v), !.ws = IF obj[1].weighted THEN Append(@, w) ELSE <<>>]>>
        /\ UNCHANGED <<hist, phase, first>>
\* the caller may set Sorted only on ascending data
Seal == /\ phase = "build" /\ obj # <<>>
        /\ (obj[1].weighted => TotW(obj[1]) > 0 \/ obj[1].xs = <<>>)
        /\ \E f \in {FALSE, TRUE} : (f => Ascending(obj[1].xs)) /\ obj' = <<[obj[1] EXCEPT !.sorted = f]>> /\ first' = obj'
        /\ phase' = "run" /\ UNCHANGED hist
Sort(i) == /\ phase = "run" /\ Len(hist) < Depth
           /\ LET srt == SortPairs(Pairs(obj[i])) IN
              obj' = [obj EXCEPT ![i] = [@ EXCEPT !.xs = [k \in 1..Len(srt) |-> srt[k][1]],
                                                   !.ws = IF Weighted(obj[i]) THEN [k \in 1..Len(srt) |-> srt[k][2]] ELSE <<>>,
                                                   !.sorted = TRUE]]
           /\ hist' = Append(hist, [op |-> "Sort", i |-> i]) /\ UNCHANGED <<phase, first>>
Copy(i) == /\ phase = "run" /\ Len(hist) < Depth /\ Len(obj) < MaxObjs
           /\ obj' = Append(obj, [obj[i] EXCEPT !.store = Len(obj) + 1])
           /\ hist' = Append(hist, [op |-> "Copy", i |-> i]) /\ UNCHANGED <<phase, first>>
Next == Start \/ Grow \/ Seal \/ \E i \in 1..Len(obj) : Sort(i) \/ Copy(i)
Spec == Init /\ [][Next]_vars

\* ---- laws ----
\* Sort keeps the pair bag and the store, orders the values; Copy never shares a store
SortKeepsBag == [][\A i \in 1..Len(obj) : (Len(obj') = Len(obj) /\ phase = "run" /\ obj'[i] # obj[i]) =>
                     /\ PairBag(obj'[i]) = PairBag(obj[i]) /\ Ascending(obj'[i].xs)
                     /\ obj'[i].store = obj[i].store /\ obj'[i].sorted]_vars
StoresDistinct == \A i, j \in 1..Len(obj) : i # j => obj[i].store # obj[j].store
SortedIsTrue == phase = "run" => \A i \in 1..Len(obj) : obj[i].sorted => Ascending(obj[i].xs)
\* quantile laws: between min and max, non-decreasing in q
QuantileLaws == phase = "run" => \A i \in 1..Len(obj) : LET o == obj[i] IN
   (Len(o.xs) > 0 /\ ~Weighted(o)) =>
      /\ \A q \in QLevels(o) : \A r \in QuantileU(o, q[1], q[2]) :
            QLe(QI(MinOf(Live(o))), r.v) /\ QLe(r.v, QI(MaxOf(Live(o))))
      /\ \A q1 \in QLevels(o), q2 \in QLevels(o) : q1[1] * q2[2] <= q2[1] * q1[2] =>
            \A r1 \in QuantileU(o, q1[1], q1[2]), r2 \in QuantileU(o, q2[1], q2[2]) : QLe(r1.v, r2.v)
\* integer weights = repetition: Mean, Sum, Weight, Bounds of the weighted sample equal those of the expanded one
RECURSIVE Rep(_,_)
Rep(x, k) == IF k = 0 THEN <<>> ELSE <<x>> \o Rep(x, k - 1)
RECURSIVE Expand(_,_)
Expand(o, i) == IF i > Len(o.xs) THEN <<>> ELSE Rep(o.xs[i], Wt(o, i)) \o Expand(o, i + 1)
Expanded(o) == [xs |-> Expand(o, 1), ws |-> <<>>, sorted |-> FALSE, store |-> 0, weighted |-> FALSE]
WeightsAreRepetition == phase = "run" => \A i \in 1..Len(obj) : LET o == obj[i] e == Expanded(o) IN
   Weighted(o) => Mean(o) = Mean(e) /\ Sum(o) = Sum(e) /\ Weight(o) = Weight(e) /\ BoundsOf(o) = BoundsOf(e)

ObjRec(o) == [xs |-> o.xs, ws |-> o.ws, weighted |-> Weighted(o), sorted |-> o.sorted, store |-> o.store,
              mean |-> Mean(o), var |-> IF Weighted(o) THEN NaN ELSE Variance(o), sum |-> Sum(o), weight |-> Weight(o),
              bounds |-> BoundsOf(o),
              qs |-> {[q |-> q, r |-> Quantile(o, q[1], q[2])] : q \in QLevels(o)}]
Emit == phase = "run" => PrintT(ToJson([init |-> [xs |-> first[1].xs, ws |-> first[1].ws, weighted |-> first[1].weighted, sorted |-> first[1].sorted], h |-> hist, objs |-> [i \in 1..Len(obj) |-> ObjRec(obj[i])]]))
ValsDef == {-2, 0, 1, 3}
=============================================================================
