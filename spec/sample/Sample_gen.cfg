CONSTANTS
  Vals <- ValsDef
  MaxLen = @@MaxLen@@
  WeightVals = @@WeightVals@@
  Depth = @@Depth@@
  MaxObjs = @@MaxObjs@@
SPECIFICATION Spec
INVARIANTS StoresDistinct SortedIsTrue QuantileLaws WeightsAreRepetition Emit
PROPERTY SortKeepsBag
CHECK_DEADLOCK FALSE
