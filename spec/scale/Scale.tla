-------------------------------- MODULE Scale --------------------------------
(***************************************************************************)
(* scale.Linear, scale.Log, scale.QQ: mapping a domain onto [0,1].         *)
(*                                                                         *)
(* State: a source scale and (for QQ) a destination scale, each            *)
(*    [kind, min, max, base, clamp]                                        *)
(* with SetClamp as the only state-changing action (Nice and Ticks live in *)
(* spec/ticks).  Linear domains and points are small integers (the harness *)
(* rescales them by powers of two over 1e-12..1e12); Log domains and       *)
(* points live on the power lattice  sign * base^k, where                  *)
(*    Map(sign * base^k) = (k - kmin)/(kmax - kmin)        exactly.        *)
(* NewLog(min, max, base) is accepted iff base >= 2 and 0 is not in the    *)
(* closed range between min and max (it orders its arguments).             *)
(***************************************************************************)
EXTENDS Integers, Sequences, FiniteSets, TLC, Json, SmallRat
CONSTANTS LinEnds, LogExps, LogBases, DestSet
VARIABLES src, dst, done
vars == <<src, dst, done>>
Null == [null |-> TRUE]

NaN == [nan |-> TRUE]
V(q) == [nan |-> FALSE, v |-> q]
Clamp01(q) == IF QLt(q, QI(0)) THEN QI(0) ELSE IF QLt(QI(1), q) THEN QI(1) ELSE q
\* ---- Linear ----
LinMap(s, x) == IF s.min = s.max THEN V(QN(1, 2))
                ELSE LET y == QN(x - s.min, s.max - s.min) IN V(IF s.clamp THEN Clamp01(y) ELSE y)
LinUnmap(s, y) == QAdd(QMul(y, QI(s.max - s.min)), QI(s.min))          \* y rational
\* ---- Log on the power lattice: a point is [sign, k] meaning sign * base^k; sign 0 means the value 0 ----
LogMap(s, p) == IF p.sign # s.sign THEN NaN                             \* zero or the wrong sign
                ELSE IF s.kmin = s.kmax THEN V(QN(1, 2))
                ELSE LET y == QN(p.k - s.kmin, s.kmax - s.kmin) IN V(IF s.clamp THEN Clamp01(y) ELSE y)
\* Unmap(y) = sign * base^(kmin + y (kmax - kmin)): the exponent as a rational
LogUnmapExp(s, y) == QAdd(QI(s.kmin), QMul(y, QI(s.kmax - s.kmin)))
\* NewLog acceptance for integer arguments
NewLogOK(mn, mx, base) == LET lo == IF mn > mx THEN mx ELSE mn  hi == IF mn > mx THEN mn ELSE mx IN
                          base >= 2 /\ ~(lo <= 0 /\ hi >= 0)

LinScales == {[kind |-> "lin", min |-> a, max |-> b, clamp |-> c] : a \in LinEnds, b \in LinEnds, c \in BOOLEAN}
LogScales == {[kind |-> "log", base |-> B, sign |-> sg, kmin |-> a, kmax |-> b, clamp |-> c] :
                 B \in LogBases, sg \in {-1, 1}, a \in LogExps, b \in LogExps, c \in BOOLEAN}
LinPoints(s) == LET lo == IF s.min < s.max THEN s.min ELSE s.max  hi == IF s.min < s.max THEN s.max ELSE s.min  w == hi - lo
                IN {lo - 2 * w - 3, lo - 1, lo, lo + 1, hi - 1, hi, hi + 1, hi + 2 * w + 5} \cup (IF w >= 4 THEN {lo + w \div 2, lo + w \div 4} ELSE {})
LogPoints(s) == {[sign |-> sg, k |-> k] : sg \in {-1, 1}, k \in {s.kmin - 3, s.kmin - 1, s.kmin, s.kmin + 1, s.kmax - 1, s.kmax, s.kmax + 2}} \cup {[sign |-> 0, k |-> 0]}
Ys == {QN(-1, 1), QN(0, 1), QN(1, 4), QN(1, 2), QN(1, 1), QN(5, 2)}

Map(s, p) == IF s.kind = "lin" THEN LinMap(s, p) ELSE LogMap(s, p)
Points(s) == IF s.kind = "lin" THEN LinPoints(s) ELSE LogPoints(s)
\* Unmap as a descriptor: linear -> exact value; log -> sign * base^exponent
Unmap(s, y) == IF s.kind = "lin" THEN [kind |-> "lin", v |-> LinUnmap(s, y)]
               ELSE [kind |-> "log", sign |-> s.sign, base |-> s.base, e |-> LogUnmapExp(s, y)]

Init == src = Null /\ dst = Null /\ done = FALSE
PickSrc == src = Null /\ \E s \in LinScales \cup LogScales : src' = s /\ UNCHANGED <<dst, done>>
PickDst == src # Null /\ dst = Null /\ \E d \in DestSet : dst' = d /\ UNCHANGED <<src, done>>
\* SetClamp is the in-place operation of a scale
SetClamp(b) == src # Null /\ dst = Null /\ src.clamp # b /\ src' = [src EXCEPT !.clamp = b] /\ UNCHANGED <<dst, done>>
Finish == dst # Null /\ ~done /\ done' = TRUE /\ UNCHANGED <<src, dst>>
Next == PickSrc \/ PickDst \/ (\E b \in BOOLEAN : SetClamp(b)) \/ Finish
Spec == Init /\ [][Next]_vars

\* ---- laws ----
Degenerate(s) == IF s.kind = "lin" THEN s.min = s.max ELSE s.kmin = s.kmax
Laws == (src # Null /\ ~Degenerate(src)) =>
  /\ src.kind = "lin" =>
       /\ LinMap([src EXCEPT !.clamp = FALSE], src.min).v = QI(0) /\ LinMap([src EXCEPT !.clamp = FALSE], src.max).v = QI(1)
       /\ \A x \in LinPoints(src), x2 \in LinPoints(src) : x < x2 =>             \* strictly monotone, direction = sign(max - min)
            LET u == [src EXCEPT !.clamp = FALSE] IN
            IF src.min < src.max THEN QLt(LinMap(u, x).v, LinMap(u, x2).v) ELSE QLt(LinMap(u, x2).v, LinMap(u, x).v)
       /\ \A x \in LinPoints(src) : LinUnmap(src, LinMap([src EXCEPT !.clamp = FALSE], x).v) = QI(x)      \* Unmap inverts Map
       /\ \A x \in LinPoints(src) : LET y == LinMap([src EXCEPT !.clamp = FALSE], x).v  yc == LinMap([src EXCEPT !.clamp = TRUE], x).v IN
            /\ QLe(QI(0), yc) /\ QLe(yc, QI(1)) /\ ((QLe(QI(0), y) /\ QLe(y, QI(1))) => yc = y)
  /\ src.kind = "log" =>
       /\ LogMap([src EXCEPT !.clamp = FALSE], [sign |-> src.sign, k |-> src.kmin]).v = QI(0)
       /\ LogMap([src EXCEPT !.clamp = FALSE], [sign |-> src.sign, k |-> src.kmax]).v = QI(1)
       /\ \A p \in LogPoints(src) : p.sign = src.sign =>
            LogUnmapExp(src, LogMap([src EXCEPT !.clamp = FALSE], p).v) = QI(p.k)

PointRec(p) == LET y == Map(src, p) IN
   [p |-> p, y |-> y,
    \* QQ.Map = Dest.Unmap(Src.Map(p))
    qq |-> IF y.nan THEN [kind |-> "nan"] ELSE Unmap(dst, y.v)]
YRec(y) == [y |-> y, x |-> Unmap(src, y)]
Emit == done => PrintT(ToJson([src |-> src, dst |-> dst, pts |-> {PointRec(p) : p \in Points(src)}, ys |-> {YRec(y) : y \in Ys}]))

LinEndsDef == {-3, 0, 1, 4, 10}
LogExpsQuick == {-2, 0, 1, 3}
LogExpsThorough == {-12, -3, -2, 0, 1, 3, 7, 12}
DestDef == {[kind |-> "lin", min |-> 0, max |-> 8, clamp |-> FALSE], [kind |-> "lin", min |-> 5, max |-> -3, clamp |-> FALSE],
            [kind |-> "log", base |-> 10, sign |-> 1, kmin |-> -1, kmax |-> 3, clamp |-> FALSE],
            [kind |-> "log", base |-> 2, sign |-> -1, kmin |-> 4, kmax |-> 0, clamp |-> FALSE]}
\* NewLog acceptance table
NewLogCases == {[mn |-> a, mx |-> b, base |-> B, ok |-> NewLogOK(a, b, B)] : a \in {-100, -1, 0, 1, 5, 100}, b \in {-100, -1, 0, 1, 5, 100}, B \in {-3, 0, 1, 2, 10}}
EmitNewLog == src = Null => PrintT(ToJson([newlog |-> NewLogCases]))
=============================================================================
