------------------------------ MODULE ScaleTrace ------------------------------
(***************************************************************************)
(* Laws of scale.Linear, scale.Log and scale.QQ on recorded evaluations at *)
(* random domains (|Min|, |Max| in 1e-12..1e12, both orders, both signs    *)
(* for Log) and random points off every lattice.  A scale object is the    *)
(* state [kind, min, max, clamp]; SetScale / SetClamp change it, the other *)
(* events are queries that leave it alone.                                 *)
(*   Ends    Map(Min) = 0, Map(Max) = 1 (0.5 for a degenerate domain)      *)
(*   Sweep   Map is strictly monotone with the orientation of the domain   *)
(*           (non-strict, within [0,1], when clamped)                      *)
(*   Mid     Linear: Map((a+b)/2) = (Map(a)+Map(b))/2 ; Log: the same for  *)
(*           the geometric mean a, 2a, 4a                                  *)
(*   Inv     Unmap(Map(x)) = x when not clamped away                       *)
(*   Clamp   clamped Map = unclamped Map confined to [0,1]                 *)
(*   Bad     Log.Map of zero or the wrong sign is NaN                      *)
(*   QQ      QQ.Unmap(QQ.Map(x)) = x ; QQ.Map = Dest.Unmap(Src.Map(x))     *)
(***************************************************************************)
EXTENDS BigInt, Json, IOUtils
CONSTANT TraceFile
Trace == ndJsonDeserialize(TraceFile)
VARIABLES sc, last, l
vars == <<sc, last, l>>
NoScale == [kind |-> "none"]
None == [valid |-> FALSE]
Init == sc = NoScale /\ last = None /\ l = 1
Fin(v) == v.c = "fin"
V(v) == DyRat(v.d)
Zero == RatI(0, 1)
One == RatI(1, 1)
Half == RatI(1, 2)
Tol9 == RatI(1, 1000000000)
Near9(x, y) == RLe(RAbs(RSub(x, y)), Tol9)
Clamp01(q) == IF RLt(q, Zero) THEN Zero ELSE IF RLt(One, q) THEN One ELSE q
Ev(e) == l <= Len(Trace) /\ Trace[l].op = e /\ l' = l + 1
Increasing == RLt(V(sc.min), V(sc.max))
Degenerate == V(sc.min) = V(sc.max)

SetScale == /\ Ev("SetScale") /\ sc' = [kind |-> Trace[l].kind, min |-> Trace[l].min, max |-> Trace[l].max, clamp |-> Trace[l].clamp]
            /\ last' = None
SetClamp == /\ Ev("SetClamp") /\ sc.kind # "none" /\ sc' = [sc EXCEPT !.clamp = Trace[l].clamp] /\ Trace[l].after = Trace[l].clamp
            /\ last' = None
Ends == /\ Ev("Ends") /\ UNCHANGED sc /\ last' = None
        /\ LET ev == Trace[l] IN
           IF Degenerate THEN Near9(V(ev.y0), Half) /\ Near9(V(ev.y1), Half)
           ELSE Near9(V(ev.y0), Zero) /\ Near9(V(ev.y1), One)
\* ascending x; y must move with the orientation of the domain
Sweep == /\ Ev("Sweep") /\ UNCHANGED sc
         /\ LET ev == Trace[l] IN
            /\ Fin(ev.y)
            /\ (sc.clamp = 1) => (RLe(Zero, V(ev.y)) /\ RLe(V(ev.y), One))
            /\ (ev.first = 0 /\ last.valid /\ ~Degenerate) =>
                 IF sc.clamp = 1 THEN (IF Increasing THEN RLe(last.y, V(ev.y)) ELSE RLe(V(ev.y), last.y))
                 ELSE (IF Increasing THEN RLt(last.y, V(ev.y)) ELSE RLt(V(ev.y), last.y))
            /\ last' = [valid |-> TRUE, y |-> V(ev.y)]
Mid == /\ Ev("Mid") /\ UNCHANGED sc /\ last' = None
       /\ LET ev == Trace[l] IN Fin(ev.ya) /\ Fin(ev.ym) /\ Fin(ev.yb) /\
             RLe(RAbs(RSub(RAdd(V(ev.ya), V(ev.yb)), RAdd(V(ev.ym), V(ev.ym)))), RMul(Tol9, RAdd(RAdd(RAbs(V(ev.ya)), RAbs(V(ev.yb))), One)))
\* x2 = Unmap(Map(x)): relative to the domain width (Linear) or to |x| (Log)
Inv == /\ Ev("Inv") /\ UNCHANGED sc /\ last' = None
       /\ LET ev == Trace[l] IN Fin(ev.x2) /\
             \* Linear: (x - Min) and the product back are each rounded once: a few ulps of |x| + |Min| + |Max|, not 1e-9 of them
             IF sc.kind = "lin" THEN RLe(RAbs(RSub(V(ev.x2), V(ev.x))), RShr(RAdd(RAdd(RAbs(V(sc.max)), RAbs(V(sc.min))), RAbs(V(ev.x))), 46))
             ELSE RLe(RAbs(RSub(V(ev.x2), V(ev.x))), RMul(RatI(1, 10000000), RAbs(V(ev.x))))
Clamp == /\ Ev("Clamp") /\ UNCHANGED sc /\ last' = None
         /\ LET ev == Trace[l] IN Fin(ev.yc) /\ Fin(ev.yu) /\ V(ev.yc) = Clamp01(V(ev.yu))
Bad == Ev("Bad") /\ UNCHANGED sc /\ last' = None /\ Trace[l].y.c = "nan"
QQ == /\ Ev("QQ") /\ UNCHANGED sc /\ last' = None
      /\ LET ev == Trace[l] IN
         /\ ev.z.c = ev.zc.c /\ (Fin(ev.z) => V(ev.z) = V(ev.zc))                         \* QQ.Map is the composition, bit for bit
         /\ (Fin(ev.x2) /\ ev.invertible = 1) => RLe(RAbs(RSub(V(ev.x2), V(ev.x))), RMul(RatI(1, 10000000), RAdd(RAbs(V(ev.x)), RAbs(V(ev.w)))))
Reset == Ev("Reset") /\ sc' = NoScale /\ last' = None
Next == SetScale \/ SetClamp \/ Ends \/ Sweep \/ Mid \/ Inv \/ Clamp \/ Bad \/ QQ \/ Reset
Spec == Init /\ [][Next]_vars
Accepted == TLCGet("stats").diameter - 1 = Len(Trace)
=============================================================================
