CONSTANTS
  LinEnds <- LinEndsDef
  LogExps <- @@LogExps@@
  LogBases = @@LogBases@@
  DestSet <- DestDef
SPECIFICATION Spec
INVARIANTS Laws Emit EmitNewLog
CHECK_DEADLOCK FALSE
