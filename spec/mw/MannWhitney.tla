----------------------------- MODULE MannWhitney -----------------------------
(***************************************************************************)
(* stats.MannWhitneyUTest and stats.UDist.                                 *)
(*                                                                         *)
(* Inputs are abstract: a tie vector T (one positive count per distinct    *)
(* pooled value, ascending) and an allocation r (r[k] of the T[k] copies   *)
(* of value k belong to sample 1).  Everything is counted in units of 2U   *)
(* so that ties (half-integer U) stay integral.                            *)
(*   TwoU(T,r)     2*#{a>b} + #{a=b} over sample1 x sample2                *)
(*   Cnt(T,n1)[u]  number of size-n1 subsets of the pool with 2U = u       *)
(*   LE/GE         cumulative counts; P = LE/C, GE/C, min(1, 2 min(..)/C)  *)
(* The two public limit variables are state: SetLimits changes them and    *)
(* the method (exact / normal approximation) of a Test depends on them.    *)
(***************************************************************************)
EXTENDS Integers, Sequences, FiniteSets, TLC, Json
CONSTANTS MaxN,        \* total pooled size bound
          CrossN,      \* literal-definition cross-checks are evaluated for N <= CrossN
          Configs,     \* set of <<exactLimit, tiesLimit>> pairs reachable through SetLimits
          StartT       \* initial tie vectors: {<<>>} to build every pool up to MaxN, or preset larger pools (then MaxN = 0)
VARIABLES T, n1, exactLimit, tiesLimit
vars == <<T, n1, exactLimit, tiesLimit>>

RECURSIVE SumSeq(_)
SumSeq(s) == IF s = <<>> THEN 0 ELSE Head(s) + SumSeq(Tail(s))
\* binomial coefficients from Pascal's triangle (a constant table, evaluated once): every entry up to C(33,16) fits a TLC
\* integer, which the multiplicative formula's intermediate products do not
RECURSIVE PRow(_)
PRow(n) == IF n = 0 THEN <<1>> ELSE LET p == PRow(n - 1) IN
           TLCEval([i \in 1..(n + 1) |-> (IF i = 1 THEN 0 ELSE p[i - 1]) + (IF i = n + 1 THEN 0 ELSE p[i])])
PTab == TLCEval([n \in 0..33 |-> PRow(n)])
Min2(a, b) == IF a < b THEN a ELSE b
\* beyond the table only the four outermost entries of a row (k or n - k at most 3) are ever needed: the lopsided pools below
\* put at most three values on one side.  (n (n-1) (n-2) fits a TLC integer up to n = 1290.)
Ch(n, k) == IF k < 0 \/ k > n THEN 0
            ELSE IF n <= 33 THEN PTab[n][k + 1]
            ELSE LET j == Min2(k, n - k) IN
                 CASE j = 0 -> 1 [] j = 1 -> n [] j = 2 -> (n * (n - 1)) \div 2 [] j = 3 -> (n * (n - 1) * (n - 2)) \div 6
                   [] OTHER -> Assert(FALSE, <<"Ch beyond the table", n, k>>)
Abs(a) == IF a < 0 THEN 0 - a ELSE a

\* all allocations of n sample-1 members over the tie vector t, as a sequence
RECURSIVE Allocs(_,_)
Allocs(t, n) == IF t = <<>> THEN (IF n = 0 THEN << <<>> >> ELSE <<>>)
                ELSE LET RECURSIVE Over(_)
                         Over(a) == IF a > Min2(Head(t), n) THEN <<>>
                                    ELSE LET rest == Allocs(Tail(t), n - a)
                                         IN TLCEval([i \in 1..Len(rest) |-> <<a>> \o rest[i]]) \o Over(a + 1)
                         rest0 == SumSeq(Tail(t))
                     IN Over(IF n > rest0 THEN n - rest0 ELSE 0)      \* the ranks after this one can take at most rest0 members
\* 2U of an allocation: each sample-1 member at rank k beats the sample-2 members below (2 each) and ties those at k (1 each)
\* (by index: Head/Tail recursion copies the rest of the sequence at every step)
RECURSIVE TwoUAcc(_,_,_,_)
TwoUAcc(t, r, k, below) == IF k > Len(t) THEN 0
   ELSE r[k] * (2 * below + (t[k] - r[k])) + TwoUAcc(t, r, k + 1, below + t[k] - r[k])
TwoU(t, r) == TwoUAcc(t, r, 1, 0)
RECURSIVE MultAcc(_,_,_)
MultAcc(t, r, k) == IF k > Len(t) THEN 1 ELSE Ch(t[k], r[k]) * MultAcc(t, r, k + 1)
Mult(t, r) == MultAcc(t, r, 1)

\* count vector indexed 1..(2 n1 n2 + 1): Cnt[u+1] = number of subsets with 2U = u  (allocation generating function)
\* (the list of allocations is evaluated once and handed down as a value: a LET definition referenced from a recursive
\* operator is re-evaluated on every reference)
RECURSIVE CntAcc(_,_,_,_)
CntAcc(t, A, i, c) == IF i > Len(A) THEN c
                      ELSE LET u == TwoU(t, A[i]) IN CntAcc(t, A, i + 1, [c EXCEPT ![u + 1] = @ + Mult(t, A[i])])
CntAlloc(t, n) == LET top == 2 * n * (SumSeq(t) - n) IN CntAcc(t, TLCEval(Allocs(t, n)), 1, [u \in 1..(top + 1) |-> 0])

\* ---- literal definitions, for cross-checking on small pools ----
\* explicit pool: element <<k, i>> is the i-th copy of value k
Pool(t) == UNION {{<<k, i>> : i \in 1..t[k]} : k \in 1..Len(t)}
TwoUPairs(S1, S2) == 2 * Cardinality({p \in S1 \X S2 : p[1][1] > p[2][1]}) + Cardinality({p \in S1 \X S2 : p[1][1] = p[2][1]})
SubsetsOfSize(S, n) == {X \in SUBSET S : Cardinality(X) = n}
CntSubsets(t, n) == LET P == Pool(t)  top == 2 * n * (SumSeq(t) - n) IN
   [u \in 1..(top + 1) |-> Cardinality({X \in SubsetsOfSize(P, n) : TwoUPairs(X, P \ X) = u - 1})]
\* Mann-Whitney recurrence for untied pools: c(n,m,u) = c(n-1,m,u-m) + c(n,m-1,u), in units of U
RECURSIVE CMW(_,_,_)
CMW(n, m, u) == IF u < 0 THEN 0 ELSE IF n = 0 \/ m = 0 THEN (IF u = 0 THEN 1 ELSE 0)
                ELSE CMW(n - 1, m, u - m) + CMW(n, m - 1, u)
AllOnes(t) == \A k \in 1..Len(t) : t[k] = 1

\* ---- cumulative tails and p-value numerators over C(N, n1) ----
RECURSIVE Prefix(_,_)
Prefix(c, i) == IF i = 0 THEN 0 ELSE c[i] + Prefix(c, i - 1)
\* running sums built once as an explicit sequence (a lazily evaluated [i |-> Prefix(c, i)] costs a recursion per access)
RECURSIVE RunSum(_,_,_,_)
RunSum(c, i, acc, out) == IF i > Len(c) THEN out ELSE RunSum(c, i + 1, acc + c[i], Append(out, acc + c[i]))
LEvec(c) == RunSum(c, 1, 0, <<>>)
GEvec(c) == LET le == LEvec(c)  tot == IF c = <<>> THEN 0 ELSE le[Len(c)] IN
            TLCEval([i \in 1..Len(c) |-> tot - (IF i = 1 THEN 0 ELSE le[i - 1])])
\* two-sided numerator: min(C, 2 min(LE, GE))
PDvec(c, den) == LET le == LEvec(c) ge == GEvec(c) IN TLCEval([i \in 1..Len(c) |-> Min2(den, 2 * Min2(le[i], ge[i]))])
\* the value the pinned implementation returns for LocationDiffers (known finding): 2*CDF(min(U, n1 n2 - U)), 1 if U = n1 n2 / 2
KnownWrongDiffers(c) == LET le == LEvec(c) top == Len(c) - 1 IN
   TLCEval([i \in 1..Len(c) |-> IF 2 * (i - 1) = top THEN le[Len(c)] ELSE 2 * le[Min2(i, top - (i - 1) + 1)]])

HasTies(t) == \E k \in 1..Len(t) : t[k] > 1
Method(t, n, e, tl) == LET m == SumSeq(t) - n IN
   IF n = 0 \/ m = 0 THEN "errsize"
   ELSE IF (~HasTies(t) /\ n <= e /\ m <= e) \/ (HasTies(t) /\ n <= tl /\ m <= tl)
        THEN (IF Len(t) = 1 THEN "errequal" ELSE "exact")
        ELSE (IF Len(t) = 1 THEN "errequal" ELSE "approx")
\* normal approximation: variance n1 n2 / 12 * ((N+1) - sum(t^3 - t)/(N(N-1))) as numerator/denominator
RECURSIVE TieSum(_)
TieSum(t) == IF t = <<>> THEN 0 ELSE Head(t) * Head(t) * Head(t) - Head(t) + TieSum(Tail(t))
VarNum(t, n) == LET N == SumSeq(t) IN n * (N - n) * ((N + 1) * N * (N - 1) - TieSum(t))
VarDen(t) == LET N == SumSeq(t) IN 12 * N * (N - 1)

-----------------------------------------------------------------------------
Init == T \in StartT /\ n1 = -1 /\ \E c \in Configs : exactLimit = c[1] /\ tiesLimit = c[2]
\* the pool is built one rank at a time, then the split is chosen; SetLimits may happen at any time
AddRank(t) == n1 = -1 /\ SumSeq(T) + t <= MaxN /\ T' = Append(T, t) /\ UNCHANGED <<n1, exactLimit, tiesLimit>>
\* pools of more than 33 values are "lopsided": one sample has at most three values (the other up to 257), which keeps the
\* allocation generating function small while the pool, its prefix sums and its tie groups walk far past every small table
Lop(t) == SumSeq(t) > 33
MaxSide(t) == IF Len(t) > 30 THEN 2 ELSE 3      \* pools of many ranks: at most two values on one side
ChooseSplit(k) == n1 = -1 /\ Len(T) >= 1 /\ (Lop(T) => (k <= MaxSide(T) \/ k >= SumSeq(T) - MaxSide(T))) /\ n1' = k /\ UNCHANGED <<T, exactLimit, tiesLimit>>
SetLimits(c) == n1 = -1 /\ <<exactLimit, tiesLimit>> # c /\ exactLimit' = c[1] /\ tiesLimit' = c[2] /\ UNCHANGED <<T, n1>>
Next == \/ \E t \in 1..MaxN : AddRank(t)
        \/ \E k \in 0..SumSeq(T) : ChooseSplit(k)
        \/ \E c \in Configs : SetLimits(c)
Spec == Init /\ [][Next]_vars

\* ---- laws of the specification (checked by TLC in every test state) ----
Reverse(s) == [i \in 1..Len(s) |-> s[Len(s) + 1 - i]]
Laws == (n1 > 0 /\ n1 < SumSeq(T) /\ Len(T) >= 2) =>
  LET N == SumSeq(T)  n2 == N - n1  c == CntAlloc(T, n1)  den == Ch(N, n1)
      le == LEvec(c)  ge == GEvec(c)
  IN /\ Prefix(c, Len(c)) = den                                         \* masses sum to 1
     /\ \A i \in 1..Len(c) : le[i] + ge[i] - c[i] = den
     /\ c = Reverse(CntAlloc(T, n2))                                     \* mirror law: swapping the samples maps u to 2 n1 n2 - u
     /\ c = Reverse(CntAlloc(Reverse(T), n1))                            \* reversing the order of values too
     /\ \A i \in 1..(Len(c) - 1) : le[i] <= le[i + 1]
     /\ N <= CrossN => c = CntSubsets(T, n1)                             \* literal subset enumeration
     /\ N <= CrossN => \A r \in {Allocs(T, n1)[i] : i \in 1..Len(Allocs(T, n1))} :
           TwoU(T, r) = TwoUPairs(UNION {{<<k, i>> : i \in 1..r[k]} : k \in 1..Len(T)},
                                  UNION {{<<k, i>> : i \in (r[k] + 1)..T[k]} : k \in 1..Len(T)})
     /\ AllOnes(T) => \A u \in 0..(n1 * n2) : c[2 * u + 1] = CMW(n1, n2, u)
     /\ Lop(T) \/ VarNum(T, n1) > 0

\* ---- case emission ----
AllocRecs(t, n) == LET A == Allocs(t, n) IN [i \in 1..Len(A) |-> [r |-> A[i], twoU |-> TwoU(t, A[i])]]
Emit == n1 >= 0 =>
  LET N == SumSeq(T)  m == Method(T, n1, exactLimit, tiesLimit) IN
  IF m \in {"errsize", "errequal"}
  THEN PrintT(ToJson([T |-> T, n1 |-> n1, n2 |-> N - n1, e |-> exactLimit, t |-> tiesLimit, method |-> m]))
  ELSE LET c == CntAlloc(T, n1)  den == Ch(N, n1) IN
       PrintT(ToJson([T |-> T, n1 |-> n1, n2 |-> N - n1, e |-> exactLimit, t |-> tiesLimit, method |-> m,
                      den |-> den, cnt |-> c, le |-> LEvec(c), ge |-> GEvec(c), pd |-> PDvec(c, den),
                      kw |-> KnownWrongDiffers(c), varn |-> (IF Lop(T) THEN 0 ELSE VarNum(T, n1)), vard |-> (IF Lop(T) THEN 1 ELSE VarDen(T)),
                      al |-> AllocRecs(T, n1)]))
ConfigsDefault == {<<50, 25>>}
StartEmpty == {<<>>}
\* tied pools of 20..32 values (few distinct values, so that the allocation generating function stays small; C(N, n1) and
\* twice its value fit TLC's integers up to N = 32); every split 0..N of each is explored
\* (tie groups of 21..25 values: binomials of more than 20 leave the exactly representable factorial range)
MidPoolsQuick == {<<5, 5, 5, 5>>, <<10, 11>>, <<1, 20, 2>>, <<12, 13>>, <<6, 7, 12>>, <<9, 1, 1, 15>>, <<16, 16>>, <<22, 1>>, <<1, 23, 2>>, <<24, 3>>, <<2, 21>>, <<25, 1, 1>>}
MidPoolsThorough == MidPoolsQuick \cup {<<3, 4, 5, 6, 7>>, <<7, 7, 8>>, <<6, 6, 6, 6>>, <<13, 14>>, <<10, 10, 10>>, <<2, 19>>, <<21, 1>>, <<1, 1, 22>>, <<8, 8, 8, 8>>,
                                        <<4, 4, 4, 4, 4, 4>>, <<11, 1, 11>>, <<2, 3, 2, 3, 2, 3, 2, 3, 2>>, <<15, 2, 15>>}
\* lopsided pools (exact method only, hence ConfigsWide): (1) a tie group of EVERY size 26..260 next to a pair, so that every
\* group size and every pool size up to 262 occurs; (2) many ranks above the first 20 values; (3) three large groups.
\* (TLC's cost grows steeply with the number of ranks, hence few pools of many ranks.)
LopPoolsQuick == {<<t, 2>> : t \in 26..260} \cup
                 {<<3, 6, 1, 3, 5, 4, 2, 2, 5, 1, 4, 2, 1, 1>>, <<7, 7, 7, 7, 7, 7>>, <<100, 70, 30>>, <<1, 1, 30, 1, 1, 1, 40, 2, 2>>}
LopPoolsThorough == LopPoolsQuick \cup {<<2, t>> : t \in 32..300} \cup {<<t, 1, 2>> : t \in 30..200} \cup {[i \in 1..k |-> 3] : k \in 12..16} \cup {[i \in 1..20 |-> 2]}
ConfigsWide == {<<1000, 1000>>}
ConfigsFour == {<<50, 25>>, <<0, 0>>, <<3, 2>>, <<1000, 1000>>}
\* the two limits are independent settings: also the ties limit above the no-ties limit
ConfigsSix == ConfigsFour \cup {<<2, 5>>, <<0, 1000>>}
=============================================================================
