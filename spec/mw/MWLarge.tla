------------------------------- MODULE MWLarge -------------------------------
(***************************************************************************)
(* The exact null distribution of U for LARGE untied samples (up to the    *)
(* exact-method limit 50 + 50), in BigInt.  Without ties the number of     *)
(* size-n1 subsets of 1..N with U = u is the coefficient of q^u in the     *)
(* Gaussian binomial                                                       *)
(*        [N choose n1]_q = prod_{i=1..n1} (1 - q^(n2+i)) / (1 - q^i),     *)
(* computed by n1 polynomial multiplications by (1 - q^k) and exact        *)
(* divisions by (1 - q^i) (a running sum).  TLC checks the total           *)
(* C(N, n1) (against Pascal's triangle), the palindromic symmetry and the  *)
(* symmetry in n1 <-> n2, and emits the coefficient vector.                *)
(***************************************************************************)
EXTENDS Integers, Sequences, TLC, Json, BigInt
CONSTANT Sizes            \* set of <<n1, n2>>
VARIABLES sz, done
vars == <<sz, done>>
Null == <<0, 0>>

\* polynomials: sequences of signed BigInt coefficients, index 1 = q^0, fixed length top+1
MulOneMinusQ(P, k) == TLCEval([j \in 1..Len(P) |-> IF j - k >= 1 THEN SSub(P[j], P[j - k]) ELSE P[j]])      \* P * (1 - q^k), truncated
RECURSIVE DivRun(_,_,_,_)
\* R = P / (1 - q^i):  R[j] = P[j] + R[j - i]
DivRun(P, i, j, R) == IF j > Len(P) THEN R ELSE DivRun(P, i, j + 1, Append(R, IF j - i >= 1 THEN SAdd(P[j], R[j - i]) ELSE P[j]))
DivOneMinusQ(P, i) == DivRun(P, i, 1, <<>>)
RECURSIVE QB(_,_,_,_)
QB(P, n1, n2, i) == IF i > n1 THEN P ELSE QB(DivOneMinusQ(MulOneMinusQ(P, n2 + i), i), n1, n2, i + 1)
QBinom(n1, n2) == LET top == n1 * n2 IN QB([j \in 1..(top + 1) |-> IF j = 1 THEN SNat(<<1>>) ELSE SZero], n1, n2, 1)

NextRow(r) == LET k == Len(r) IN TLCEval([i \in 1..(k + 1) |-> Add(IF i = 1 THEN <<>> ELSE r[i - 1], IF i = k + 1 THEN <<>> ELSE r[i])])
RECURSIVE PascalRow(_)
PascalRow(m) == IF m = 0 THEN << <<1>> >> ELSE NextRow(PascalRow(m - 1))
RECURSIVE SumS(_,_)
SumS(P, j) == IF j = 0 THEN SZero ELSE SAdd(P[j], SumS(P, j - 1))

Init == sz = Null /\ done = FALSE
Pick == sz = Null /\ \E s \in Sizes : sz' = s /\ UNCHANGED done
Finish == sz # Null /\ ~done /\ done' = TRUE /\ UNCHANGED sz
Next == Pick \/ Finish
Spec == Init /\ [][Next]_vars

Check(P, n1, n2) ==
  /\ \A j \in 1..Len(P) : P[j].s >= 0                                      \* counts
  /\ \A j \in 1..Len(P) : P[j] = P[Len(P) + 1 - j]                          \* U and n1 n2 - U are equally likely
  /\ SumS(P, Len(P)).m = PascalRow(n1 + n2)[n1 + 1]                        \* all C(N, n1) subsets
  /\ P[1].m = <<1>> /\ (Len(P) >= 2 => P[2].m = <<1>>)
Emit == done => LET P == QBinom(sz[1], sz[2]) IN
   /\ Check(P, sz[1], sz[2])
   /\ PrintT(ToJson([n1 |-> sz[1], n2 |-> sz[2], cnt |-> [j \in 1..Len(P) |-> P[j].m], den |-> PascalRow(sz[1] + sz[2])[sz[1] + 1]]))
SizesQuick == {<<3, 4>>, <<12, 15>>, <<39, 40>>}
SizesThorough == SizesQuick \cup {<<50, 50>>, <<38, 45>>, <<50, 32>>, <<25, 50>>, <<37, 37>>, <<50, 3>>}
=============================================================================
