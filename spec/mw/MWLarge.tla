------------------------------- MODULE MWLarge -------------------------------
(***************************************************************************)
(* The exact null distribution of U for LARGE untied samples (up to the    *)
(* exact-method limit 50 + 50), in BigInt.  Without ties the number of     *)
(* size-n1 subsets of 1..N with U = u is the coefficient of q^u in the     *)
(* Gaussian binomial                                                       *)
(*        [N choose n1]_q = prod_{i=1..n1} (1 - q^(n2+i)) / (1 - q^i),     *)
(* computed by n1 polynomial multiplications by (1 - q^k) and exact        *)
(* divisions by (1 - q^i) (a running sum).  TLC checks the total           *)
(* C(N, n1) (against Pascal's triangle), the palindromic symmetry and the  *)
(* symmetry in n1 <-> n2, and emits the coefficient vector.                *)
(***************************************************************************)
EXTENDS Integers, Sequences, TLC, Json, BigInt
CONSTANT Sizes            \* set of <<n1, n2>>
VARIABLES sz, done
vars == <<sz, done>>
Null == <<0, 0>>

\* polynomials: sequences of signed BigInt coefficients, index 1 = q^0, fixed length top+1
MulOneMinusQ(P, k) == TLCEval([j \in 1..Len(P) |-> IF j - k >= 1 THEN SSub(P[j], P[j - k]) ELSE P[j]])      \* P * (1 - q^k), truncated
RECURSIVE DivRun(_,_,_,_)
\* R = P / (1 - q^i):  R[j] = P[j] + R[j - i]
DivRun(P, i, j, R) == IF j > Len(P) THEN R ELSE DivRun(P, i, j + 1, Append(R, IF j - i >= 1 THEN SAdd(P[j], R[j - i]) ELSE P[j]))
DivOneMinusQ(P, i) == DivRun(P, i, 1, <<>>)
RECURSIVE QB(_,_,_,_)
QB(P, n1, n2, i) == IF i > n1 THEN P ELSE QB(DivOneMinusQ(MulOneMinusQ(P, n2 + i), i), n1, n2, i + 1)
QBinom(n1, n2) == LET top == n1 * n2 IN QB([j \in 1..(top + 1) |-> IF j = 1 THEN SNat(<<1>>) ELSE SZero], n1, n2, 1)

NextRow(r) == LET k == Len(r) IN TLCEval([i \in 1..(k + 1) |-> Add(IF i = 1 THEN <<>> ELSE r[i - 1], IF i = k + 1 THEN <<>> ELSE r[i])])
RECURSIVE PascalRow(_)
PascalRow(m) == IF m = 0 THEN << <<1>> >> ELSE NextRow(PascalRow(m - 1))
RECURSIVE SumS(_,_)
SumS(P, j) == IF j = 0 THEN SZero ELSE SAdd(P[j], SumS(P, j - 1))

Init == sz = Null /\ done = FALSE
Pick == sz = Null /\ \E s \in Sizes : sz' = s /\ UNCHANGED done
Finish == sz # Null /\ ~done /\ done' = TRUE /\ UNCHANGED sz
Next == Pick \/ Finish
Spec == Init /\ [][Next]_vars

Check(P, n1, n2) ==
  /\ \A j \in 1..Len(P) : P[j].s >= 0                                      \* counts
  /\ \A j \in 1..Len(P) : P[j] = P[Len(P) + 1 - j]                          \* U and n1 n2 - U are equally likely
  /\ SumS(P, Len(P)).m = PascalRow(n1 + n2)[n1 + 1]                        \* all C(N, n1) subsets
  /\ P[1].m = <<1>> /\ (Len(P) >= 2 => P[2].m = <<1>>)
\* ---- large TIED pools of two distinct values: a copies of the smaller, b of the larger, n1 values in the first sample ----
\* The first sample takes r of the smaller value and n1 - r of the larger: C(a,r) C(b,n1-r) ways, and
\*   2U = r (a - r) + (n1 - r) (2 (a - r) + b - (n1 - r))     (ties count 1, wins 2, in units of U/2)
\* Emitted sparsely (one item per feasible r); TLC checks Vandermonde's identity sum_r C(a,r) C(b,n1-r) = C(a+b,n1).
Max2(x, y) == IF x > y THEN x ELSE y
Min2(x, y) == IF x < y THEN x ELSE y
TwoU2(a, b, n1, r) == r * (a - r) + (n1 - r) * (2 * (a - r) + b - (n1 - r))
Tied2(a, b, n1) == LET ra == PascalRow(a)  rb == PascalRow(b)  lo == Max2(0, n1 - b)  hi == Min2(a, n1) IN
   TLCEval([i \in 1..(hi - lo + 1) |-> LET r == lo + i - 1 IN [r |-> r, twoU |-> TwoU2(a, b, n1, r), mult |-> Mul(ra[r + 1], rb[n1 - r + 1])]])
RECURSIVE SumMult(_,_)
SumMult(it, j) == IF j = 0 THEN <<>> ELSE Add(it[j].mult, SumMult(it, j - 1))
\* ---- large tied pools of three or more distinct values: <<n1, t1, t2, ..., tK>> ----
\* every allocation r (r[k] of the t[k] copies of value k in the first sample; pruned to the feasible ones) with its
\* multiplicity prod C(t[k], r[k]) in BigInt and its 2U; TLC checks that the multiplicities add up to C(N, n1)
RECURSIVE SumT(_,_)
SumT(t, k) == IF k > Len(t) THEN 0 ELSE t[k] + SumT(t, k + 1)                 \* t[k] + ... + t[K]
RECURSIVE AllocsK(_,_,_)
AllocsK(t, k, n) == IF k > Len(t) THEN (IF n = 0 THEN << <<>> >> ELSE <<>>)
   ELSE LET rest == SumT(t, k + 1)
            lo == IF n > rest THEN n - rest ELSE 0
            hi == Min2(t[k], n)
            RECURSIVE Over(_)
            Over(a) == IF a > hi THEN <<>>
                       ELSE LET tails == AllocsK(t, k + 1, n - a) IN TLCEval([i \in 1..Len(tails) |-> <<a>> \o tails[i]]) \o Over(a + 1)
        IN Over(lo)
RECURSIVE TwoUK(_,_,_,_)
TwoUK(t, r, k, below) == IF k > Len(t) THEN 0 ELSE r[k] * (2 * below + (t[k] - r[k])) + TwoUK(t, r, k + 1, below + t[k] - r[k])
RECURSIVE MultK(_,_,_)
MultK(rows, r, k) == IF k > Len(r) THEN <<1>> ELSE Mul(rows[k][r[k] + 1], MultK(rows, r, k + 1))
TiedK(t, n1) == LET rows == TLCEval([k \in 1..Len(t) |-> PascalRow(t[k])])  A == TLCEval(AllocsK(t, 1, n1)) IN
   TLCEval([i \in 1..Len(A) |-> [r |-> A[i], twoU |-> TwoUK(t, A[i], 1, 0), mult |-> MultK(rows, A[i], 1)]])
Emit == done =>
   IF Len(sz) >= 4
   THEN LET n1 == sz[1]  t == SubSeq(sz, 2, Len(sz))  N == SumT(t, 1)  it == TiedK(t, n1)  den == PascalRow(N)[n1 + 1] IN
        /\ SumMult(it, Len(it)) = den
        /\ PrintT(ToJson([kind |-> "tiedk", T |-> t, n1 |-> n1, n2 |-> N - n1, items |-> it, den |-> den]))
   ELSE IF Len(sz) = 2
   THEN LET P == QBinom(sz[1], sz[2]) IN
        /\ Check(P, sz[1], sz[2])
        /\ PrintT(ToJson([kind |-> "untied", n1 |-> sz[1], n2 |-> sz[2], cnt |-> [j \in 1..Len(P) |-> P[j].m], den |-> PascalRow(sz[1] + sz[2])[sz[1] + 1]]))
   ELSE LET a == sz[1]  b == sz[2]  n1 == sz[3]  it == Tied2(a, b, n1)  den == PascalRow(a + b)[n1 + 1] IN
        /\ SumMult(it, Len(it)) = den
        /\ \A i \in 1..(Len(it) - 1) : it[i].twoU > it[i + 1].twoU            \* more of the smaller value in sample 1: smaller U
        /\ PrintT(ToJson([kind |-> "tied2", a |-> a, b |-> b, n1 |-> n1, n2 |-> a + b - n1, items |-> it, den |-> den]))
\* pairs <<n1, n2>>: untied; triples <<a, b, n1>>: tied pools of two values.  The lopsided untied sizes (one sample of 1..3
\* values, the other up to 300) need a raised exact limit; the tied pools reach totals C(N,n1) beyond 2^63 and beyond 1e80
SizesQuickBase == {<<3, 4>>, <<12, 15>>, <<39, 40>>, <<40, 4, 4, 72>>, <<31, 3, 2, 62, 5>>, <<20, 30, 1, 30>>, <<1, 3>>, <<1, 259>>, <<3, 44>>, <<2, 300>>,
               <<30, 37, 34>>, <<40, 40, 40>>, <<135, 135, 135>>, <<3, 167, 85>>, <<255, 255, 10>>}
\* (50,49): C(99,50) ~ 5e28 - the upper-tail sums of the untied CDF pass 1 - 1e-16 here (UDist's own check only: it costs a minute)
SizesQuick == SizesQuickBase \cup {<<50, 49>>}
SizesThorough == SizesQuick \cup {<<50, 50>>, <<38, 45>>, <<50, 32>>, <<25, 50>>, <<37, 37>>, <<50, 3>>, <<1, 600>>, <<4, 260>>,
                                  <<150, 160, 155>>, <<200, 180, 190>>, <<33, 33, 33>>, <<34, 33, 33>>, <<100, 170, 130>>, <<400, 400, 7>>}
=============================================================================
