CONSTANT Sizes <- @@Sizes@@
SPECIFICATION Spec
INVARIANT Emit
CHECK_DEADLOCK FALSE
