CONSTANTS
  TraceFile = "trace.ndjson"
  DPMaxN = @@DPMaxN@@
SPECIFICATION Spec
POSTCONDITION Accepted
CHECK_DEADLOCK FALSE
