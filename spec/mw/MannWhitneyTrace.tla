-------------------------- MODULE MannWhitneyTrace --------------------------
(***************************************************************************)
(* Trace validation of stats.MannWhitneyUTest.  Every recorded call        *)
(* (samples of integer values, alternative, result, and the assignments    *)
(* to the two public limit variables) is one step of the MannWhitney       *)
(* design: the trace spec derives the tie vector and the allocation from   *)
(* the logged samples, recomputes 2U by the definition, decides error /    *)
(* method from the current limits and, when the exact method applies and   *)
(* C(N,n1) fits TLC's integers, the exact tails by a dynamic programme     *)
(* over ranks.  Twin events (same data shuffled and monotonically mapped;  *)
(* samples swapped) must relate to the base event as the laws demand.      *)
(***************************************************************************)
EXTENDS Integers, Sequences, FiniteSets, TLC, Json, IOUtils, BigInt
CONSTANTS TraceFile, DPMaxN
Trace == ndJsonDeserialize(TraceFile)
VARIABLES exactLimit, tiesLimit, base, l
vars == <<exactLimit, tiesLimit, base, l>>
NoBase == [valid |-> FALSE]
Init == exactLimit = 50 /\ tiesLimit = 25 /\ base = NoBase /\ l = 1

Min2(a, b) == IF a < b THEN a ELSE b
RECURSIVE Ch(_,_)
Ch(n, k) == IF k < 0 \/ k > n THEN 0 ELSE IF k = 0 THEN 1 ELSE (Ch(n, k-1) * (n - k + 1)) \div k
SeqSet(s) == {s[i] : i \in 1..Len(s)}
RECURSIVE SortSet(_)
SortSet(S) == IF S = {} THEN <<>> ELSE LET m == CHOOSE x \in S : \A y \in S : x <= y IN <<m>> \o SortSet(S \ {m})
CountOf(s, v) == Cardinality({i \in 1..Len(s) : s[i] = v})
RECURSIVE SumSeq(_)
SumSeq(s) == IF s = <<>> THEN 0 ELSE Head(s) + SumSeq(Tail(s))
RECURSIVE TwoUAcc(_,_,_)
TwoUAcc(t, r, below) == IF t = <<>> THEN 0
   ELSE Head(r) * (2 * below + (Head(t) - Head(r))) + TwoUAcc(Tail(t), Tail(r), below + Head(t) - Head(r))

\* count table by ranks: f[j+1][u+1] = number of ways to pick j sample-1 members among the ranks so far with 2U = u
DPStep(f, n1, top, t, Bl) ==   \* Bl pool members lie below this rank; j-a of them belong to sample 1
  TLCEval([jj \in 1..(n1 + 1) |-> TLCEval([uu \in 1..(top + 1) |->
     LET j == jj - 1  u == uu - 1
         RECURSIVE S(_)
         S(a) == IF a > Min2(t, j) THEN 0
                 ELSE LET du == a * (2 * (Bl - (j - a)) + (t - a)) IN
                      (IF j - a <= Bl /\ u - du >= 0 /\ u - du <= top THEN Ch(t, a) * f[j - a + 1][u - du + 1] ELSE 0) + S(a + 1)
     IN S(0)])])
RECURSIVE DPRun(_,_,_,_,_,_)
DPRun(f, n1, top, T, k, Bl) == IF k > Len(T) THEN f ELSE DPRun(DPStep(f, n1, top, T[k], Bl), n1, top, T, k + 1, Bl + T[k])
CntDP0(T, n1) == LET N == SumSeq(T)  top == 2 * n1 * (N - n1)
                     f0 == [jj \in 1..(n1 + 1) |-> [uu \in 1..(top + 1) |-> IF jj = 1 /\ uu = 1 THEN 1 ELSE 0]]
                 IN DPRun(f0, n1, top, T, 1, 0)[n1 + 1]
\* count through the smaller sample: choosing the n2 members of sample 2 instead mirrors 2U about n1 n2
RevSeq(c) == [i \in 1..Len(c) |-> c[Len(c) + 1 - i]]
CntDP(T, n1) == LET n2 == SumSeq(T) - n1 IN IF n1 <= n2 THEN CntDP0(T, n1) ELSE RevSeq(CntDP0(T, n2))
\* the exact check is feasible when C(N, min(n1,n2)) fits a TLC integer and the table is small
Feasible(n1, n2) == LET k == Min2(n1, n2) IN n1 + n2 <= DPMaxN \/ (k <= 3 /\ n1 + n2 <= 64) \/ (k <= 5 /\ n1 + n2 <= 34)
RECURSIVE Prefix(_,_)
Prefix(c, i) == IF i = 0 THEN 0 ELSE c[i] + Prefix(c, i - 1)

\* logged P is round(P * 10^18) as a signed big integer; |P - num/den| <= 10^-9  <=>  |P18*den - num*10^18| <= 10^9 * den
E18 == <<0, 0, 0, 0, 100>>
E9 == <<0, 0, 10>>
E6 == <<0, 100>>
P18(ev) == [s |-> ev.p.s, m |-> ev.p.m]
PIs(ev, num, den) == Cmp(SSub(SMul(P18(ev), SFrom(den)), SMul(SFrom(num), SNat(E18))).m, Mul(E9, FromNat(den))) <= 0
\* 0 <= P <= 1 up to rounding (1e-12 on either side: 1 - CDF of a CDF that rounds to 1 + 2e-13 is -2e-13)
PInRange(ev) == (ev.p.s >= 0 \/ Cmp(ev.p.m, E6) <= 0) /\ Cmp(ev.p.m, Add(E18, E6)) <= 0
PSame(a, b) == Cmp(SSub([s |-> a.s, m |-> a.m], [s |-> b.s, m |-> b.m]).m, E6) <= 0     \* within 1e-12

Analyse(ev) ==
  LET x1 == ev.x1  x2 == ev.x2  n1 == Len(x1)  n2 == Len(x2)
      vals == SortSet(SeqSet(x1) \cup SeqSet(x2))
      T == [k \in 1..Len(vals) |-> CountOf(x1, vals[k]) + CountOf(x2, vals[k])]
      r == [k \in 1..Len(vals) |-> CountOf(x1, vals[k])]
      ties == \E k \in 1..Len(T) : T[k] > 1
      exact == (~ties /\ n1 <= exactLimit /\ n2 <= exactLimit) \/ (ties /\ n1 <= tiesLimit /\ n2 <= tiesLimit)
  IN [n1 |-> n1, n2 |-> n2, T |-> T, r |-> r, ties |-> ties, exact |-> exact,
      err |-> IF n1 = 0 \/ n2 = 0 THEN "size" ELSE IF Len(T) = 1 THEN "equal" ELSE "none",
      twoU |-> TwoUAcc(T, r, 0)]

Ev(e) == l <= Len(Trace) /\ Trace[l].op = e /\ l' = l + 1
SetLimits == /\ Ev("SetLimits") /\ exactLimit' = Trace[l].e /\ tiesLimit' = Trace[l].t /\ base' = NoBase

\* ---- the normal approximation (sizes above the limits) ----
\* In units of 2U:  less  num = 2U + 1 - n1 n2,  greater  num = 2U - 1 - n1 n2,  two-sided  num = -max(|2U - n1 n2| - 1, 0);
\* z = num / (2 sigma) with 4 sigma^2 = n1 n2 ((N+1) N (N-1) - sum(t^3 - t)) / (3 N (N-1)): z^2 is an exact rational.
\* The logged z must have that square and the sign of num; Phi (uninterpreted here) is evaluated by the harness at the
\* logged z; P = Phi(z), 1 - Phi(z), 2 Phi(z) by the alternative.  Where the library's own path is the lower tail (less;
\* two-sided with U below its mean) the small tails are required to 2^-29 RELATIVE, elsewhere to 2^-40 absolute
\* (1 - Phi cannot carry a relative accuracy).
RECURSIVE TieSumB(_,_)
TieSumB(T, k) == IF k = 0 THEN <<>> ELSE Add(FromNat(T[k] * T[k] * T[k] - T[k]), TieSumB(T, k - 1))
IAbs(x) == IF x < 0 THEN 0 - x ELSE x
ApproxOK(ev, a) ==
  LET n1 == a.n1  n2 == a.n2  N == n1 + n2
      d == a.twoU - n1 * n2
      num == IF ev.alt = -1 THEN d + 1 ELSE IF ev.alt = 1 THEN d - 1 ELSE (IF IAbs(d) - 1 > 0 THEN 0 - (IAbs(d) - 1) ELSE 0)
      cube == Mul(Mul(FromNat(N + 1), FromNat(N)), FromNat(N - 1))
      fourS == [n |-> SNat(Mul(FromNat(n1 * n2), Sub(cube, TieSumB(a.T, Len(a.T))))), d |-> Mul(<<3>>, Mul(FromNat(N), FromNat(N - 1)))]
      z2 == [n |-> SNat(Mul(Mul(FromNat(IAbs(num)), FromNat(IAbs(num))), fourS.d)), d |-> fourS.n.m]      \* (num^2 leaves 32 bits at 300 x 300)
      Dy2(x) == [s |-> IF x.s = 0 THEN 0 ELSE 1, m |-> Mul(x.m, x.m), e |-> 2 * x.e]
      one == [n |-> SNat(<<1>>), d |-> <<1>>]
      zero == [n |-> SZero, d |-> <<1>>]
      P == DyRat(ev.pd.d)  phi == DyRat(ev.phi.d)
      want == IF ev.alt = -1 THEN phi ELSE IF ev.alt = 1 THEN RSub(one, phi) ELSE RMul([n |-> SNat(<<2>>), d |-> <<1>>], phi)
      lowerPath == ev.alt = -1 \/ (ev.alt = 0 /\ d < 0)
  IN /\ ev.pd.c = "fin" /\ ev.z.c = "fin" /\ ev.phi.c = "fin"
     /\ ev.z.d.s = (IF num > 0 THEN 1 ELSE IF num < 0 THEN -1 ELSE 0)
     /\ RClose(DyRat(Dy2(ev.z.d)), z2, zero, 40)
     /\ IF lowerPath /\ RLe([n |-> SNat(<<1>>), d |-> Pow2(900)], phi)             \* Phi(z) >= 2^-900: a normal float
        THEN RClose(P, want, zero, 29)
        ELSE RNear(P, want, one, 40)

\* the reply of one call, judged on its own
ReplyOK(ev, a) ==
  /\ ev.err = a.err
  /\ a.err = "none" =>
       /\ ev.n1 = a.n1 /\ ev.n2 = a.n2 /\ ev.twoU = a.twoU /\ ev.ralt = ev.alt
       /\ \/ PInRange(ev)
          \/ /\ ~PInRange(ev) /\ ev.alt = 0 /\ a.exact /\ a.ties /\ ev.p.s > 0   \* known finding: two-sided exact P above 1
             /\ PrintT("KNOWN-SIG stats/utest.go:LocationDiffers/exact")
       /\ ~a.exact => ApproxOK(ev, a)
       /\ (a.exact /\ Feasible(a.n1, a.n2)) =>
            LET c == CntDP(a.T, a.n1)  den == Ch(a.n1 + a.n2, Min2(a.n1, a.n2))
                le == Prefix(c, a.twoU + 1)  ge == den - Prefix(c, a.twoU)
                top == Len(c) - 1
                two == Min2(den, 2 * Min2(le, ge))
                kw == IF 2 * a.twoU = top THEN den ELSE 2 * Prefix(c, Min2(a.twoU, top - a.twoU) + 1)
            IN /\ Prefix(c, Len(c)) = den
               /\ ev.alt = -1 => PIs(ev, le, den)
               /\ ev.alt = 1 => PIs(ev, ge, den)
               /\ ev.alt = 0 => \/ PIs(ev, two, den)
                                \/ /\ ~PIs(ev, two, den) /\ Cmp(P18(ev).m, <<>>) >= 0
                                   /\ Cmp(SSub(SMul(P18(ev), SFrom(den)), SMul(SFrom(kw), SNat(E18))).m, Mul(E9, FromNat(den))) <= 0
                                   /\ PrintT("KNOWN-SIG stats/utest.go:LocationDiffers/exact")

Test == /\ Ev("Test")
        /\ LET ev == Trace[l]  a == Analyse(ev) IN
           /\ ReplyOK(ev, a)
           /\ ev.argsok = 1                                  \* arguments bit-identical after the call
           /\ base' = IF a.err = "none" THEN [valid |-> TRUE, a |-> a, alt |-> ev.alt, p |-> ev.p, twoU |-> ev.twoU] ELSE NoBase
        /\ UNCHANGED <<exactLimit, tiesLimit>>
\* same multisets, reordered and mapped by a strictly increasing function: identical result
TwinSame == /\ Ev("TwinSame") /\ base.valid
            /\ LET ev == Trace[l] IN
               /\ ev.err = "none" /\ ev.n1 = base.a.n1 /\ ev.n2 = base.a.n2 /\ ev.twoU = base.twoU /\ ev.alt = base.alt
               /\ PSame(ev.p, base.p)
            /\ UNCHANGED <<exactLimit, tiesLimit, base>>
\* samples swapped, alternative negated: U -> n1 n2 - U, P preserved
TwinSwap == /\ Ev("TwinSwap") /\ base.valid
            /\ LET ev == Trace[l] IN
               /\ ev.err = "none" /\ ev.n1 = base.a.n2 /\ ev.n2 = base.a.n1 /\ ev.alt = 0 - base.alt
               /\ ev.twoU = 2 * base.a.n1 * base.a.n2 - base.twoU
               /\ \/ PSame(ev.p, base.p)
                  \/ /\ ~PSame(ev.p, base.p) /\ base.alt = 0 /\ base.a.exact /\ base.a.ties      \* known finding: exact two-sided P with ties
                     /\ PrintT("KNOWN-SIG stats/utest.go:LocationDiffers/exact")
            /\ UNCHANGED <<exactLimit, tiesLimit, base>>
Reset == Ev("Reset") /\ exactLimit' = 50 /\ tiesLimit' = 25 /\ base' = NoBase
Next == SetLimits \/ Test \/ TwinSame \/ TwinSwap \/ Reset
Spec == Init /\ [][Next]_vars
Accepted == TLCGet("stats").diameter - 1 = Len(Trace)
=============================================================================
