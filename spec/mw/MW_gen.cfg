CONSTANTS
  MaxN = @@MaxN@@
  CrossN = @@CrossN@@
  Configs <- @@Configs@@
SPECIFICATION Spec
INVARIANTS Laws Emit
CHECK_DEADLOCK FALSE
