CONSTANTS
  MaxN = @@MaxN@@
  CrossN = @@CrossN@@
  Configs <- @@Configs@@
  StartT <- @@StartT@@
SPECIFICATION Spec
INVARIANTS Laws Emit
CHECK_DEADLOCK FALSE
