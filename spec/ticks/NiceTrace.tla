------------------------------ MODULE NiceTrace ------------------------------
(***************************************************************************)
(* Relational specification of scale.Linear.Nice / scale.Log.Nice, checked *)
(* on recorded calls.  Nice is an in-place operation on the scale's        *)
(* domain; the property does not fix the result, it constrains it:         *)
(*   always   : the new domain is finite, non-degenerate, and contains the *)
(*              old one (up to the library's own 1e-10 relative slack);    *)
(*   Max >= 3 : a second Nice changes nothing; each end moved by less than *)
(*              one major tick spacing (ratio, for Log); the first and     *)
(*              last major tick of Ticks(o) equal the new Min and Max.     *)
(* Values are the exact dyadic images of the recorded float64s.            *)
(***************************************************************************)
EXTENDS BigInt, Json, IOUtils
CONSTANT TraceFile
Trace == ndJsonDeserialize(TraceFile)
VARIABLES l, ncalls
vars == <<l, ncalls>>
Init == l = 1 /\ ncalls = 0

Fin(v) == v.c = "fin"
V(v) == DyRat(v.d)
K == 29        \* 2^-29 ~ 1.9e-9

LinOK(ev) ==
  LET b0 == V(ev.b0) b1 == V(ev.b1) a0 == V(ev.a0) a1 == V(ev.a1) w == RSub(b1, b0)
      wa == RSub(a1, a0)
  IN /\ Fin(ev.a0) /\ Fin(ev.a1)
     /\ RLt(a0, a1)
     /\ RLeSlack(a0, b0, w, K) /\ RLeSlack(b1, a1, w, K)
     /\ (ev.max >= 3 /\ ev.limited = 0) =>
          /\ Fin(ev.c0) /\ Fin(ev.c1)
          /\ RNear(V(ev.c0), a0, wa, K) /\ RNear(V(ev.c1), a1, wa, K)          \* idempotent
          /\ ev.nmaj >= 2 /\ ev.nmaj <= ev.max
          /\ RNear(V(ev.mf), a0, wa, K) /\ RNear(V(ev.ml), a1, wa, K)          \* ends are major ticks
          /\ LET sp == V(ev.sp) IN                                              \* moved by less than one spacing
             /\ RLt(RSub(b0, a0), RAdd(sp, RShr(wa, K)))
             /\ RLt(RSub(a1, b1), RAdd(sp, RShr(wa, K)))
\* Log: the same in ratios.  All values share one sign; compare absolute values, ordered lo < hi.
LogOK(ev) ==
  LET b0 == RAbs(V(ev.b0)) b1 == RAbs(V(ev.b1)) a0 == RAbs(V(ev.a0)) a1 == RAbs(V(ev.a1))
      \* for a negative domain |Min| > |Max|: lo = |Max|
      blo == IF ev.neg = 1 THEN b1 ELSE b0  bhi == IF ev.neg = 1 THEN b0 ELSE b1
      alo == IF ev.neg = 1 THEN a1 ELSE a0  ahi == IF ev.neg = 1 THEN a0 ELSE a1
  IN /\ Fin(ev.a0) /\ Fin(ev.a1)
     /\ ev.a0.d.s = ev.b0.d.s /\ ev.a1.d.s = ev.b1.d.s /\ ev.a0.d.s # 0       \* same sign, never zero
     /\ RLt(alo, ahi)
     /\ RLeSlack(alo, blo, blo, K) /\ RLeSlack(bhi, ahi, bhi, K)
     /\ (ev.max >= 3 /\ ev.limited = 0) =>
          /\ Fin(ev.c0) /\ Fin(ev.c1)
          /\ RNear(V(ev.c0), V(ev.a0), V(ev.a0), K) /\ RNear(V(ev.c1), V(ev.a1), V(ev.a1), K)
          /\ ev.nmaj >= 2 /\ ev.nmaj <= ev.max
          /\ RNear(V(ev.mf), V(ev.a0), V(ev.a0), K) /\ RNear(V(ev.ml), V(ev.a1), V(ev.a1), K)
          /\ LET r == RAbs(V(ev.sp)) IN      \* ratio of consecutive major ticks (> 1)
             /\ RLt(blo, RMul(RMul(alo, r), RAdd(RatI(1, 1), RShr(RatI(1, 1), K))))
             /\ RLt(ahi, RMul(RMul(bhi, r), RAdd(RatI(1, 1), RShr(RatI(1, 1), K))))

Nice == /\ l <= Len(Trace) /\ Trace[l].op = "Nice" /\ l' = l + 1 /\ ncalls' = ncalls + 1
        /\ IF Trace[l].kind = "lin" THEN LinOK(Trace[l]) ELSE LogOK(Trace[l])
Reset == l <= Len(Trace) /\ Trace[l].op = "Reset" /\ l' = l + 1 /\ ncalls' = 0
Next == Nice \/ Reset
Spec == Init /\ [][Next]_vars
Accepted == TLCGet("stats").diameter - 1 = Len(Trace)
=============================================================================
