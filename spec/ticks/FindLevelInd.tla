---- MODULE FindLevelInd ----
EXTENDS Integers
VARIABLES
  \* @type: Int;
  l,
  \* @type: Str;
  pc,
  \* @type: Int;
  thr,
  \* @type: Int;
  minL,
  \* @type: Int;
  maxL
vars == <<l, pc, thr, minL, maxL>>
Fits(x) == x >= thr
TypeOK == pc \in {"start", "down", "up", "ok", "fail"}
\* guess is already clamped into [minL, maxL] in state "start"
Init == /\ thr \in Int /\ minL \in Int /\ maxL \in Int /\ l \in Int /\ pc = "start" /\ minL <= maxL /\ l >= minL /\ l <= maxL
Next == \/ /\ pc = "start" /\ Fits(l) /\ pc' = "down" /\ l' = l - 1 /\ UNCHANGED <<thr, minL, maxL>>
        \/ /\ pc = "start" /\ ~Fits(l) /\ pc' = "up" /\ l' = l + 1 /\ UNCHANGED <<thr, minL, maxL>>
        \/ /\ pc = "down" /\ l >= minL /\ Fits(l) /\ l' = l - 1 /\ UNCHANGED <<pc, thr, minL, maxL>>
        \/ /\ pc = "down" /\ ~(l >= minL /\ Fits(l)) /\ l' = l + 1 /\ pc' = "ok" /\ UNCHANGED <<thr, minL, maxL>>
        \/ /\ pc = "up" /\ l <= maxL /\ ~Fits(l) /\ l' = l + 1 /\ UNCHANGED <<pc, thr, minL, maxL>>
        \/ /\ pc = "up" /\ ~(l <= maxL /\ ~Fits(l)) /\ pc' = (IF l > maxL THEN "fail" ELSE "ok") /\ UNCHANGED <<l, thr, minL, maxL>>
        \/ /\ pc \in {"ok", "fail"} /\ UNCHANGED vars
Post == /\ (pc = "ok" => (l >= minL /\ l <= maxL /\ Fits(l) /\ (l = minL \/ ~Fits(l-1))))
        /\ (pc = "fail" => ~Fits(maxL))
IndInv == /\ TypeOK /\ minL <= maxL
          /\ (pc = "start" => (l >= minL /\ l <= maxL))
          /\ (pc = "down" => (Fits(l+1) /\ l+1 >= minL /\ l+1 <= maxL))
          /\ (pc = "up" => (~Fits(l-1) /\ l-1 >= minL /\ l-1 <= maxL))
          /\ Post
IndInit == /\ l \in Int /\ thr \in Int /\ minL \in Int /\ maxL \in Int
           /\ pc \in {"start", "down", "up", "ok", "fail"}
           /\ IndInv
====
