------------------------------ MODULE FindLevel ------------------------------
(***************************************************************************)
(* scale.TickOptions.FindLevel as a state machine: clamp the guess, then   *)
(* probe downwards while the level fits or upwards until it fits.          *)
(* A ticker with non-increasing counts is abstracted (soundly: the routine *)
(* only ever asks count(l) <= Max) by its threshold thr: level l fits iff  *)
(* l >= thr; thr = Never (no level fits) and thr = Always are included.    *)
(* Postcondition: the LOWEST level of [lo, hi] that fits, failure exactly  *)
(* when none does (or Max < 1, or MinLevel > MaxLevel); [lo,hi] is         *)
(* [MinLevel,MaxLevel], or [-Default,Default] when both are 0.             *)
(* The unbounded version (all integers) is FindLevelInd.tla (Apalache).    *)
(***************************************************************************)
EXTENDS Integers, TLC, Json
CONSTANTS Span,          \* thresholds, guesses and level limits range over -Span..Span
          Default        \* the library uses 1000
Lo == 0 - Span
Hi == Span
VARIABLES thr, guess, minL, maxL, max, pc, l, probes
vars == <<thr, guess, minL, maxL, max, pc, l, probes>>
Never == Hi + 5000
Always == Lo - 5000
Fits(x) == x >= thr
EffLo == IF minL = 0 /\ maxL = 0 THEN 0 - Default ELSE minL
EffHi == IF minL = 0 /\ maxL = 0 THEN Default ELSE maxL

Init == /\ thr \in (Lo..Hi) \cup {Never, Always}
        /\ guess \in (Lo - 2)..(Hi + 2)
        /\ minL \in Lo..Hi /\ maxL \in Lo..Hi
        /\ max \in {0, 1, 4}
        /\ pc = "entry" /\ l = 0 /\ probes = 0
Same == UNCHANGED <<thr, guess, minL, maxL, max>>
Entry == /\ pc = "entry" /\ Same /\ probes' = probes
         /\ IF (~(minL = 0 /\ maxL = 0) /\ minL > maxL) \/ max < 1
            THEN pc' = "fail" /\ l' = 0
            ELSE /\ l' = IF guess < EffLo THEN EffLo ELSE IF guess > EffHi THEN EffHi ELSE guess
                 /\ pc' = "start"
Start == /\ pc = "start" /\ Same /\ probes' = probes + 1
         /\ IF Fits(l) THEN pc' = "down" /\ l' = l - 1 ELSE pc' = "up" /\ l' = l + 1
Down == /\ pc = "down" /\ Same
        /\ IF l >= EffLo /\ Fits(l) THEN l' = l - 1 /\ pc' = "down" /\ probes' = probes + 1
           ELSE l' = l + 1 /\ pc' = "ok" /\ probes' = probes + (IF l >= EffLo THEN 1 ELSE 0)
Up == /\ pc = "up" /\ Same
      /\ IF l <= EffHi /\ ~Fits(l) THEN l' = l + 1 /\ pc' = "up" /\ probes' = probes + 1
         ELSE l' = l /\ pc' = (IF l > EffHi THEN "fail" ELSE "ok") /\ probes' = probes + (IF l <= EffHi THEN 1 ELSE 0)
Next == Entry \/ Start \/ Down \/ Up
Spec == Init /\ [][Next]_vars

\* ---- the definition: lowest fitting level of the effective range ----
Valid == max >= 1 /\ ((minL = 0 /\ maxL = 0) \/ minL <= maxL)
Want == IF ~Valid THEN [ok |-> FALSE, level |-> 0]
        ELSE LET first == IF thr > EffLo THEN thr ELSE EffLo IN
             IF first <= EffHi THEN [ok |-> TRUE, level |-> first] ELSE [ok |-> FALSE, level |-> 0]
Post == /\ pc = "ok" => (Want.ok /\ l = Want.level)
        /\ pc = "fail" => ~Want.ok
\* every probe the routine makes stays inside the effective range (tickers need not be defined outside)
ProbeInRange == pc \in {"start"} => (l >= EffLo /\ l <= EffHi)
\* the search is linear: never more probes than the distance to the answer plus two
Bounded == probes <= 2 * Default + 3

Emit == pc \in {"ok", "fail"} =>
   PrintT(ToJson([thr |-> thr, guess |-> guess, minL |-> minL, maxL |-> maxL, max |-> max,
                  ok |-> Want.ok, level |-> Want.level, probes |-> probes]))
=============================================================================
