CONSTANTS
  Span = @@Span@@
  Default = 1000
SPECIFICATION Spec
INVARIANTS Post ProbeInRange Bounded Emit
CHECK_DEADLOCK FALSE
