-------------------------------- MODULE Ticks --------------------------------
(***************************************************************************)
(* Tick placement of scale.Linear and scale.Log (exact arithmetic).        *)
(*                                                                         *)
(* Linear: domain [a, b] * B^s with small integers a < b (the "mantissa"   *)
(* domain) and scale exponent s; B = 10 when Base = 0.  Level l has        *)
(* spacing B^Floor(l/2) (times 5 for odd l when Base = 0); its ticks are   *)
(* the integer multiples of the spacing inside the domain.  Scaling the    *)
(* domain by B^s shifts levels by 2s, so the model works on the mantissa   *)
(* and carries s symbolically (1e-9..1e9 wide domains stay exact).         *)
(* Log: domain [m1 * B^e1, m2 * B^e2] (either sign); level l >= 0 has      *)
(* ticks B^(k * 2^l); level -1 the digit ticks d * B^k, d = 1..B-1.        *)
(* Ticks(o): majors = ticks at the LOWEST level within the level limits    *)
(* with at most o.Max ticks; minors = ticks one level below.               *)
(***************************************************************************)
EXTENDS Integers, Sequences, FiniteSets, TLC, Json, SmallRat
CONSTANTS LinDoms,   \* set of <<a, b>> integer mantissa domains, a < b
          LinBases,  \* subset of {0, 2, 3, 5, 10, 16}
          Scales,    \* set of scale exponents s (as naturals; the sign is a separate choice)
          LogDoms,   \* set of [m1, e1, m2, e2, neg] records
          LogBases,
          Maxes,     \* values of TickOptions.Max
          Limits     \* set of <<MinLevel, MaxLevel>>; <<0,0>> = no limits
VARIABLES kind, dom, opt, done
vars == <<kind, dom, opt, done>>
Null == [null |-> TRUE]

RECURSIVE IPow(_,_)
IPow(b, e) == IF e = 0 THEN 1 ELSE b * IPow(b, e - 1)
EBase(base) == IF base = 0 THEN 10 ELSE base
FloorDiv2(l) == l \div 2                 \* TLA+ \div floors
\* spacing of mantissa level l as a normalised rational
Spacing(base, l) == LET B == EBase(base)  e == FloorDiv2(l)
                        five == IF base = 0 /\ l % 2 = 1 THEN 5 ELSE 1
                    IN IF e >= 0 THEN QN(five * IPow(B, e), 1) ELSE QN(five, IPow(B, 0 - e))
CeilQ(x) == 0 - QFloor(<<0 - x[1], x[2]>>)
\* first and last multiple inside [a, b]
FirstN(a, sp) == CeilQ(QDiv(QI(a), sp))
LastN(b, sp) == QFloor(QDiv(QI(b), sp))
RECURSIVE ExpAbove(_,_,_)
ExpAbove(B, e, bound) == IF IPow(B, e) > bound THEN e ELSE ExpAbove(B, e + 1, bound)
\* below MLo the count exceeds 25 >= any Max considered (mantissa width >= 1); above MHi the spacing exceeds every |a|, |b| <= 4000,
\* so the only possible tick is 0
MLo(base) == 0 - 2 * ExpAbove(EBase(base), 0, 25) - 1
MHi(base) == 2 * ExpAbove(EBase(base), 0, 4000) + 1
Count(base, a, b, l) == IF l > MHi(base) THEN (IF a <= 0 /\ b >= 0 THEN 1 ELSE 0)
                        ELSE LET sp == Spacing(base, l) n == LastN(b, sp) - FirstN(a, sp) + 1 IN IF n < 0 THEN 0 ELSE n
TicksAt(base, a, b, l) == IF l > MHi(base) THEN (IF a <= 0 /\ b >= 0 THEN <<QI(0)>> ELSE <<>>)
                          ELSE LET sp == Spacing(base, l) f == FirstN(a, sp) n == Count(base, a, b, l)
                               IN [i \in 1..n |-> QMul(QI(f + i - 1), sp)]
\* mantissa levels that can matter: finer than -8 the count exceeds any Max <= 20 (width >= 1), coarser than 12 it is constant
RECURSIVE LowestFit(_,_,_,_,_)
LowestFit(base, a, b, mx, l) == IF l > MHi(base) THEN MHi(base) + 1 ELSE IF Count(base, a, b, l) <= mx THEN l ELSE LowestFit(base, a, b, mx, l + 1)
\* the level Ticks uses, in real levels (mantissa level + 2 s), within the limits; -9999 = none
RealLevel(base, a, b, s, mx, lim) ==
  LET thr == LowestFit(base, a, b, mx, MLo(base)) + 2 * s
      lo == IF lim = <<0, 0>> THEN -1000 ELSE lim[1]
      hi == IF lim = <<0, 0>> THEN 1000 ELSE lim[2]
      first == IF thr > lo THEN thr ELSE lo
  IN IF mx < 1 \/ lo > hi \/ first > hi THEN -9999 ELSE first
\* counts are non-increasing in the level (tick sets are nested): makes "lowest level that fits" a threshold
Nested(base, a, b) == \A l \in MLo(base)..(MHi(base) - 1) : Count(base, a, b, l + 1) <= Count(base, a, b, l)
MajorsInMinors(base, a, b, l) == LET M == TicksAt(base, a, b, l) m == TicksAt(base, a, b, l - 1) IN
   \A i \in 1..Len(M) : \E j \in 1..Len(m) : m[j] = M[i]

\* ---- Log ----
\* compare d * B^n with (p/q) * B^e for a digit 1 <= d < B and a mantissa 1 <= p/q < 2 <= B: -1, 0, 1.
\* A difference in the exponents decides (d B^n >= B^(e+1) > (p/q) B^e when n > e, and d B^n < B^(n+1) <= B^e when n < e).
LogCmp(B, d, n, p, q, e) ==
  IF n > e THEN 1 ELSE IF n < e THEN -1
  ELSE IF d * q < p THEN -1 ELSE IF d * q = p THEN 0 ELSE 1
\* exponents k (multiples of step) with m1 B^e1 <= B^k <= m2 B^e2 ; m = <<p, q>>
LogTickExps(B, d, step) == {k \in ((d.e1 - 2)..(d.e2 + 2)) : k % step = 0 /\ LogCmp(B, 1, k, d.m1[1], d.m1[2], d.e1) >= 0
                                                              /\ LogCmp(B, 1, k, d.m2[1], d.m2[2], d.e2) <= 0}
LogCount(B, d, l) == Cardinality(LogTickExps(B, d, IPow(2, l)))
RECURSIVE LogLowest(_,_,_,_)
LogLowest(B, d, mx, l) == IF l > 9 THEN 10 ELSE IF LogCount(B, d, l) <= mx THEN l ELSE LogLowest(B, d, mx, l + 1)
LogLevel(B, d, mx, lim) ==
  LET thr == LogLowest(B, d, mx, 0)            \* levels below 0 never fit
      lo == IF lim = <<0, 0>> THEN -1000 ELSE lim[1]
      hi == IF lim = <<0, 0>> THEN 1000 ELSE lim[2]
      first == IF thr > lo THEN thr ELSE lo
  IN IF mx < 1 \/ lo > hi \/ first > hi THEN -9999 ELSE first
\* digit ticks d * B^k inside the domain, as <<digit, exponent>>
DigitTicks(B, d) == {t \in (1..(B - 1)) \X ((d.e1 - 2)..(d.e2 + 2)) :
                        /\ LogCmp(B, t[1], t[2], d.m1[1], d.m1[2], d.e1) >= 0
                        /\ LogCmp(B, t[1], t[2], d.m2[1], d.m2[2], d.e2) <= 0}

-----------------------------------------------------------------------------
Init == kind \in {"lin", "log"} /\ dom = Null /\ opt = Null /\ done = FALSE
ChooseDom == /\ dom = Null
             /\ \/ kind = "lin" /\ \E ab \in LinDoms, b \in LinBases, s \in Scales, sg \in {-1, 1}, rev \in {FALSE, TRUE} :
                      dom' = [a |-> ab[1], b |-> ab[2], base |-> b, s |-> sg * s, rev |-> rev]
                \/ kind = "log" /\ \E d \in LogDoms, b \in LogBases : dom' = [d |-> d, base |-> b]
             /\ UNCHANGED <<kind, opt, done>>
ChooseOpt == /\ dom # Null /\ opt = Null
             /\ \E mx \in Maxes, lim \in Limits : opt' = [max |-> mx, lim |-> lim]
             /\ UNCHANGED <<kind, dom, done>>
Finish == opt # Null /\ ~done /\ done' = TRUE /\ UNCHANGED <<kind, dom, opt>>     \* evaluation step shared by the workers
Next == ChooseDom \/ ChooseOpt \/ Finish
Spec == Init /\ [][Next]_vars

LinOK == (kind = "lin" /\ dom # Null) => Nested(dom.base, dom.a, dom.b)
LevelsOK == (kind = "lin" /\ done) =>
   LET L == RealLevel(dom.base, dom.a, dom.b, dom.s, opt.max, opt.lim) IN
   L # -9999 => /\ Count(dom.base, dom.a, dom.b, L - 2 * dom.s) <= opt.max
                /\ MajorsInMinors(dom.base, dom.a, dom.b, L - 2 * dom.s)

Levels == -3..5
Emit == done =>
  IF kind = "lin"
  THEN LET L == RealLevel(dom.base, dom.a, dom.b, dom.s, opt.max, opt.lim)  ml == L - 2 * dom.s IN
       PrintT(ToJson([kind |-> "lin", base |-> dom.base, a |-> dom.a, b |-> dom.b, s |-> dom.s, rev |-> dom.rev,
                      max |-> opt.max, minL |-> opt.lim[1], maxL |-> opt.lim[2],
                      ok |-> L # -9999, level |-> L,
                      major |-> IF L = -9999 THEN <<>> ELSE TicksAt(dom.base, dom.a, dom.b, ml),
                      minor |-> IF L = -9999 THEN <<>> ELSE TicksAt(dom.base, dom.a, dom.b, ml - 1),
                      counts |-> [i \in 1..Cardinality(Levels) |-> Count(dom.base, dom.a, dom.b, (i - 4))]]))
  ELSE LET B == dom.base  d == dom.d  L == LogLevel(B, d, opt.max, opt.lim) IN
       PrintT(ToJson([kind |-> "log", base |-> B, m1 |-> d.m1, e1 |-> d.e1, m2 |-> d.m2, e2 |-> d.e2, neg |-> d.neg,
                      max |-> opt.max, minL |-> opt.lim[1], maxL |-> opt.lim[2],
                      ok |-> L # -9999, level |-> L,
                      major |-> IF L = -9999 THEN {} ELSE LogTickExps(B, d, IPow(2, IF L > 9 THEN 9 ELSE L)),
                      minor |-> IF L = -9999 \/ L = 0 THEN {} ELSE LogTickExps(B, d, IPow(2, IF L > 10 THEN 9 ELSE L - 1)),
                      digits |-> IF L = 0 THEN DigitTicks(B, d) ELSE {},
                      counts |-> [i \in 1..8 |-> LogCount(B, d, i - 1)]]))

LinDomsQuick == {<<0, 1>>, <<0, 10>>, <<-3, 7>>, <<1, 3>>, <<12, 998>>, <<-1300, -250>>, <<-7, 100>>, <<99, 101>>, <<5, 6>>, <<-50, 50>>, <<0, 17>>, <<3, 1997>>}
LinDomsThorough == LinDomsQuick \cup {ab \in {-999, -100, -21, -1, 0, 2, 8, 49, 100, 333} \X {-99, -20, 1, 4, 9, 51, 101, 334, 1000, 1999} : ab[1] < ab[2]}
LogDomsQuick == {
  [m1 |-> <<1, 1>>, e1 |-> 0, m2 |-> <<1, 1>>, e2 |-> 3, neg |-> FALSE],
  [m1 |-> <<1, 1>>, e1 |-> -2, m2 |-> <<1, 1>>, e2 |-> 2, neg |-> TRUE],
  [m1 |-> <<3, 2>>, e1 |-> 0, m2 |-> <<7, 4>>, e2 |-> 5, neg |-> FALSE],
  [m1 |-> <<3, 2>>, e1 |-> 1, m2 |-> <<7, 4>>, e2 |-> 1, neg |-> FALSE],
  [m1 |-> <<1, 1>>, e1 |-> -20, m2 |-> <<1, 1>>, e2 |-> 20, neg |-> FALSE],
  [m1 |-> <<5, 4>>, e1 |-> -7, m2 |-> <<3, 2>>, e2 |-> 12, neg |-> TRUE],
  [m1 |-> <<1, 1>>, e1 |-> 2, m2 |-> <<3, 2>>, e2 |-> 2, neg |-> FALSE],
  \* several decades below 1 ending exactly on a power: the digit ticks of every decade must reach the next power
  [m1 |-> <<1, 1>>, e1 |-> -3, m2 |-> <<1, 1>>, e2 |-> 0, neg |-> FALSE],
  [m1 |-> <<1, 1>>, e1 |-> -5, m2 |-> <<1, 1>>, e2 |-> 2, neg |-> FALSE],
  [m1 |-> <<1, 1>>, e1 |-> -4, m2 |-> <<1, 1>>, e2 |-> -1, neg |-> TRUE],
  [m1 |-> <<5, 4>>, e1 |-> -6, m2 |-> <<1, 1>>, e2 |-> -2, neg |-> FALSE],
  [m1 |-> <<1, 1>>, e1 |-> -1, m2 |-> <<1, 1>>, e2 |-> 8, neg |-> FALSE] }
LogDomsThorough == LogDomsQuick \cup {
  [m1 |-> <<1, 1>>, e1 |-> -100, m2 |-> <<1, 1>>, e2 |-> 100, neg |-> FALSE],
  [m1 |-> <<3, 2>>, e1 |-> -100, m2 |-> <<3, 2>>, e2 |-> 99, neg |-> TRUE],
  [m1 |-> <<1, 1>>, e1 |-> 0, m2 |-> <<1, 1>>, e2 |-> 64, neg |-> FALSE],
  [m1 |-> <<1, 1>>, e1 |-> -33, m2 |-> <<5, 4>>, e2 |-> -31, neg |-> FALSE],
  [m1 |-> <<7, 4>>, e1 |-> 3, m2 |-> <<5, 4>>, e2 |-> 4, neg |-> TRUE] }
\* (limits with one end exactly 0 are limits, not the "no limits" value <<0,0>>)
LimitsDef == {<<0, 0>>, <<-2, 3>>, <<1, 1>>, <<4, 2>>, <<-6, -5>>, <<2, 12>>, <<-3, 0>>, <<0, 2>>}
=============================================================================
