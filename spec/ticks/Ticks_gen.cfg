CONSTANTS
  LinDoms <- @@LinDoms@@
  LinBases = @@LinBases@@
  Scales = @@Scales@@
  LogDoms <- @@LogDoms@@
  LogBases = @@LogBases@@
  Maxes = @@Maxes@@
  Limits <- LimitsDef
SPECIFICATION Spec
INVARIANTS LinOK LevelsOK Emit
CHECK_DEADLOCK FALSE
