CONSTANTS
  Xs <- XsDef
  Levels = @@Levels@@
  Unit = @@Unit@@
  MaxBP = @@MaxBP@@
SPECIFICATION Spec
INVARIANTS Laws Emit
CHECK_DEADLOCK FALSE
