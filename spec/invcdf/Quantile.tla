------------------------------- MODULE Quantile -------------------------------
(***************************************************************************)
(* stats.InvCDF for user-defined distributions (the generic, bisecting     *)
(* quantile function).                                                     *)
(*                                                                         *)
(* A distribution is a finite list of breakpoints bp[i] = [x, lo, hi]:     *)
(* integer abscissae ascending, CDF levels in units of 1/Unit,             *)
(* non-decreasing from 0 to Unit.  F jumps from lo to hi at x (F(x) = hi), *)
(* is linear between consecutive breakpoints, 0 before the first and 1     *)
(* after the last.  Bounds are the first/last breakpoint, possibly padded, *)
(* or cut short (upper bound where F is still below 1).                    *)
(* Inv(y), 0 < y < 1, is the SMALLEST x with F(x) >= y (exact rational).   *)
(***************************************************************************)
EXTENDS Integers, Sequences, FiniteSets, TLC, Json, SmallRat
CONSTANTS Xs,         \* candidate abscissae
          Levels,     \* candidate CDF levels (multiples of 1/Unit)
          Unit,
          MaxBP       \* number of breakpoints
VARIABLES bp, bounds, done
vars == <<bp, bounds, done>>

Last == bp[Len(bp)]
Complete == Len(bp) >= 2 /\ Last.hi = Unit
Init == bp = <<>> /\ bounds = "none" /\ done = FALSE
AddBP == /\ bounds = "none" /\ Len(bp) < MaxBP /\ ~(Len(bp) >= 1 /\ Last.hi = Unit)
         /\ \E x \in Xs, lo \in Levels, hi \in Levels :
              /\ lo <= hi
              /\ IF bp = <<>> THEN lo = 0 ELSE x > Last.x /\ lo >= Last.hi
              /\ (Len(bp) = MaxBP - 1 => hi = Unit)
              /\ bp' = Append(bp, [x |-> x, lo |-> lo, hi |-> hi])
         /\ UNCHANGED <<bounds, done>>
PickBounds == /\ bounds = "none" /\ Complete /\ \E b \in {"tight", "padded", "short", "shortlo", "shortboth"} : bounds' = b
              /\ UNCHANGED <<bp, done>>
Finish == bounds # "none" /\ ~done /\ done' = TRUE /\ UNCHANGED <<bp, bounds>>
Next == AddBP \/ PickBounds \/ Finish
Spec == Init /\ [][Next]_vars

\* F at a rational point x (as a rational level in [0,1])
F(x) == IF QLt(x, QI(bp[1].x)) THEN QI(0)
        ELSE IF QLe(QI(Last.x), x) THEN QI(1)
        ELSE LET i == CHOOSE j \in 1..(Len(bp) - 1) : QLe(QI(bp[j].x), x) /\ QLt(x, QI(bp[j + 1].x)) IN
             QAdd(QN(bp[i].hi, Unit),
                  QMul(QN(bp[i + 1].lo - bp[i].hi, Unit), QDiv(QSub(x, QI(bp[i].x)), QI(bp[i + 1].x - bp[i].x))))
\* smallest x with F(x) >= y/Unit, for 0 < y < Unit
Inv(y) == LET i == CHOOSE j \in 1..Len(bp) : bp[j].hi >= y /\ \A k \in 1..(j - 1) : bp[k].hi < y IN
          IF bp[i].lo < y \/ i = 1 THEN QI(bp[i].x)
          ELSE \* bp[i-1].hi < y <= bp[i].lo : on the ramp
               QAdd(QI(bp[i - 1].x), QMul(QN(y - bp[i - 1].hi, bp[i].lo - bp[i - 1].hi), QI(bp[i].x - bp[i - 1].x)))
\* Bounds need not be the support: "padded" lies outside it, "short" / "shortlo" / "shortboth" cut into it (the interface
\* allows approximate bounds for distributions of unbounded support: some probability lies beyond them)
LoBound == IF bounds = "padded" THEN bp[1].x - 3 ELSE IF bounds \in {"shortlo", "shortboth"} THEN bp[2].x ELSE bp[1].x
HiBound == IF bounds = "padded" THEN Last.x + 5 ELSE IF bounds \in {"short", "shortboth"} THEN bp[Len(bp) - 1].x ELSE Last.x
\* y = 0: the lower bound if F is exactly 0 there, else -inf ; y = 1: the upper bound if F is exactly 1 there, else +inf
Inv0 == IF F(QI(LoBound)) = QI(0) THEN [kind |-> "fin", v |-> LoBound] ELSE [kind |-> "-inf", v |-> 0]
Inv1 == IF F(QI(HiBound)) = QI(1) THEN [kind |-> "fin", v |-> HiBound] ELSE [kind |-> "+inf", v |-> 0]

\* ---- laws of the definition ----
Ys == 1..(Unit - 1)
Laws == done =>
  /\ \A y \in Ys : QLe(QN(y, Unit), F(Inv(y)))                                        \* F(Inv(y)) >= y
  /\ \A y \in Ys : \A d \in {1, 2, 8} : QLt(F(QSub(Inv(y), QN(1, d))), QN(y, Unit))   \* nothing smaller reaches y
  /\ \A y \in 1..(Unit - 2) : QLe(Inv(y), Inv(y + 1))                                 \* non-decreasing in y

Emit == done => PrintT(ToJson([bp |-> bp, unit |-> Unit, bounds |-> bounds, lob |-> LoBound, hib |-> HiBound,
                               inv0 |-> Inv0, inv1 |-> Inv1, q |-> [y \in Ys |-> Inv(y)]]))
XsDef == {-3, 0, 1, 4, 9}
=============================================================================
