------------------------------- MODULE BigInt -------------------------------
(***************************************************************************)
(* Exact arithmetic for TLC.  TLC integers are 32 bit and overflow is a    *)
(* run-time error, so everything that can grow is a limb sequence.         *)
(*   natural : little-endian limbs, base 10^4, no trailing zeros, 0 = <<>> *)
(*   signed  : [s |-> -1|0|1, m |-> natural]                               *)
(*   rational: [n |-> signed, d |-> natural > 0]   (not normalised)        *)
(*   dyadic  : [s, m, e]  value = s * m * 2^e  (exact image of a float64)  *)
(* Operators are RECURSIVE operators (TLC does not memoise recursive       *)
(* function definitions) and never return lazy function constructors.      *)
(***************************************************************************)
EXTENDS Integers, Sequences, TLC

BASE == 10000

RECURSIVE Trim(_)
Trim(a) == IF a # <<>> /\ a[Len(a)] = 0 THEN Trim(SubSeq(a, 1, Len(a)-1)) ELSE a

RECURSIVE FromNat(_)
FromNat(n) == IF n = 0 THEN <<>> ELSE <<n % BASE>> \o FromNat(n \div BASE)

\* value of a natural that is known to fit into a TLC integer
RECURSIVE ToNat(_)
ToNat(a) == IF a = <<>> THEN 0 ELSE Head(a) + BASE * ToNat(Tail(a))

RECURSIVE AddC(_,_,_)
AddC(a, b, c) ==
  IF a = <<>> /\ b = <<>> THEN (IF c = 0 THEN <<>> ELSE <<c>>)
  ELSE LET x == IF a = <<>> THEN 0 ELSE Head(a)
           y == IF b = <<>> THEN 0 ELSE Head(b)
           s == x + y + c
       IN <<s % BASE>> \o AddC(IF a = <<>> THEN a ELSE Tail(a),
                            IF b = <<>> THEN b ELSE Tail(b), s \div BASE)
Add(a, b) == AddC(a, b, 0)

\* a * k for a TLC integer 0 <= k <= 200000
RECURSIVE MulSC(_,_,_)
MulSC(a, k, c) == IF a = <<>> THEN FromNat(c)
                  ELSE LET s == Head(a)*k + c IN <<s % BASE>> \o MulSC(Tail(a), k, s \div BASE)
MulS(a, k) == IF k = 0 \/ a = <<>> THEN <<>> ELSE MulSC(a, k, 0)

RECURSIVE Mul(_,_)
Mul(a, b) == IF b = <<>> \/ a = <<>> THEN <<>>
             ELSE LET r == Mul(a, Tail(b))
                  IN Add(MulS(a, Head(b)), IF r = <<>> THEN <<>> ELSE <<0>> \o r)

Cmp(a, b) == IF Len(a) # Len(b) THEN (IF Len(a) < Len(b) THEN -1 ELSE 1)
             ELSE LET d == {i \in 1..Len(a) : a[i] # b[i]} IN
                  IF d = {} THEN 0
                  ELSE LET m == CHOOSE i \in d : \A j \in d : j <= i
                       IN IF a[m] < b[m] THEN -1 ELSE 1

\* a - b for a >= b
RECURSIVE SubB(_,_,_)
SubB(a, b, br) ==
  IF a = <<>> THEN <<>>
  ELSE LET y == IF b = <<>> THEN 0 ELSE Head(b)
           d == Head(a) - y - br
       IN <<IF d < 0 THEN d + BASE ELSE d>> \o
          SubB(Tail(a), IF b = <<>> THEN b ELSE Tail(b), IF d < 0 THEN 1 ELSE 0)
Sub(a, b) == Trim(SubB(a, b, 0))
AbsDiff(a, b) == IF Cmp(a, b) >= 0 THEN Sub(a, b) ELSE Sub(b, a)

\* exact quotient and remainder by a TLC integer 1 <= k <= 200000 (big-endian walk)
DivS(a, k) ==
  LET RECURSIVE Go(_,_)
      Go(i, rem) == IF i = 0 THEN <<<<>>, rem>>
                    ELSE LET cur == rem * BASE + a[i]
                             rest == Go(i-1, cur % k)
                         IN <<Append(rest[1], cur \div k), rest[2]>>
      r == Go(Len(a), 0)
      \* Go appends the most significant quotient limb last while recursing downwards,
      \* so rest[1] holds the less significant limbs first: already little-endian.
  IN [q |-> Trim(r[1]), r |-> r[2]]

RECURSIVE Pow2(_)
Pow2(e) == IF e = 0 THEN <<1>> ELSE IF e >= 13 THEN MulS(Pow2(e-13), 8192) ELSE MulS(Pow2(e-1), 2)

RECURSIVE PowS(_,_)
PowS(k, e) == IF e = 0 THEN <<1>> ELSE MulS(PowS(k, e-1), k)

RECURSIVE PowN(_,_)
PowN(a, e) == IF e = 0 THEN <<1>> ELSE Mul(PowN(a, e-1), a)

-----------------------------------------------------------------------------
\* signed integers
SZero == [s |-> 0, m |-> <<>>]
SFrom(n) == IF n = 0 THEN SZero
            ELSE IF n > 0 THEN [s |-> 1, m |-> FromNat(n)] ELSE [s |-> -1, m |-> FromNat(0-n)]
SNat(a) == IF a = <<>> THEN SZero ELSE [s |-> 1, m |-> a]
SMul(x, y) == IF x.s = 0 \/ y.s = 0 THEN SZero ELSE [s |-> x.s*y.s, m |-> Mul(x.m, y.m)]
SNeg(x) == [s |-> 0 - x.s, m |-> x.m]
SAbs(x) == [s |-> IF x.s = 0 THEN 0 ELSE 1, m |-> x.m]
SAdd(x, y) == IF x.s = 0 THEN y ELSE IF y.s = 0 THEN x
              ELSE IF x.s = y.s THEN [s |-> x.s, m |-> Add(x.m, y.m)]
              ELSE LET c == Cmp(x.m, y.m) IN
                   IF c = 0 THEN SZero
                   ELSE IF c > 0 THEN [s |-> x.s, m |-> Sub(x.m, y.m)]
                   ELSE [s |-> y.s, m |-> Sub(y.m, x.m)]
SSub(x, y) == SAdd(x, SNeg(y))
SCmp(x, y) == SSub(x, y).s
SMulI(x, k) == SMul(x, SFrom(k))
SToInt(x) == x.s * ToNat(x.m)

-----------------------------------------------------------------------------
\* rationals [n |-> signed, d |-> natural > 0]
Rat(n, d) == [n |-> n, d |-> d]
RatI(p, q) == IF q > 0 THEN [n |-> SFrom(p), d |-> FromNat(q)] ELSE [n |-> SFrom(0-p), d |-> FromNat(0-q)]
RCmp(x, y) == SCmp(SMul(x.n, SNat(y.d)), SMul(y.n, SNat(x.d)))
RAdd(x, y) == [n |-> SAdd(SMul(x.n, SNat(y.d)), SMul(y.n, SNat(x.d))), d |-> Mul(x.d, y.d)]
RSub(x, y) == [n |-> SSub(SMul(x.n, SNat(y.d)), SMul(y.n, SNat(x.d))), d |-> Mul(x.d, y.d)]
RMul(x, y) == [n |-> SMul(x.n, y.n), d |-> Mul(x.d, y.d)]
REq(x, y) == RCmp(x, y) = 0

-----------------------------------------------------------------------------
\* dyadic d = [s, m, e] (image of a float64): numerator/denominator form
DyNum(d) == IF d.s = 0 THEN SZero
            ELSE [s |-> d.s, m |-> IF d.e >= 0 THEN Mul(d.m, Pow2(d.e)) ELSE d.m]
DyDen(d) == IF d.e >= 0 THEN <<1>> ELSE Pow2(0 - d.e)
DyRat(d) == [n |-> DyNum(d), d |-> DyDen(d)]

\* |x - y| <= 2^-k * (|y| + a) for rationals x, y and a natural-valued rational slack a >= 0
\*   x = xn/xd, y = yn/yd, a = an/ad :
\*   |xn*yd - yn*xd| * 2^k * ad  <=  xd * (|yn|*ad + an*yd)
RClose(x, y, a, k) ==
  LET lhs == Mul(Mul(SSub(SMul(x.n, SNat(y.d)), SMul(y.n, SNat(x.d))).m, Pow2(k)), a.d)
      rhs == Mul(x.d, Add(Mul(y.n.m, a.d), Mul(a.n.m, y.d)))
  IN Cmp(lhs, rhs) <= 0
DyClose(d, y, a, k) == RClose(DyRat(d), y, a, k)
RLe(x, y) == RCmp(x, y) <= 0
RLt(x, y) == RCmp(x, y) < 0
RAbs(x) == [n |-> SAbs(x.n), d |-> x.d]
RShr(x, k) == [n |-> x.n, d |-> Mul(x.d, Pow2(k))]          \* x * 2^-k
\* x <= y + 2^-k * |w|   and   |x - y| <= 2^-k * |w|
RLeSlack(x, y, w, k) == RLe(x, RAdd(y, RShr(RAbs(w), k)))
RNear(x, y, w, k) == RLe(RAbs(RSub(x, y)), RShr(RAbs(w), k))
=============================================================================
