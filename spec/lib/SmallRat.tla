------------------------------ MODULE SmallRat ------------------------------
(* Rationals over plain TLC integers, normalised <<num, den>> with den > 0.   *)
(* Only for models whose numbers stay far below 2^31 (TLC reports overflow).  *)
EXTENDS Integers
RECURSIVE GCDp(_,_)
GCDp(a, b) == IF b = 0 THEN a ELSE GCDp(b, a % b)                      \* a, b >= 0
GCD(a, b) == GCDp(IF a < 0 THEN 0 - a ELSE a, IF b < 0 THEN 0 - b ELSE b)
QN(p, q) == LET g == GCD(p, q)
                s == IF q < 0 THEN -1 ELSE 1
            IN IF p = 0 THEN <<0, 1>> ELSE <<s * (p \div g), s * (q \div g)>>
QI(n) == <<n, 1>>
\* operations reduce before they multiply (least common denominator, cross-cancellation) to stay inside TLC's 32-bit integers
QAdd(x, y) == LET g == GCD(x[2], y[2]) IN QN(x[1] * (y[2] \div g) + y[1] * (x[2] \div g), (x[2] \div g) * y[2])
QSub(x, y) == QAdd(x, <<0 - y[1], y[2]>>)
QMul(x, y) == LET g1 == GCD(x[1], y[2])  g2 == GCD(y[1], x[2]) IN
              IF x[1] = 0 \/ y[1] = 0 THEN <<0, 1>>
              ELSE QN((x[1] \div g1) * (y[1] \div g2), (x[2] \div g2) * (y[2] \div g1))
QDiv(x, y) == IF y[1] > 0 THEN QMul(x, <<y[2], y[1]>>) ELSE QMul(x, <<0 - y[2], 0 - y[1]>>)   \* y # 0 (division by zero is a TLC error)
QLt(x, y) == x[1]*y[2] < y[1]*x[2]
QLe(x, y) == x[1]*y[2] <= y[1]*x[2]
QFloor(x) == x[1] \div x[2]                      \* TLA+ \div floors
=============================================================================
