---- MODULE QCI ----
EXTENDS BigInt, FiniteSets
One == <<1>>
RowNext(p) == TLCEval([k \in 1..(Len(p)+1) |-> IF k = 1 \/ k = Len(p)+1 THEN One ELSE Add(p[k-1], p[k])])
RECURSIVE RowN(_)
RowN(m) == IF m = 0 THEN <<One>> ELSE RowNext(TLCEval(RowN(m-1)))
RECURSIVE PowS(_,_)
PowS(a, e) == IF e = 0 THEN One ELSE MulS(PowS(a, e-1), a)
Masses(n, a, b) == LET row == TLCEval(RowN(n)) IN
   TLCEval([k \in 1..(n+1) |-> Mul(row[k], Mul(PowS(a, k-1), PowS(b-a, n-k+1)))])
RECURSIVE SumR(_,_,_)
SumR(m, lo, hi) == IF lo > hi THEN <<>> ELSE Add(m[lo], SumR(m, lo+1, hi))
\* buckets lo..hi-1 (0-based k) -> indices lo+1..hi
Mass(m, lo, hi) == SumR(m, (IF lo < 0 THEN 0 ELSE lo)+1, IF hi > Len(m) THEN Len(m) ELSE hi)
VARIABLES n, a, done
Init == n \in 25..30 /\ a \in 0..40 /\ done = FALSE
Next == done' = TRUE /\ UNCHANGED <<n, a>>
\* for each c = j/200 find some interval greedily? here: just evaluate Valid-like checks for all (lo,hi) pairs count
Inv == LET m == Masses(n, a, 40)
           den == PowS(40, n)
           cnt == Cardinality({p \in (0..n) \X (1..(n+1)) : p[1] < p[2] /\ Cmp(MulS(Mass(m, p[1], p[2]), 200), MulS(den, 190)) >= 0})
       IN Cmp(Mass(m, 0, n+1), den) = 0 /\ cnt >= 0
====
