CONSTANT MaxN = 9
INIT Init
NEXT Next
INVARIANT Case
CHECK_DEADLOCK FALSE
