CONSTANT N = 4
INIT Init
NEXT Next
INVARIANT Emit
CHECK_DEADLOCK FALSE
