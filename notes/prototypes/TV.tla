---- MODULE TV ----
EXTENDS Integers, Sequences, FiniteSets, TLC, Json, IOUtils, FiniteSetsExt
Trace == ndJsonDeserialize("trace.ndjson")
VARIABLES marks, l
vars == <<marks, l>>
Init == marks = {} /\ l = 1
Ev(e) == l <= Len(Trace) /\ Trace[l].op = e /\ l' = l + 1
Mark == Ev("Mark") /\ marks' = marks \cup {Trace[l].n}
Unmark == Ev("Unmark") /\ marks' = marks \ {Trace[l].n}
Test == Ev("Test") /\ UNCHANGED marks /\ Trace[l].r = (IF Trace[l].n \in marks THEN 1 ELSE 0)
NextA == Ev("Next") /\ UNCHANGED marks /\ LET c == {x \in marks : x > Trace[l].n} IN Trace[l].r = (IF c = {} THEN -1 ELSE Min(c))
Next == Mark \/ Unmark \/ Test \/ NextA
Spec == Init /\ [][Next]_vars
Accepted == TLCGet("stats").diameter - 1 = Len(Trace)
====
