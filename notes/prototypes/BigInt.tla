---- MODULE BigInt ----
EXTENDS Integers, Sequences, TLC
\* naturals: little-endian limbs base 10^4, no trailing zeros, zero = <<>>
B == 10000
RECURSIVE Trim(_)
Trim(a) == IF a # <<>> /\ a[Len(a)] = 0 THEN Trim(SubSeq(a,1,Len(a)-1)) ELSE a
RECURSIVE FromNat(_)
FromNat(n) == IF n = 0 THEN <<>> ELSE <<n % B>> \o FromNat(n \div B)
RECURSIVE AddC(_,_,_)
AddC(a,b,c) == IF a = <<>> /\ b = <<>> THEN (IF c = 0 THEN <<>> ELSE <<c>>)
               ELSE LET x == IF a = <<>> THEN 0 ELSE Head(a)
                        y == IF b = <<>> THEN 0 ELSE Head(b)
                        s == x + y + c
                    IN <<s % B>> \o AddC(IF a = <<>> THEN a ELSE Tail(a), IF b = <<>> THEN b ELSE Tail(b), s \div B)
Add(a,b) == AddC(a,b,0)
RECURSIVE MulSC(_,_,_)
MulSC(a,k,c) == IF a = <<>> THEN FromNat(c)
                ELSE LET s == Head(a)*k + c IN <<s % B>> \o MulSC(Tail(a), k, s \div B)
MulS(a,k) == IF k = 0 \/ a = <<>> THEN <<>> ELSE MulSC(a,k,0)   \* 0 <= k < 10^4*... keep k < 200000
RECURSIVE Mul(_,_)
Mul(a,b) == IF b = <<>> \/ a = <<>> THEN <<>> ELSE Add(MulS(a, Head(b)), IF Mul(a, Tail(b)) = <<>> THEN <<>> ELSE <<0>> \o Mul(a, Tail(b)))
Cmp(a,b) == IF Len(a) # Len(b) THEN (IF Len(a) < Len(b) THEN -1 ELSE 1)
            ELSE LET d == {i \in 1..Len(a) : a[i] # b[i]} IN
                 IF d = {} THEN 0 ELSE LET m == CHOOSE i \in d : \A j \in d : j <= i IN IF a[m] < b[m] THEN -1 ELSE 1
\* a >= b assumed
RECURSIVE SubB(_,_,_)
SubB(a,b,br) == IF a = <<>> THEN <<>>
                ELSE LET y == IF b = <<>> THEN 0 ELSE Head(b)
                         d == Head(a) - y - br
                     IN <<IF d < 0 THEN d + B ELSE d>> \o SubB(Tail(a), IF b = <<>> THEN b ELSE Tail(b), IF d < 0 THEN 1 ELSE 0)
Sub(a,b) == Trim(SubB(a,b,0))
AbsDiff(a,b) == IF Cmp(a,b) >= 0 THEN Sub(a,b) ELSE Sub(b,a)
RECURSIVE Pow2(_)
Pow2(e) == IF e = 0 THEN <<1>> ELSE IF e >= 13 THEN MulS(Pow2(e-13), 8192) ELSE MulS(Pow2(e-1), 2)
\* signed ints as [s |-> -1/0/1, m |-> nat]
SFrom(n) == IF n = 0 THEN [s |-> 0, m |-> <<>>] ELSE IF n > 0 THEN [s |-> 1, m |-> FromNat(n)] ELSE [s |-> -1, m |-> FromNat(0-n)]
SMul(x,y) == IF x.s = 0 \/ y.s = 0 THEN [s |-> 0, m |-> <<>>] ELSE [s |-> x.s*y.s, m |-> Mul(x.m,y.m)]
SNeg(x) == [s |-> 0 - x.s, m |-> x.m]
SAdd(x,y) == IF x.s = 0 THEN y ELSE IF y.s = 0 THEN x
             ELSE IF x.s = y.s THEN [s |-> x.s, m |-> Add(x.m,y.m)]
             ELSE LET c == Cmp(x.m,y.m) IN IF c = 0 THEN [s |-> 0, m |-> <<>>]
                  ELSE IF c > 0 THEN [s |-> x.s, m |-> Sub(x.m,y.m)] ELSE [s |-> y.s, m |-> Sub(y.m,x.m)]
SSub(x,y) == SAdd(x, SNeg(y))
SCmp(x,y) == LET d == SSub(x,y) IN d.s
====
