---- MODULE MW ----
EXTENDS Integers, Sequences, FiniteSets, TLC, Json
CONSTANT MaxN
RECURSIVE SumSeq(_)
SumSeq(s) == IF s = <<>> THEN 0 ELSE Head(s) + SumSeq(Tail(s))
RECURSIVE Ch(_,_)
Ch(n,k) == IF k < 0 \/ k > n THEN 0 ELSE IF k = 0 \/ k = n THEN 1 ELSE Ch(n-1,k-1) + Ch(n-1,k)
\* allocations r for tie vector T with total n1: sequences r, 0<=r[k]<=T[k]
RECURSIVE Allocs(_,_)
Allocs(T, n1) == IF T = <<>> THEN (IF n1 = 0 THEN {<<>>} ELSE {})
                 ELSE UNION { {<<a>> \o rest : rest \in Allocs(Tail(T), n1 - a)} : a \in 0..(IF Head(T) < n1 THEN Head(T) ELSE n1) }
RECURSIVE TwoUAcc(_,_,_)
\* below = number of sample-2 elements strictly below current rank
TwoUAcc(T, r, below) == IF T = <<>> THEN 0
   ELSE Head(r) * (2*below + (Head(T) - Head(r))) + TwoUAcc(Tail(T), Tail(r), below + Head(T) - Head(r))
TwoU(T, r) == TwoUAcc(T, r, 0)
RECURSIVE Mult(_,_)
Mult(T, r) == IF T = <<>> THEN 1 ELSE Ch(Head(T), Head(r)) * Mult(Tail(T), Tail(r))
VARIABLES T, n1
vars == <<T, n1>>
Init == T = <<>> /\ n1 = 0
\* grow the composition one rank at a time; n1 chosen when complete: states (T, 0) are construction states, (T, n1>0) are cases
Next == \/ /\ n1 = 0 /\ SumSeq(T) < MaxN
           /\ \E t \in 1..(MaxN - SumSeq(T)) : T' = Append(T, t) /\ n1' = 0
        \/ /\ n1 = 0 /\ Len(T) >= 2
           /\ \E k \in 1..(SumSeq(T) - 1) : n1' = k /\ T' = T
Case == n1 > 0 =>
  LET N == SumSeq(T)
      A == Allocs(T, n1)
      tu == [r \in A |-> TwoU(T, r)]
      cnt == [u \in 0..(2*n1*(N-n1)) |-> LET S == {r \in A : tu[r] = u} IN
                 IF S = {} THEN 0 ELSE LET RECURSIVE Sm(_)
                                           Sm(X) == IF X = {} THEN 0 ELSE LET x == CHOOSE y \in X : TRUE IN Mult(T, x) + Sm(X \ {x})
                                       IN Sm(S)]
      tot == LET RECURSIVE Tt(_)
                 Tt(u) == IF u < 0 THEN 0 ELSE cnt[u] + Tt(u-1)
             IN Tt(2*n1*(N-n1))
  IN /\ tot = Ch(N, n1)
     /\ PrintT(ToJson([T |-> T, n1 |-> n1, cnt |-> [u \in 1..(2*n1*(N-n1)+1) |-> cnt[u-1]], al |-> {<<r, tu[r]>> : r \in A}]))
====
