---- MODULE StreamTrace ----
EXTENDS BigInt, Json, IOUtils, FiniteSets
Trace == ndJsonDeserialize("trace.ndjson")
VARIABLES st, l   \* st[a] = [n, S, Q, mn, mx] ints (small values)
vars == <<st, l>>
Acc == 0..3
Zero == [n |-> 0, S |-> 0, Q |-> 0, mn |-> 0, mx |-> 0]
Init == st = [a \in Acc |-> Zero] /\ l = 1
\* dyadic float d = [s, m (limbs), e] value = s * m * 2^e ; check |d - p/q| <= |p/q| * 10^-k + 10^-k  (q>0 ints as signed big)
\* |s*m*2^e*q - p| * 10^k <= (|p| + q) * 2^-... handle e<0: multiply both sides by 2^-e
Close(d, p, q, k) ==
   LET dm == [s |-> d.s, m |-> d.m]
       pe == IF d.e >= 0 THEN p ELSE [s |-> p.s, m |-> Mul(p.m, Pow2(0 - d.e))]
       qe == IF d.e >= 0 THEN q ELSE [s |-> 1, m |-> Mul(q.m, Pow2(0 - d.e))]
       lhs0 == IF d.e >= 0 THEN SMul([s |-> dm.s, m |-> Mul(dm.m, Pow2(d.e))], q) ELSE SMul(dm, q)
       diff == SSub(lhs0, pe)
       tenk == Mul(Pow2(k), <<1>>)   \* use 2^k as tolerance scale
       lhs == Mul(diff.m, tenk)
       rhs == Add(pe.m, qe.m)
   IN Cmp(lhs, rhs) <= 0
Obs(a) == st[a]
Check(a, ev) ==
   LET o == st'[a] IN
   /\ ev.n = o.n
   /\ o.n > 0 => /\ ev.mn = o.mn /\ ev.mx = o.mx /\ ev.tot = o.S
                 /\ Close(ev.mean, SFrom(o.S), SFrom(o.n), 40)
   /\ o.n > 1 => Close(ev.var, SFrom(o.n*o.Q - o.S*o.S), SFrom(o.n*(o.n-1)), 36)
Ev == l <= Len(Trace) /\ l' = l + 1
AddA == /\ Ev /\ Trace[l].op = "Add"
        /\ LET a == Trace[l].a  v == Trace[l].v  o == st[a] IN
           st' = [st EXCEPT ![a] = [n |-> o.n+1, S |-> o.S+v, Q |-> o.Q+v*v,
                                    mn |-> IF o.n = 0 \/ v < o.mn THEN v ELSE o.mn,
                                    mx |-> IF o.n = 0 \/ v > o.mx THEN v ELSE o.mx]]
        /\ Check(Trace[l].a, Trace[l])
Comb == /\ Ev /\ Trace[l].op = "Combine"
        /\ LET a == Trace[l].a  b == Trace[l].b  x == st[a]  y == st[b] IN
           st' = [st EXCEPT ![a] = IF y.n = 0 THEN x ELSE IF x.n = 0 THEN y ELSE
                    [n |-> x.n+y.n, S |-> x.S+y.S, Q |-> x.Q+y.Q, mn |-> IF y.mn < x.mn THEN y.mn ELSE x.mn, mx |-> IF y.mx > x.mx THEN y.mx ELSE x.mx]]
        /\ Check(Trace[l].a, Trace[l])
Reset == /\ Ev /\ Trace[l].op = "Reset" /\ st' = [a \in Acc |-> Zero]
Next == AddA \/ Comb \/ Reset
Spec == Init /\ [][Next]_vars
Accepted == TLCGet("stats").diameter - 1 = Len(Trace)
====
