CONSTANTS Acc = {1,2,3}
 Vals <- ValsDef
 Depth = 5
INIT Init
NEXT Next
INVARIANT Emit
CHECK_DEADLOCK FALSE
