---- MODULE SS ----
EXTENDS Integers, Sequences, FiniteSets, TLC, Json
CONSTANTS Acc, Vals, Depth
VARIABLES bag, hist
vars == <<bag, hist>>
Init == bag = [a \in Acc |-> <<>>] /\ hist = <<>>
Add(a, v) == /\ bag' = [bag EXCEPT ![a] = Append(@, v)]
             /\ hist' = Append(hist, [op |-> "Add", a |-> a, v |-> v])
Combine(a, b) == /\ a # b
                 /\ bag' = [bag EXCEPT ![a] = @ \o bag[b]]
                 /\ hist' = Append(hist, [op |-> "Combine", a |-> a, b |-> b])
Next == /\ Len(hist) < Depth
        /\ \/ \E a \in Acc, v \in Vals : Add(a, v)
           \/ \E a, b \in Acc : Combine(a, b)
RECURSIVE SumSeq(_), SumSq(_)
SumSeq(s) == IF s = <<>> THEN 0 ELSE Head(s) + SumSeq(Tail(s))
SumSq(s) == IF s = <<>> THEN 0 ELSE Head(s)*Head(s) + SumSq(Tail(s))
MinS(s) == CHOOSE m \in {s[i] : i \in 1..Len(s)} : \A i \in 1..Len(s) : m <= s[i]
MaxS(s) == CHOOSE m \in {s[i] : i \in 1..Len(s)} : \A i \in 1..Len(s) : m >= s[i]
Obs(a) == LET s == bag[a] IN [n |-> Len(s), t |-> SumSeq(s), q |-> SumSq(s), mn |-> IF s = <<>> THEN 0 ELSE MinS(s), mx |-> IF s = <<>> THEN 0 ELSE MaxS(s)]
Emit == PrintT(ToJson([h |-> hist, o |-> [a \in Acc |-> Obs(a)]]))
ValsDef == {-2,1,3}
====
