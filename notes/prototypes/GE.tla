---- MODULE GE ----
EXTENDS Integers, Sequences, FiniteSets, TLC, Json
CONSTANT N
Nodes == 0..(N-1)
VARIABLES n, adj   \* n: number of nodes, adj: [0..n-1 -> SUBSET 0..n-1] as set of edges; next edge pointer
vars == <<n, adj>>
AllEdges(k) == (0..(k-1)) \X (0..(k-1))
\* enumerate by choosing edge sets: state = (k, E, idx) where idx = number of candidate edges decided
Init == n \in 1..N /\ adj = {}
Idx(e) == e[1]*n + e[2]
MaxIdx(E) == IF E = {} THEN -1 ELSE CHOOSE m \in {Idx(e) : e \in E} : \A e \in E : Idx(e) <= m
Next == \E e \in AllEdges(n) : Idx(e) > MaxIdx(adj) /\ adj' = adj \cup {e} /\ UNCHANGED n
Succ(u) == {e[2] : e \in {f \in adj : f[1] = u}}
RECURSIVE ReachFrom(_,_)
ReachFrom(S, avoid) == LET S2 == S \cup {v \in 0..(n-1) : v \notin avoid /\ \E u \in S : v \in Succ(u)} IN IF S2 = S THEN S ELSE ReachFrom(S2, avoid)
Reach(r) == ReachFrom({r}, {})
\* d dominates v (wrt root r): v unreachable when d removed (d # r), or d = v or d = r
Dominates(r, d, v) == d = v \/ d = r \/ v \notin ReachFrom({r}, {d})
SDom(r, v) == {d \in Reach(r) : d # v /\ Dominates(r, d, v)}
IDomOf(r, v) == IF v = r \/ v \notin Reach(r) THEN -1 ELSE CHOOSE d \in SDom(r,v) : \A d2 \in SDom(r,v) : Dominates(r, d2, d)
IDomAll(r) == [v \in 0..(n-1) |-> IDomOf(r, v)]
Emit == PrintT(ToJson([n |-> n, e |-> adj, idom |-> [r \in 0..(n-1) |-> IDomAll(r)]]))
====
