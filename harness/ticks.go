package main

// Families findlevel and ticks (C17): scale.TickOptions.FindLevel, Linear/Log Ticks, CountTicks,
// TicksAtLevel against spec/ticks/FindLevel.tla and Ticks.tla.

import (
	"encoding/json"
	"io"
	"math"
	"sort"

	"github.com/aclements/go-moremath/scale"
)

func init() {
	families["findlevel"] = &family{replay: findLevelReplay}
	families["ticks"] = &family{replay: ticksReplay}
}

type flCase struct {
	Thr    int  `json:"thr"`
	Guess  int  `json:"guess"`
	MinL   int  `json:"minL"`
	MaxL   int  `json:"maxL"`
	Max    int  `json:"max"`
	OK     bool `json:"ok"`
	Level  int  `json:"level"`
	Probes int  `json:"probes"`
}

// stepTicker has non-increasing counts with count(l) <= max exactly for l >= thr.
type stepTicker struct {
	thr, max int
	shape    int // 0: counts change by one per level; 1: a cliff (2^30 below the threshold); 2: a factor of 10 per level
	probes   []int
}

func (t *stepTicker) CountTicks(l int) int {
	t.probes = append(t.probes, l)
	switch t.shape {
	case 1:
		if l >= t.thr {
			return t.max
		}
		return 1 << 30
	case 2:
		if l >= t.thr {
			c := t.max
			for k := t.thr; k < l && c > 0; k++ {
				c /= 10
			}
			return c
		}
		c := t.max*10 + 1
		for k := l; k < t.thr-1 && c < 1<<40; k++ {
			c *= 10
		}
		return c
	}
	if l >= t.thr {
		c := t.max - (l - t.thr)
		if c < 0 {
			c = 0
		}
		return c
	}
	d := t.thr - l
	if d > 1000000 {
		d = 1000000
	}
	return t.max + d
}
func (t *stepTicker) TicksAtLevel(l int) interface{} { return nil }

func findLevelReplay(in io.Reader, raw bool, args []string) (*Summary, error) {
	sum := &Summary{Rule: "one case per (threshold of a non-increasing count function, guess, MinLevel, MaxLevel, Max) terminal state of the FindLevel state machine; the real FindLevel is driven with a table-driven Ticker; non-trivial = valid options and a threshold inside the bounded range (so both probe directions occur)"}
	err := forEachCase(in, raw, func(c json.RawMessage) {
		var fc flCase
		if e := json.Unmarshal(c, &fc); e != nil {
			sum.viol("machinery", c, "bad case: %v", e)
			return
		}
		sum.Cases++
		if fc.Max >= 1 && fc.Thr > -1000 && fc.Thr < 1000 && (fc.MinL <= fc.MaxL) {
			sum.Nontrivial++
			if sum.Nontrivial%3001 == 1 {
				sum.sample(c)
			}
		}
		defer func() {
			if r := recover(); r != nil {
				sum.viol("panic", c, "panic: %v", r)
			}
		}()
		// the model abstracts a ticker by its threshold; the same threshold is realised by count functions of different
		// steepness (FindLevel may look at counts only to compare them with Max)
		for shape := 0; shape < 3; shape++ {
			tk := &stepTicker{thr: fc.Thr, max: fc.Max, shape: shape}
			o := scale.TickOptions{Max: fc.Max, MinLevel: fc.MinL, MaxLevel: fc.MaxL}
			sum.Checks++
			lvl, ok := o.FindLevel(tk, fc.Guess)
			if ok != fc.OK || (ok && lvl != fc.Level) {
				sum.viol("FindLevel", c, "count shape %d: FindLevel = (%d,%v) want (%d,%v); probes %v", shape, lvl, ok, fc.Level, fc.OK, tk.probes)
			}
			if len(tk.probes) > 2100 {
				sum.viol("FindLevel-probes", c, "%d probes", len(tk.probes))
			}
			// "for any ticker": also one that knows only the levels inside the limits (a table).  The search is about the
			// levels MinLevel..MaxLevel (-1000..1000 without limits) and has no business asking about others
			lo, hi := fc.MinL, fc.MaxL
			if lo == 0 && hi == 0 {
				lo, hi = -1000, 1000
			}
			for _, pl := range tk.probes {
				if pl < lo || pl > hi {
					sum.viol("FindLevel-probes", c, "count shape %d, limits [%d,%d], guess %d: the ticker was asked about level %d, outside the limits (probes %v)", shape, lo, hi, fc.Guess, pl, tk.probes)
					break
				}
			}
		}
	})
	return sum, err
}

type tkCase struct {
	Kind   string          `json:"kind"`
	Base   int             `json:"base"`
	A      int64           `json:"a"`
	B      int64           `json:"b"`
	S      int             `json:"s"`
	Rev    bool            `json:"rev"`
	Max    int             `json:"max"`
	MinL   int             `json:"minL"`
	MaxL   int             `json:"maxL"`
	OK     bool            `json:"ok"`
	Level  int             `json:"level"`
	Major  json.RawMessage `json:"major"`
	Minor  json.RawMessage `json:"minor"`
	Counts []int           `json:"counts"`
	M1     [2]int64        `json:"m1"`
	E1     int             `json:"e1"`
	M2     [2]int64        `json:"m2"`
	E2     int             `json:"e2"`
	Neg    bool            `json:"neg"`
	Digits [][2]int        `json:"digits"`
}

func ticksReplay(in io.Reader, raw bool, args []string) (*Summary, error) {
	sum := &Summary{Rule: "one case per (scale kind, base, domain, TickOptions) emitted by TLC with the exact level, major and minor tick lists and per-level counts; non-trivial = a level exists and there are at least 2 major ticks"}
	err := forEachCase(in, raw, func(c json.RawMessage) {
		var tc tkCase
		if e := json.Unmarshal(c, &tc); e != nil {
			sum.viol("machinery", c, "bad case: %v", e)
			return
		}
		sum.Cases++
		defer func() {
			if r := recover(); r != nil {
				sum.viol("panic", c, "panic: %v", r)
			}
		}()
		var nm int
		if tc.Kind == "lin" {
			nm = linTicks(sum, c, &tc)
		} else {
			nm = logTicks(sum, c, &tc)
		}
		if tc.OK && nm >= 2 {
			sum.Nontrivial++
			if sum.Nontrivial%1777 == 1 {
				sum.sample(c)
			}
		}
	})
	return sum, err
}

func cmpTicks(sum *Summary, c json.RawMessage, what string, got, want []float64, atol, rtol float64) {
	if len(got) != len(want) {
		sum.viol(what, c, "%d ticks %v, want %d: %v", len(got), got, len(want), want)
		return
	}
	for i := range got {
		if !closeF(got[i], want[i], atol, rtol) {
			sum.viol(what, c, "tick %d = %v want %v (all: %v)", i, got[i], want[i], got)
			return
		}
		if i > 0 && !(got[i] > got[i-1]) {
			sum.viol(what+"-order", c, "ticks not ascending: %v", got)
			return
		}
	}
}

func subsetTicks(major, minor []float64, atol, rtol float64) bool {
	for _, m := range major {
		found := false
		for _, x := range minor {
			if closeF(x, m, atol, rtol) {
				found = true
				break
			}
		}
		if !found {
			return false
		}
	}
	return true
}

func linTicks(sum *Summary, c json.RawMessage, tc *tkCase) int {
	B := float64(tc.Base)
	if tc.Base == 0 {
		B = 10
	}
	sc := math.Pow(B, float64(tc.S))
	mn, mx := float64(tc.A)*sc, float64(tc.B)*sc
	width := mx - mn
	var wantMaj, wantMin []float64
	var rm, rn [][2]int64
	json.Unmarshal(tc.Major, &rm)
	json.Unmarshal(tc.Minor, &rn)
	for _, r := range rm {
		wantMaj = append(wantMaj, float64(r[0])/float64(r[1])*sc)
	}
	for _, r := range rn {
		wantMin = append(wantMin, float64(r[0])/float64(r[1])*sc)
	}
	s := scale.Linear{Min: mn, Max: mx, Base: tc.Base}
	if tc.Rev {
		s.Min, s.Max = mx, mn
	}
	o := scale.TickOptions{Max: tc.Max, MinLevel: tc.MinL, MaxLevel: tc.MaxL}
	sum.Checks++
	major, minor := s.Ticks(o)
	atol := 1e-9 * width
	if !tc.OK {
		if len(major) != 0 || len(minor) != 0 {
			sum.viol("Ticks", c, "no level fits but Ticks returned %v / %v", major, minor)
		}
	} else {
		cmpTicks(sum, c, "Ticks-major", major, wantMaj, atol, 1e-12)
		cmpTicks(sum, c, "Ticks-minor", minor, wantMin, atol, 1e-12)
		if len(major) > tc.Max {
			sum.viol("Ticks-max", c, "%d major ticks > Max %d", len(major), tc.Max)
		}
		for _, t := range append(append([]float64{}, major...), minor...) {
			if t < mn-1e-9*width || t > mx+1e-9*width {
				sum.viol("Ticks-domain", c, "tick %v outside [%v,%v]", t, mn, mx)
				break
			}
		}
		if !subsetTicks(major, minor, atol, 1e-12) {
			sum.viol("Ticks-subset", c, "major %v not within minor %v", major, minor)
		}
	}
	if s.Min != mn && !tc.Rev || (tc.Rev && s.Min != mx) {
		sum.viol("Ticks-mutates", c, "Ticks changed the scale")
	}
	// CountTicks / TicksAtLevel on mantissa levels -3..5
	s2 := scale.Linear{Min: mn, Max: mx, Base: tc.Base}
	prev := math.MaxInt64
	for i, want := range tc.Counts {
		l := i - 3 + 2*tc.S
		got := s2.CountTicks(l)
		at, _ := s2.TicksAtLevel(l).([]float64)
		sum.Checks++
		if got != want {
			sum.viol("CountTicks", c, "CountTicks(%d)=%d want %d", l, got, want)
		}
		if len(at) != got {
			sum.viol("TicksAtLevel", c, "len(TicksAtLevel(%d))=%d but CountTicks=%d", l, len(at), got)
		}
		if got > prev {
			sum.viol("CountTicks-monotone", c, "CountTicks(%d)=%d > previous level's %d", l, got, prev)
		}
		prev = got
	}
	return len(wantMaj)
}

func logTicks(sum *Summary, c json.RawMessage, tc *tkCase) int {
	B := float64(tc.Base)
	lo := float64(tc.M1[0]) / float64(tc.M1[1]) * math.Pow(B, float64(tc.E1))
	hi := float64(tc.M2[0]) / float64(tc.M2[1]) * math.Pow(B, float64(tc.E2))
	mn, mx := lo, hi
	if tc.Neg {
		mn, mx = -hi, -lo
	}
	s, err := scale.NewLog(mn, mx, tc.Base)
	if err != nil {
		sum.viol("NewLog", c, "NewLog(%v,%v,%d): %v", mn, mx, tc.Base, err)
		return 0
	}
	var em, en []int
	json.Unmarshal(tc.Major, &em)
	json.Unmarshal(tc.Minor, &en)
	mk := func(exps []int) []float64 {
		sort.Ints(exps)
		var out []float64
		for _, k := range exps {
			out = append(out, math.Pow(B, float64(k)))
		}
		return out
	}
	wantMaj, wantMin := mk(em), mk(en)
	if tc.OK && tc.Level == 0 {
		wantMin = nil
		for _, d := range tc.Digits {
			wantMin = append(wantMin, float64(d[0])*math.Pow(B, float64(d[1])))
		}
		sort.Float64s(wantMin)
	}
	if tc.Neg {
		neg := func(x []float64) []float64 {
			out := make([]float64, len(x))
			for i, v := range x {
				out[len(x)-1-i] = -v
			}
			return out
		}
		wantMaj, wantMin = neg(wantMaj), neg(wantMin)
	}
	o := scale.TickOptions{Max: tc.Max, MinLevel: tc.MinL, MaxLevel: tc.MaxL}
	sum.Checks++
	major, minor := s.Ticks(o)
	if !tc.OK {
		if len(major) != 0 || len(minor) != 0 {
			sum.viol("Ticks", c, "no level fits but Log.Ticks returned %v / %v", major, minor)
		}
	} else {
		cmpTicks(sum, c, "LogTicks-major", major, wantMaj, 0, 1e-9)
		cmpTicks(sum, c, "LogTicks-minor", minor, wantMin, 0, 1e-9)
		if len(major) > tc.Max {
			sum.viol("Ticks-max", c, "%d major ticks > Max %d", len(major), tc.Max)
		}
		for _, t := range append(append([]float64{}, major...), minor...) {
			if t < mn-1e-9*math.Abs(mn) || t > mx+1e-9*math.Abs(mx) {
				sum.viol("Ticks-domain", c, "tick %v outside [%v,%v]", t, mn, mx)
				break
			}
		}
		if !subsetTicks(major, minor, 0, 1e-9) {
			sum.viol("Ticks-subset", c, "major %v not within minor %v", major, minor)
		}
	}
	prev := math.MaxInt64
	for i, want := range tc.Counts {
		got := s.CountTicks(i)
		at, _ := s.TicksAtLevel(i).([]float64)
		sum.Checks++
		if got != want {
			sum.viol("LogCountTicks", c, "CountTicks(%d)=%d want %d", i, got, want)
		}
		if len(at) != got {
			sum.viol("TicksAtLevel", c, "len(TicksAtLevel(%d))=%d but CountTicks=%d", i, len(at), got)
		}
		if got > prev {
			sum.viol("CountTicks-monotone", c, "CountTicks(%d)=%d > previous %d", i, got, prev)
		}
		prev = got
	}
	if s.CountTicks(-1) < 1<<30 {
		sum.viol("LogCountTicks", c, "CountTicks(-1)=%d, levels below 0 must never fit", s.CountTicks(-1))
	}
	return len(wantMaj)
}
