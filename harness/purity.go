package main

// Family purity (C20): a session of calls to (almost) every exported entry point that takes a slice,
// Sample, graph, scale, histogram or distribution, recorded for spec/purity/Session.tla.
// Build with -race for the concurrent phase: a data race aborts the recording (exit code 3).

import (
	"encoding/json"
	"fmt"
	"hash/fnv"
	"io"
	"math"
	"math/rand"
	"sort"
	"strings"
	"sync"
	"sync/atomic"

	"github.com/aclements/go-moremath/fit"
	"github.com/aclements/go-moremath/graph"
	"github.com/aclements/go-moremath/graph/graphalg"
	"github.com/aclements/go-moremath/graph/graphout"
	"github.com/aclements/go-moremath/mathx"
	"github.com/aclements/go-moremath/scale"
	"github.com/aclements/go-moremath/stats"
	"github.com/aclements/go-moremath/vec"
)

func init() {
	families["purity"] = &family{record: purityRecord}
}

type dg struct {
	h interface {
		Write([]byte) (int, error)
		Sum64() uint64
	}
}

func newDg() *dg { return &dg{fnv.New64a()} }
func (d *dg) u64(x uint64) {
	var b [8]byte
	for i := 0; i < 8; i++ {
		b[i] = byte(x >> (8 * uint(i)))
	}
	d.h.Write(b[:])
}
func (d *dg) f(x float64) { d.u64(math.Float64bits(x)) }
func (d *dg) i(x int)     { d.u64(uint64(int64(x))) }
func (d *dg) s(x string)  { d.h.Write([]byte(x)); d.u64(uint64(len(x))) }
func (d *dg) fs(x []float64) {
	if x == nil {
		d.s("nil")
	}
	d.i(len(x))
	for _, v := range x[:cap(x)] { // the spare capacity belongs to the caller too: an append into it is a modification
		d.f(v)
	}
}
func (d *dg) is(x []int) {
	d.i(len(x))
	for _, v := range x[:cap(x)] {
		d.i(v)
	}
}
func (d *dg) hex() string { return fmt.Sprintf("%016x", d.h.Sum64()) }

// digestAny covers the result types of the entry points.
func digestAny(v any) string {
	d := newDg()
	var walk func(v any)
	walk = func(v any) {
		switch t := v.(type) {
		case nil:
			d.s("nil")
		case float64:
			d.f(t)
		case int:
			d.i(t)
		case uint:
			d.i(int(t))
		case bool:
			if t {
				d.i(1)
			} else {
				d.i(0)
			}
		case string:
			d.s(t)
		case error:
			d.s("err:" + t.Error())
		case []float64:
			d.fs(t)
		case []int:
			d.is(t)
		case [][]int:
			d.i(len(t))
			for _, r := range t {
				d.is(r)
			}
		case []uint:
			d.i(len(t))
			for _, r := range t {
				d.i(int(r))
			}
		case []any:
			d.i(len(t))
			for _, r := range t {
				walk(r)
			}
		case *stats.MannWhitneyUTestResult:
			if t == nil {
				d.s("nil")
			} else {
				walk([]any{t.N1, t.N2, t.U, int(t.AltHypothesis), t.P})
			}
		case *stats.TTestResult:
			if t == nil {
				d.s("nil")
			} else {
				walk([]any{t.N1, t.N2, t.T, t.DoF, int(t.AltHypothesis), t.P})
			}
		case stats.QuantileCIResult:
			walk([]any{t.Quantile, t.N, t.Confidence, t.LoOrder, t.HiOrder, t.Ambiguous})
		case graph.Graph:
			d.i(t.NumNodes())
			for i := 0; i < t.NumNodes(); i++ {
				d.is(t.Out(i))
			}
		default:
			d.s(fmt.Sprintf("%T:%+v", v, v))
		}
	}
	walk(v)
	return d.hex()
}

func digSample(s *stats.Sample) string {
	d := newDg()
	d.fs(s.Xs)
	d.fs(s.Weights)
	if s.Sorted {
		d.i(1)
	}
	return d.hex()
}

// pSet is one set of shared inputs.
type pSet struct {
	xs1, xs2, pos, ws []float64
	samp, wsamp       stats.Sample
	swsamp            stats.Sample // weighted, ascending, flagged Sorted, with zero weights in between
	linRev            scale.Linear // decreasing domain
	sortMe            stats.Sample // receiver of the in-place operations (sequential phase only)
	rev               []int
	g, g2             graph.IntGraph
	stream, stream2   stats.StreamStats
	lhist             *stats.LinearHist
	kde, kde0         stats.KDE
	lin               scale.Linear
	lg                scale.Log
	marks             *graphalg.NodeMarks
	idom              []int
	invT, invT2       func(float64) float64 // long-lived quantile functions, shared by all goroutines
	wsHuge, wsTiny    []float64             // weights of extreme magnitude (1/sigma^2 with sigma in ns / in 1e6)
	attrs             []graphout.DotAttr    // one attribute table; NodeAttrs/EdgeAttrs hand out prefixes of it (spare capacity = the caller's other entries)
	gBig              graph.IntGraph        // 3000 nodes: node ids beyond any small fixed-size scratch structure
	xsBig             []float64             // 40000 values of mixed magnitude: the order of additions shows in the last bits
	bgShared          graph.BiGraph         // one BiGraph object for all goroutines; replaced by an untouched one before the concurrent phase
	xsSorted          []float64             // ascending with ties, first value not 0 (the usual way to hand data to a smoother)
	objs              map[string]func() string
}

var refillCalls int64

func mkSet(rng *rand.Rand) *pSet {
	p := &pSet{}
	n := 6 + rng.Intn(20)
	tied := func(n int, span int, off float64) []float64 {
		// a sub-slice with spare capacity: the tail holds sentinels that no callee may touch
		back := make([]float64, 2*n+8)
		for i := range back {
			back[i] = -7777
		}
		x := back[:n]
		for i := range x {
			x[i] = off + float64(rng.Intn(span)) + []float64{0, 0, 0.5}[rng.Intn(3)]
		}
		return x
	}
	p.xs1, p.xs2 = tied(n, 7, 0), tied(4+rng.Intn(12), 7, 1)
	if rng.Intn(2) == 0 {
		p.xs2 = tied(n, 7, 1) // equal lengths so that the paired test applies
	}
	p.pos = tied(n, 9, 1)
	p.ws = make([]float64, n)
	for i := range p.ws {
		p.ws[i] = float64(1 + rng.Intn(3))
	}
	p.samp = stats.Sample{Xs: tied(n, 6, -2)}
	p.wsamp = stats.Sample{Xs: tied(n, 6, -2), Weights: append([]float64{}, p.ws...)}
	p.sortMe = stats.Sample{Xs: tied(n, 6, -2), Weights: append([]float64{}, p.ws...)}
	{
		xs := tied(n, 6, -2)
		sort.Float64s(xs)
		w := tied(n, 1, 0)
		for i := range w {
			w[i] = float64(rng.Intn(4)) // zeros included
		}
		w[len(w)-1] = 2
		w[0] = 0
		p.swsamp = stats.Sample{Xs: xs, Weights: w, Sorted: true}
	}
	p.wsHuge, p.wsTiny = tied(n, 5, 1), tied(n, 5, 1)
	for i := range p.wsHuge {
		p.wsHuge[i] *= 1e17
		p.wsTiny[i] *= 1e-13
	}
	p.xsBig = make([]float64, 40000)
	for i := range p.xsBig {
		p.xsBig[i] = (rng.Float64() - 0.3) * math.Pow(10, float64(rng.Intn(9)-2))
	}
	p.xsSorted = tied(n, 7, 5)
	sort.Float64s(p.xsSorted)
	p.attrs = []graphout.DotAttr{{Name: "color", Val: "red"}, {Name: "shape", Val: "box"}, {Name: "style", Val: "bold"}, {Name: "peripheries", Val: 2}}
	p.gBig = make(graph.IntGraph, 3000)
	for i := range p.gBig {
		if i+1 < len(p.gBig) {
			p.gBig[i] = append(p.gBig[i], i+1)
		}
		if rng.Intn(3) == 0 {
			p.gBig[i] = append(p.gBig[i], rng.Intn(len(p.gBig)))
		}
	}
	p.bgShared = graph.MakeBiGraph(p.gBig)
	p.linRev = scale.Linear{Min: 100, Max: -3.25}
	p.rev = rng.Perm(5)
	nn := 4 + rng.Intn(8)
	p.g = make(graph.IntGraph, nn)
	for i := range p.g {
		for k := rng.Intn(4); k > 0; k-- {
			p.g[i] = append(p.g[i], rng.Intn(nn))
		}
	}
	// CSR layout: every adjacency list is a sub-slice of one backing array, so each has the following lists as spare capacity
	tot := 0
	for i := range p.g {
		tot += len(p.g[i])
	}
	back := make([]int, 0, tot)
	csr := make(graph.IntGraph, nn)
	for i := range p.g {
		st := len(back)
		back = append(back, p.g[i]...)
		csr[i] = back[st:len(back)]
	}
	p.g = csr
	p.g2 = make(graph.IntGraph, nn)
	for i := range p.g {
		p.g2[i] = append([]int{}, p.g[i]...)
		rng.Shuffle(len(p.g2[i]), func(a, b int) { p.g2[i][a], p.g2[i][b] = p.g2[i][b], p.g2[i][a] })
	}
	for _, v := range p.xs1 {
		p.stream.Add(v)
	}
	for _, v := range p.xs2 {
		p.stream2.Add(v)
	}
	p.lhist = stats.NewLinearHist(0, 8, 8)
	for _, v := range p.xs1 {
		p.lhist.Add(v)
	}
	p.kde = stats.KDE{Sample: stats.Sample{Xs: tied(n, 6, 0)}, Kernel: stats.GaussianKernel, Bandwidth: 0.75, BoundaryMin: -1, BoundaryMax: 9}
	p.invT = stats.InvCDF(stats.TDist{V: 5})
	p.invT2 = stats.InvCDF(stats.TDist{V: 2.5 + float64(rng.Intn(9))})
	p.kde0 = stats.KDE{Sample: stats.Sample{Xs: tied(n, 6, 0)}, Kernel: stats.EpanechnikovKernel}
	p.lin = scale.Linear{Min: -3.5, Max: 17.25}
	p.lg, _ = scale.NewLog(0.3, 4500, 10)
	p.marks = graphalg.NewNodeMarks()
	p.marks.Mark(3)
	p.marks.Mark(1500)
	p.idom = graphalg.IDom(graph.MakeBiGraph(p.g), 0)
	p.objs = map[string]func() string{
		"xs1": func() string { return digestAny(p.xs1) }, "xs2": func() string { return digestAny(p.xs2) },
		"pos": func() string { return digestAny(p.pos) }, "ws": func() string { return digestAny(p.ws) },
		"wsHuge": func() string { return digestAny(p.wsHuge) }, "wsTiny": func() string { return digestAny(p.wsTiny) },
		"gBig": func() string { return digestAny(graph.Graph(p.gBig)) }, "xsBig": func() string { return digestAny(p.xsBig) },
		"xsSorted": func() string { return digestAny(p.xsSorted) },
		// the package's public variables are inputs of every call that reads them, and nobody's output
		"config": func() string {
			return fmt.Sprint(stats.MannWhitneyExactLimit, stats.MannWhitneyTiesExactLimit, stats.StdNormal)
		},
		"attrs":    func() string { return fmt.Sprintf("%v", p.attrs) },
		"samp":     func() string { return digSample(&p.samp) }, "wsamp": func() string { return digSample(&p.wsamp) },
		"sortMe": func() string { return digSample(&p.sortMe) }, "swsamp": func() string { return digSample(&p.swsamp) },
		"linRev": func() string { return fmt.Sprintf("%+v", p.linRev) }, "rev": func() string { return digestAny(p.rev) },
		"g": func() string { return digestAny(graph.Graph(p.g)) }, "g2": func() string { return digestAny(graph.Graph(p.g2)) },
		"stream": func() string { return fmt.Sprintf("%+v", p.stream) }, "stream2": func() string { return fmt.Sprintf("%+v", p.stream2) },
		"lhist": func() string { u, b, o := p.lhist.Counts(); return digestAny([]any{u, b, o}) },
		"kde": func() string {
			return digSample(&p.kde.Sample) + fmt.Sprint(p.kde.Bandwidth, p.kde.Kernel, p.kde.BoundaryMin, p.kde.BoundaryMax)
		},
		"kde0": func() string { return digSample(&p.kde0.Sample) + fmt.Sprint(p.kde0.Bandwidth, p.kde0.Kernel) },
		"lin":  func() string { return fmt.Sprintf("%+v", p.lin) }, "lg": func() string { return fmt.Sprint(p.lg.Min, p.lg.Max, p.lg.Base, p.lg.Clamp) },
		"marks": func() string {
			var m []int
			for i := p.marks.Next(-1); i >= 0; i = p.marks.Next(i) {
				m = append(m, i)
			}
			return digestAny(m)
		},
		"idom": func() string { return digestAny(p.idom) },
	}
	return p
}

type pEntry struct {
	name    string
	args    []string
	mut     string // id of the receiver an in-place operation may change
	seqOnly bool
	call    func(p *pSet) any
}

func pairs(a, b any) []any { return []any{a, b} }

func purityEntries() []pEntry {
	tri := func(a, b, c float64) []any { return []any{a, b, c} }
	E := []pEntry{
		{"stats.Mean", []string{"xs1"}, "", false, func(p *pSet) any { return stats.Mean(p.xs1) }},
		{"stats.Variance", []string{"xs1"}, "", false, func(p *pSet) any { return stats.Variance(p.xs1) }},
		{"stats.StdDev", []string{"xs1"}, "", false, func(p *pSet) any { return stats.StdDev(p.xs1) }},
		{"stats.GeoMean", []string{"pos"}, "", false, func(p *pSet) any { return stats.GeoMean(p.pos) }},
		{"stats.Bounds", []string{"xs1"}, "", false, func(p *pSet) any { return pairs(stats.Bounds(p.xs1)) }},
		{"stats.MeanCI", []string{"xs1"}, "", false, func(p *pSet) any { return tri(stats.MeanCI(p.xs1, 0.95)) }},
		{"Sample.Mean", []string{"samp"}, "", false, func(p *pSet) any { return p.samp.Mean() }},
		{"Sample.Variance", []string{"samp"}, "", false, func(p *pSet) any { return p.samp.Variance() }},
		{"Sample.StdDev", []string{"samp"}, "", false, func(p *pSet) any { return p.samp.StdDev() }},
		{"Sample.Bounds", []string{"samp"}, "", false, func(p *pSet) any { return pairs(p.samp.Bounds()) }},
		{"Sample.Sum", []string{"samp"}, "", false, func(p *pSet) any { return p.samp.Sum() }},
		{"Sample.Weight", []string{"samp"}, "", false, func(p *pSet) any { return p.samp.Weight() }},
		{"Sample.Quantile", []string{"samp"}, "", false, func(p *pSet) any { return p.samp.Quantile(0.3) }},
		{"Sample.IQR", []string{"samp"}, "", false, func(p *pSet) any { return p.samp.IQR() }},
		{"Sample.MeanCI", []string{"samp"}, "", false, func(p *pSet) any { return tri(p.samp.MeanCI(0.9)) }},
		{"Sample.Copy", []string{"samp"}, "", false, func(p *pSet) any { c := p.samp.Copy(); return digSample(c) }},
		{"WSample.Mean", []string{"wsamp"}, "", false, func(p *pSet) any { return p.wsamp.Mean() }},
		{"WSample.GeoMean", []string{"wsamp"}, "", false, func(p *pSet) any { return p.wsamp.GeoMean() }},
		{"WSample.Bounds", []string{"wsamp"}, "", false, func(p *pSet) any { return pairs(p.wsamp.Bounds()) }},
		{"WSample.Sum", []string{"wsamp"}, "", false, func(p *pSet) any { return p.wsamp.Sum() }},
		{"WSample.Quantile", []string{"wsamp"}, "", false, func(p *pSet) any { return p.wsamp.Quantile(0.6) }},
		{"WSample.IQR", []string{"wsamp"}, "", false, func(p *pSet) any { return p.wsamp.IQR() }},
		{"WSample.Copy", []string{"wsamp"}, "", false, func(p *pSet) any { return digSample(p.wsamp.Copy()) }},
		{"SWSample.Quantile", []string{"swsamp"}, "", false, func(p *pSet) any { return []any{p.swsamp.Quantile(0.4), p.swsamp.Quantile(0.9)} }},
		{"SWSample.IQR", []string{"swsamp"}, "", false, func(p *pSet) any { return p.swsamp.IQR() }},
		{"SWSample.Mean", []string{"swsamp"}, "", false, func(p *pSet) any { return []any{p.swsamp.Mean(), p.swsamp.Sum(), p.swsamp.Weight()} }},
		{"SWSample.Bounds", []string{"swsamp"}, "", false, func(p *pSet) any { return pairs(p.swsamp.Bounds()) }},
		{"LinearRev.Ticks", []string{"linRev"}, "", false, func(p *pSet) any { a, b := p.linRev.Ticks(scale.TickOptions{Max: 7}); return []any{a, b} }},
		{"LinearRev.Map", []string{"linRev"}, "", false, func(p *pSet) any { return []any{p.linRev.Map(25), p.linRev.Unmap(0.25)} }},
		{"stats.MannWhitneyUTest/less", []string{"xs1", "xs2", "config"}, "", false, func(p *pSet) any {
			r, e := stats.MannWhitneyUTest(p.xs1, p.xs2, stats.LocationLess)
			return []any{r, e}
		}},
		{"stats.MannWhitneyUTest/differs", []string{"xs1", "xs2", "config"}, "", false, func(p *pSet) any {
			r, e := stats.MannWhitneyUTest(p.xs1, p.xs2, stats.LocationDiffers)
			return []any{r, e}
		}},
		{"stats.MannWhitneyUTest/greater", []string{"xs2", "xs1", "config"}, "", false, func(p *pSet) any {
			r, e := stats.MannWhitneyUTest(p.xs2, p.xs1, stats.LocationGreater)
			return []any{r, e}
		}},
		{"stats.TwoSampleTTest", []string{"samp", "wsamp"}, "", false, func(p *pSet) any {
			r, e := stats.TwoSampleTTest(p.samp, stats.Sample{Xs: p.xs2}, stats.LocationDiffers)
			return []any{r, e}
		}},
		{"stats.TwoSampleWelchTTest", []string{"samp", "xs2"}, "", false, func(p *pSet) any {
			r, e := stats.TwoSampleWelchTTest(p.samp, stats.Sample{Xs: p.xs2}, stats.LocationLess)
			return []any{r, e}
		}},
		{"stats.PairedTTest", []string{"xs1", "xs2"}, "", false, func(p *pSet) any {
			r, e := stats.PairedTTest(p.xs1, p.xs2, 0.25, stats.LocationGreater)
			return []any{r, e}
		}},
		{"stats.OneSampleTTest", []string{"samp"}, "", false, func(p *pSet) any {
			r, e := stats.OneSampleTTest(p.samp, 0.5, stats.LocationDiffers)
			return []any{r, e}
		}},
		{"stats.QuantileCI", nil, "", false, func(p *pSet) any { return stats.QuantileCI(len(p.samp.Xs), 0.5, 0.9) }},
		{"QuantileCIResult.SampleCI", []string{"samp"}, "", false, func(p *pSet) any { return tri(stats.QuantileCI(len(p.samp.Xs), 0.5, 0.9).SampleCI(p.samp)) }},
		{"stats.BandwidthScott", []string{"samp"}, "", false, func(p *pSet) any { return stats.BandwidthScott(p.samp) }},
		{"stats.BandwidthSilverman", []string{"samp"}, "", false, func(p *pSet) any { return stats.BandwidthSilverman(p.samp) }},
		{"KDE.PDF", []string{"kde"}, "", false, func(p *pSet) any { return p.kde.PDF(2.25) }},
		{"KDE.CDF", []string{"kde"}, "", false, func(p *pSet) any { return p.kde.CDF(3.5) }},
		{"KDE.Bounds", []string{"kde"}, "", false, func(p *pSet) any { return pairs(p.kde.Bounds()) }},
		{"KDE.lazyBandwidth", []string{"kde0"}, "kde0", true, func(p *pSet) any { return p.kde0.PDF(1.5) }},
		{"UDist.PMF", nil, "", false, func(p *pSet) any { return stats.UDist{N1: 4, N2: 5, T: []int{2, 1, 3, 1, 2}}.PMF(7.5) }},
		{"UDist.CDF", nil, "", false, func(p *pSet) any { return stats.UDist{N1: 6, N2: 5}.CDF(11) }},
		{"BinomialDist.CDF", nil, "", false, func(p *pSet) any { return stats.BinomialDist{N: 30, P: 0.3}.CDF(9) }},
		{"HypergeometicDist.CDF", nil, "", false, func(p *pSet) any { return stats.HypergeometicDist{N: 30, K: 12, Draws: 10}.CDF(4) }},
		{"NormalDist.InvCDF", nil, "", false, func(p *pSet) any { return stats.NormalDist{Mu: 1, Sigma: 2}.InvCDF(0.975) }},
		{"TDist.CDF", nil, "", false, func(p *pSet) any { return stats.TDist{V: 7.5}.CDF(1.3) }},
		{"stats.InvCDF", nil, "", false, func(p *pSet) any { return stats.InvCDF(stats.TDist{V: 5})(0.9) }},
		// one quantile function queried at many levels in whatever order the history dictates: every level must give the
		// same bits each time (no warm start from the previous root, no cache keyed by the previous level)
		{"InvCDF.shared(0.9)", nil, "", false, func(p *pSet) any { return p.invT(0.9) }},
		{"InvCDF.shared(0.05)", nil, "", false, func(p *pSet) any { return p.invT(0.05) }},
		{"InvCDF.shared(0.31)", nil, "", false, func(p *pSet) any { return p.invT(0.31) }},
		{"InvCDF.shared(0.5)", nil, "", false, func(p *pSet) any { return p.invT(0.5) }},
		{"InvCDF.shared(0.62)", nil, "", false, func(p *pSet) any { return p.invT(0.62) }},
		{"InvCDF.shared(0.975)", nil, "", false, func(p *pSet) any { return p.invT(0.975) }},
		{"InvCDF.shared(0.999)", nil, "", false, func(p *pSet) any { return p.invT(0.999) }},
		{"InvCDF.shared(1e-4)", nil, "", false, func(p *pSet) any { return p.invT(1e-4) }},
		{"InvCDF.shared2(sweep)", nil, "", false, func(p *pSet) any {
			out := make([]float64, 0, 12)
			for _, y := range []float64{0.7, 0.2, 0.83, 0.45, 0.7, 0.01, 0.99, 0.2, 0.55, 0.83, 0.123, 0.877} {
				out = append(out, p.invT2(y))
			}
			return out
		}},
		{"InvCDF.shared2(0.7)", nil, "", false, func(p *pSet) any { return p.invT2(0.7) }},
		{"InvCDF.shared2(0.123)", nil, "", false, func(p *pSet) any { return p.invT2(0.123) }},
		{"stats.HistogramQuantile", []string{"lhist"}, "", false, func(p *pSet) any { return stats.HistogramQuantile(p.lhist, 0.5) }},
		{"stats.HistogramIQR", []string{"lhist"}, "", false, func(p *pSet) any { return stats.HistogramIQR(p.lhist) }},
		{"LinearHist.Counts", []string{"lhist"}, "", false, func(p *pSet) any { u, b, o := p.lhist.Counts(); return []any{u, append([]uint{}, b...), o} }},
		{"StreamStats.Mean", []string{"stream"}, "", false, func(p *pSet) any {
			return []any{p.stream.Mean(), p.stream.Variance(), p.stream.RMS(), p.stream.StdDev(), p.stream.String()}
		}},
		{"fit.LinearLeastSquares", []string{"xs1", "pos", "ws"}, "", false, func(p *pSet) any {
			return fit.LinearLeastSquares(p.xs1, p.pos, p.ws, func(xs, o []float64) {
				for i := range o {
					o[i] = 1
				}
			}, func(xs, o []float64) { copy(o, xs) })
		}},
		{"fit.LinearLeastSquares(huge weights)", []string{"xs1", "pos", "wsHuge"}, "", false, func(p *pSet) any {
			return fit.LinearLeastSquares(p.xs1, p.pos, p.wsHuge, func(xs, o []float64) {
				for i := range o {
					o[i] = 1
				}
			}, func(xs, o []float64) { copy(o, xs) })
		}},
		{"fit.PolynomialRegression(tiny weights)", []string{"xs1", "pos", "wsTiny"}, "", false, func(p *pSet) any {
			r := fit.PolynomialRegression(p.xs1, p.pos, p.wsTiny, 1)
			return []any{r.Coefficients, r.F(1.5)}
		}},
		{"fit.LOESS(sorted xs)", []string{"xsSorted", "pos"}, "", false, func(p *pSet) any {
			f := fit.LOESS(p.xsSorted, p.pos, 1, 0.8)
			return []any{f(p.xsSorted[0]), f(p.xsSorted[len(p.xsSorted)/2] + 0.25), f(p.xsSorted[len(p.xsSorted)-1])}
		}},
		{"fit.PolynomialRegression(sorted xs)", []string{"xsSorted", "pos"}, "", false, func(p *pSet) any {
			return fit.PolynomialRegression(p.xsSorted, p.pos, nil, 3).Coefficients
		}},
		// one BiGraph object shared by all goroutines (an untouched one is installed just before the concurrent phase, so
		// that its first use is concurrent); gBig itself is the read-only input
		{"graphalg.IDom/DomFrontier(shared BiGraph)", []string{"gBig"}, "", false, func(p *pSet) any {
			id := graphalg.IDom(p.bgShared, 0)
			return []any{id, graphalg.DomFrontier(p.bgShared, 0, id), p.bgShared.In(1500)}
		}},
		// parameter sweeps (no shared object: the data is a package constant): each goroutine of the concurrent phase starts with
		// one of these, so that calls with MANY DIFFERENT parameters are in flight at the same time - a value memo keyed by the
		// parameters and updated in several steps returns another key's value only then
		{"sweep: MeanCI of the prefixes 3..130", []string{}, "", false, func(p *pSet) any {
			var out []any
			for n := 3; n <= 130; n++ {
				out = append(out, tri(stats.MeanCI(sweepXs[:n], 0.95)))
			}
			return out
		}},
		{"sweep: Choose and small binomials", []string{}, "", false, func(p *pSet) any {
			var out []any
			for n := 1; n <= 40; n++ {
				out = append(out, mathx.Choose(n, n/2), mathx.Choose(n, 1), stats.BinomialDist{N: n, P: 0.4}.PMF(float64(n/2)))
			}
			out = append(out, stats.UDist{N1: 3, N2: 4, T: []int{2, 3, 2}}.CDF(5.5))
			return out
		}},
		{"sweep: TDist{1..300}.CDF", []string{}, "", false, func(p *pSet) any {
			var out []any
			for v := 1; v <= 300; v++ {
				out = append(out, stats.TDist{V: float64(v)}.CDF(1.3), stats.TDist{V: float64(v) + 0.5}.CDF(-0.7))
			}
			return out
		}},
		{"sweep: BinomialDist{1..200}.CDF", []string{}, "", false, func(p *pSet) any {
			var out []any
			for n := 1; n <= 200; n++ {
				out = append(out, stats.BinomialDist{N: n, P: 0.3}.CDF(float64(n/3)))
			}
			return out
		}},
		{"sweep: BetaInc over 120 shapes", []string{}, "", false, func(p *pSet) any {
			var out []any
			for a := 0.5; a <= 20; a += 0.5 {
				for _, b := range []float64{0.5, 2, 7.5} {
					out = append(out, mathx.BetaInc(0.4, a, b), mathx.Beta(a, b))
				}
			}
			return out
		}},
		{"sweep: Welch t-test of prefixes", []string{}, "", false, func(p *pSet) any {
			var out []any
			for n := 4; n <= 100; n += 3 {
				r, err := stats.TwoSampleWelchTTest(stats.Sample{Xs: sweepXs[:n]}, stats.Sample{Xs: sweepXs[n : 2*n+5]}, stats.LocationDiffers)
				if err != nil {
					out = append(out, err.Error())
				} else {
					out = append(out, r.T, r.P, r.DoF)
				}
			}
			return out
		}},
		{"vec.Sum(40000)", []string{"xsBig"}, "", false, func(p *pSet) any { return vec.Sum(p.xsBig) }},
		{"Sample.Sum/Mean(40000)", []string{"xsBig"}, "", false, func(p *pSet) any {
			s := stats.Sample{Xs: p.xsBig}
			return []any{s.Sum(), s.Mean(), s.Weight()}
		}},
		// equal arguments, different history: every other call evaluates the same VALUES in a buffer that held other data
		// (and was queried) a moment ago, the remaining calls in a freshly allocated slice
		{"Quantile(refilled buffer | fresh slice)", nil, "", false, func(p *pSet) any {
			a := []float64{9, 1, 8, 2, 7, 3, 6, 4, 5, 50, 0.5, 12}
			b := []float64{-3, 30, -1, 10, 0, 20, 5, 15, 2.5, 7, 25, 1}
			var buf []float64
			if atomic.AddInt64(&refillCalls, 1)%2 == 0 {
				buf = append([]float64{}, a...)
				_ = stats.Sample{Xs: buf}.Quantile(0.3)
				_ = stats.Sample{Xs: buf}.IQR()
				copy(buf, b)
			} else {
				buf = append([]float64{}, b...)
			}
			s := stats.Sample{Xs: buf}
			_, lo, hi := stats.QuantileCI(len(buf), 0.5, 0.9).SampleCI(s)
			return []any{s.Quantile(0.3), s.Quantile(0.5), s.IQR(), lo, hi, stats.BandwidthScott(s)}
		}},
		{"graphalg.PreOrder(big)", []string{"gBig"}, "", false, func(p *pSet) any { return graphalg.PreOrder(p.gBig, 0) }},
		{"graphalg.PostOrder(big)", []string{"gBig"}, "", false, func(p *pSet) any { return graphalg.PostOrder(p.gBig, 0) }},
		{"graphalg.PreOrder(big, inner root)", []string{"gBig"}, "", false, func(p *pSet) any { return graphalg.PreOrder(p.gBig, 2500) }},
		{"graphalg.IDom(big)", []string{"gBig"}, "", false, func(p *pSet) any { return graphalg.IDom(graph.MakeBiGraph(p.gBig), 1100) }},
		{"fit.PolynomialRegression", []string{"xs1", "pos"}, "", false, func(p *pSet) any {
			r := fit.PolynomialRegression(p.xs1, p.pos, nil, 2)
			return []any{r.Coefficients, r.F(1.5), r.String()}
		}},
		{"fit.LOESS", []string{"xs1", "pos"}, "", false, func(p *pSet) any { return fit.LOESS(p.xs1, p.pos, 1, 0.9)(3.25) }},
		{"vec.Sum", []string{"xs1"}, "", false, func(p *pSet) any { return vec.Sum(p.xs1) }},
		{"vec.Map", []string{"xs1"}, "", false, func(p *pSet) any { return vec.Map(math.Sqrt, p.pos) }},
		{"vec.Concat", []string{"xs1", "xs2"}, "", false, func(p *pSet) any { return vec.Concat(p.xs1, p.xs2) }},
		{"vec.Linspace", nil, "", false, func(p *pSet) any { return vec.Linspace(-1, 2, 7) }},
		{"graph.Equal", []string{"g", "g2"}, "", false, func(p *pSet) any { return graph.Equal(p.g, p.g2) }},
		{"graph.Equal/rev", []string{"g2", "g"}, "", false, func(p *pSet) any { return graph.Equal(p.g2, p.g) }},
		{"graph.MakeBiGraph", []string{"g"}, "", false, func(p *pSet) any {
			b := graph.MakeBiGraph(p.g)
			var in [][]int
			for i := 0; i < b.NumNodes(); i++ {
				in = append(in, b.In(i))
			}
			return in
		}},
		{"graph.SubgraphRemove", []string{"g"}, "", false, func(p *pSet) any {
			return graph.Graph(graph.SubgraphRemove(p.g, []int{1}, []graph.Edge{{Node: 0, Edge: 0}}))
		}},
		{"graph.SubgraphKeep", []string{"g"}, "", false, func(p *pSet) any { return graph.Graph(graph.SubgraphKeep(p.g, []int{2, 0}, nil)) }},
		{"graphalg.PreOrder", []string{"g"}, "", false, func(p *pSet) any { return graphalg.PreOrder(p.g, 0) }},
		{"graphalg.PostOrder", []string{"g"}, "", false, func(p *pSet) any { return graphalg.PostOrder(p.g, 0) }},
		{"graphalg.SCC", []string{"g"}, "", false, func(p *pSet) any {
			s := graphalg.SCC(p.g, graphalg.SCCEdges)
			var out []any
			for c := 0; c < s.NumNodes(); c++ {
				out = append(out, append([]int{}, s.Subnodes(c)...), append([]int{}, s.Out(c)...))
			}
			return out
		}},
		{"graphalg.IDom", []string{"g"}, "", false, func(p *pSet) any { return graphalg.IDom(graph.MakeBiGraph(p.g), 0) }},
		{"graphalg.DomFrontier", []string{"g", "idom"}, "", false, func(p *pSet) any { return graphalg.DomFrontier(graph.MakeBiGraph(p.g), 0, p.idom) }},
		{"graphalg.Dom", []string{"idom"}, "", false, func(p *pSet) any { return graph.Graph(graphalg.Dom(p.idom)) }},
		{"graphalg.SimplifyMulti", []string{"g"}, "", false, func(p *pSet) any { return graph.Graph(graphalg.SimplifyMulti(p.g)) }},
		{"graphout.Dot.Sprint", []string{"g"}, "", false, func(p *pSet) any { return graphout.Dot{Name: "x"}.Sprint(p.g) }},
		// attribute callbacks returning prefixes of one shared table, without a label (so that the default label is added):
		// the table behind the prefix is the caller's, for every goroutine printing with these options
		{"graphout.Dot.Sprint(shared attribute table)", []string{"g", "attrs"}, "", false, func(p *pSet) any {
			return graphout.Dot{Name: "y",
				NodeAttrs: func(i int) []graphout.DotAttr { return p.attrs[:1+i%3] },
				EdgeAttrs: func(i, j int) []graphout.DotAttr { return p.attrs[1 : 2+(i+j)%2] },
			}.Sprint(p.g)
		}},
		{"NodeMarks.Test", []string{"marks"}, "", false, func(p *pSet) any { return []any{p.marks.Test(3), p.marks.Test(4), p.marks.Next(3), p.marks.Next(2000)} }},
		{"Linear.Map", []string{"lin"}, "", false, func(p *pSet) any { return []any{p.lin.Map(2.5), p.lin.Unmap(0.3)} }},
		{"Linear.Ticks", []string{"lin"}, "", false, func(p *pSet) any { a, b := p.lin.Ticks(scale.TickOptions{Max: 6}); return []any{a, b} }},
		{"Log.Map", []string{"lg"}, "", false, func(p *pSet) any { return []any{p.lg.Map(40), p.lg.Unmap(0.3)} }},
		{"Log.Ticks", []string{"lg"}, "", false, func(p *pSet) any { a, b := p.lg.Ticks(scale.TickOptions{Max: 5}); return []any{a, b} }},
		{"scale.QQ.Map", []string{"lin", "lg"}, "", false, func(p *pSet) any {
			q := scale.QQ{Src: &p.lin, Dest: &p.lg}
			return []any{q.Map(3), q.Unmap(100)}
		}},
		{"mathx.BetaInc", nil, "", false, func(p *pSet) any { return mathx.BetaInc(0.3, 2.5, 7) }},
		{"mathx.GammaInc", nil, "", false, func(p *pSet) any { return []any{mathx.GammaInc(3.5, 2), mathx.GammaIncComp(3.5, 9)} }},
		{"mathx.Choose", nil, "", false, func(p *pSet) any { return []any{mathx.Choose(40, 17), mathx.Lchoose(400, 170)} }},
		// documented in-place operations (sequential phase only; the receiver may change)
		{"Sample.Sort", []string{"sortMe"}, "sortMe", true, func(p *pSet) any { return digSample(p.sortMe.Sort()) }},
		{"graphalg.Reverse", []string{"rev"}, "rev", true, func(p *pSet) any { return graphalg.Reverse(p.rev) }},
		{"Linear.Nice", []string{"lin"}, "lin", true, func(p *pSet) any { p.lin.Nice(scale.TickOptions{Max: 6}); return []any{p.lin.Min, p.lin.Max} }},
		{"Log.Nice", []string{"lg"}, "lg", true, func(p *pSet) any { p.lg.Nice(scale.TickOptions{Max: 5}); return []any{p.lg.Min, p.lg.Max} }},
		{"Linear.SetClamp", []string{"lin"}, "lin", true, func(p *pSet) any { p.lin.SetClamp(!p.lin.Clamp); return p.lin.Clamp }},
		{"StreamStats.Add", []string{"stream"}, "stream", true, func(p *pSet) any { p.stream.Add(2.5); return p.stream.Count }},
		{"StreamStats.Combine", []string{"stream", "stream2"}, "stream", true, func(p *pSet) any { p.stream.Combine(&p.stream2); return p.stream.Count }},
		{"LinearHist.Add", []string{"lhist"}, "lhist", true, func(p *pSet) any { p.lhist.Add(3.3); return nil }},
		{"NodeMarks.Mark", []string{"marks"}, "marks", true, func(p *pSet) any { p.marks.Mark(77); return nil }},
		{"NodeMarks.Unmark", []string{"marks"}, "marks", true, func(p *pSet) any { p.marks.Unmark(3); return nil }},
	}
	sort.SliceStable(E, func(i, j int) bool { return false })
	return E
}

type pArg struct {
	ID     string `json:"id"`
	Before string `json:"before"`
	After  string `json:"after"`
	Mut    int    `json:"mut"`
}
type pEvent struct {
	Op       string `json:"op"`
	G        int    `json:"g"`
	Seq      int    `json:"seq"`
	F        string `json:"f"`
	Sig      string `json:"sig"`
	Args     []pArg `json:"args"`
	Res      string `json:"res"`
	Panicked int    `json:"panicked"`
	Seed     int64  `json:"seed"`
	Idx      int    `json:"idx"`
}

func purityRecord(out io.Writer, args []string) error {
	rf := newRecFlags("purity", 10)
	reps := rf.fs.Int("reps", 3, "sequential repetitions of every entry point")
	gor := rf.fs.Int("goroutines", 16, "goroutines of the concurrent phase")
	calls := rf.fs.Int("calls", 100, "calls per goroutine")
	rf.fs.Parse(args)
	enc := json.NewEncoder(out)
	entries := purityEntries()
	for idx := 0; idx < *rf.n; idx++ {
		if !rf.mine(idx) {
			continue
		}
		rng := rand.New(rand.NewSource(*rf.seed*1000003 + int64(idx)))
		p := mkSet(rng)
		// every other session runs under a legal but unusual configuration: the ties limit above the plain limit
		if idx%2 == 1 {
			stats.MannWhitneyExactLimit, stats.MannWhitneyTiesExactLimit = 12, 30
		} else {
			stats.MannWhitneyExactLimit, stats.MannWhitneyTiesExactLimit = 50, 25
		}
		var mu sync.Mutex
		seqs := map[int]int{}
		enc.Encode(pEvent{Op: "Reset", Args: []pArg{}, Seed: *rf.seed, Idx: idx})
		// snapshotting digests of shared objects takes the lock only in the sequential phase; in the concurrent phase
		// nothing shared may change, so digests are taken without synchronisation (the race detector watches the library)
		do := func(g int, e *pEntry, locked bool) {
			ev := pEvent{Op: "Call", G: g, F: e.name, Seed: *rf.seed, Idx: idx, Args: []pArg{}}
			sig := e.name
			for _, id := range e.args {
				b := p.objs[id]()
				m := 0
				if id == e.mut {
					m = 1
				}
				ev.Args = append(ev.Args, pArg{ID: fmt.Sprintf("s%d.%s", idx, id), Before: b, Mut: m})
				sig += "|" + b
			}
			ev.Sig = sig
			func() {
				defer func() {
					if r := recover(); r != nil {
						ev.Panicked = 1
						ev.Res = fmt.Sprint("panic:", r)
					}
				}()
				ev.Res = digestAny(e.call(p))
			}()
			for i, id := range e.args {
				ev.Args[i].After = p.objs[id]()
			}
			mu.Lock()
			seqs[g]++
			ev.Seq = seqs[g]
			enc.Encode(ev)
			mu.Unlock()
		}
		// cold start (once per process, before anything else has called the library): sixteen goroutines released together,
		// each beginning with the sweep over small sizes and going on with other read-only entry points - tables filled on
		// first use and one-time initialisation happen under concurrency here, or never (goroutine ids 101..116)
		if !purityCold {
			purityCold = true
			var cold []*pEntry
			var first *pEntry
			for k := range entries {
				e := &entries[k]
				if e.seqOnly || strings.Contains(e.name, "(shared BiGraph)") {
					continue
				}
				cold = append(cold, e)
				if strings.HasPrefix(e.name, "sweep: Choose") {
					first = e
				}
			}
			var cwg sync.WaitGroup
			release := make(chan struct{})
			for g := 101; g <= 116; g++ {
				cwg.Add(1)
				go func(g int) {
					defer cwg.Done()
					<-release
					if first != nil {
						do(g, first, false)
					}
					for c := 0; c < 5; c++ {
						do(g, cold[(g*7+c*13)%len(cold)], false)
					}
				}(g)
			}
			close(release)
			cwg.Wait()
		}
		// sequential phase: every entry point, repeated with unrelated calls in between
		for r := 0; r < *reps; r++ {
			order := rng.Perm(len(entries))
			for _, k := range order {
				e := &entries[k]
				if e.seqOnly && r > 0 && e.mut != "" {
					// in-place operations legitimately change their receiver: run them in the first round only,
					// after it the shared inputs stay fixed
					continue
				}
				do(0, e, true)
			}
		}
		// concurrent phase: read-only entry points on the same shared inputs
		var ro []*pEntry
		var sharedFirst *pEntry
		var sweeps []*pEntry
		for k := range entries {
			if !entries[k].seqOnly {
				ro = append(ro, &entries[k])
				if strings.HasPrefix(entries[k].name, "sweep:") {
					sweeps = append(sweeps, &entries[k])
				}
				if strings.Contains(entries[k].name, "(shared BiGraph)") {
					sharedFirst = &entries[k]
				}
			}
		}
		p.bgShared = graph.MakeBiGraph(p.gBig) // untouched: whatever it builds lazily is built under concurrency
		var wg sync.WaitGroup
		for g := 1; g <= *gor; g++ {
			wg.Add(1)
			gr := rand.New(rand.NewSource(*rf.seed*7919 + int64(idx*131+g)))
			go func(g int) {
				defer wg.Done()
				for c := 0; c < *calls; c++ {
					if c == 0 && sharedFirst != nil {
						do(g, sharedFirst, false)
						continue
					}
					if c == 1 && len(sweeps) > 0 {
						do(g, sweeps[g%len(sweeps)], false)
						continue
					}
					do(g, ro[gr.Intn(len(ro))], false)
				}
			}(g)
		}
		wg.Wait()
	}
	return nil
}

// sweepXs: fixed data for the parameter sweeps (values with inexact mantissas and some spread).
var sweepXs = func() []float64 {
	x := make([]float64, 260)
	v := 0.37
	for i := range x {
		v = math.Mod(v*7.13+0.291, 11.7)
		x[i] = v - 3.1
	}
	return x
}()

var purityCold bool
