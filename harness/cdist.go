package main

// Family cdist (C05): stats.NormalDist, TDist, DeltaDist against spec/cdist/ContDist.tla (lattice and
// grids) and ContDistTrace.tla (laws on recorded evaluations).

import (
	"encoding/json"
	"fmt"
	"io"
	"math"
	"math/big"
	"math/rand"

	"github.com/aclements/go-moremath/mathx"
	"github.com/aclements/go-moremath/stats"
)

func init() {
	families["cdist"] = &family{replay: cdistReplay, record: cdistRecord}
}

// bigPhi: standard normal CDF from the Maclaurin series of erf in 600-bit arithmetic (|z| <= 9),
// independent of math.Erfc which the library uses.
func bigPhi(z float64) float64 {
	if z > 9 {
		return 1
	}
	if z < -9 {
		// tail by the continued fraction  erfc(t) = exp(-t^2)/(t sqrt(pi)) * 1/(1+ 1/(2t^2)/(1+2/(2t^2)/(1+...)))
		t := -z / math.Sqrt2
		cf := 0.0
		for k := 60; k >= 1; k-- {
			cf = float64(k) / 2 / (t + cf)
		}
		return 0.5 * math.Exp(-t*t) / math.SqrtPi / (t + cf)
	}
	const prec = 600
	t := new(big.Float).SetPrec(prec).SetFloat64(z)
	t.Quo(t, new(big.Float).SetPrec(prec).Sqrt(big.NewFloat(2).SetPrec(prec)))
	t2 := new(big.Float).SetPrec(prec).Mul(t, t)
	term := new(big.Float).SetPrec(prec).Set(t) // t^(2n+1)/n! with sign
	sum := new(big.Float).SetPrec(prec).Set(t)
	for n := 1; n < 800; n++ {
		term.Mul(term, t2)
		term.Quo(term, big.NewFloat(float64(n)).SetPrec(prec))
		term.Neg(term)
		add := new(big.Float).SetPrec(prec).Quo(term, big.NewFloat(float64(2*n+1)).SetPrec(prec))
		sum.Add(sum, add)
		if e := add.MantExp(nil); add.Sign() == 0 || e < sum.MantExp(nil)-560 {
			break
		}
	}
	// erf = 2/sqrt(pi) * sum ; Phi = (1 + erf)/2
	pi := new(big.Float).SetPrec(prec)
	pi.SetString("3.14159265358979323846264338327950288419716939937510582097494459230781640628620899862803482534211706798214808651328230664709384460955058223172535940812848111745028410270193852110555964462294895493038196")
	erf := new(big.Float).SetPrec(prec).Quo(sum, new(big.Float).SetPrec(prec).Sqrt(pi))
	erf.Mul(erf, big.NewFloat(2).SetPrec(prec))
	erf.Add(erf, big.NewFloat(1).SetPrec(prec))
	erf.Quo(erf, big.NewFloat(2).SetPrec(prec))
	f, _ := erf.Float64()
	return f
}

type cdCase struct {
	Kind   string     `json:"kind"`
	Nu     int        `json:"nu"`
	XNum   int64      `json:"xnum"`
	XDen   int64      `json:"xden"`
	FNum   SBig       `json:"fnum"`
	FDen   []int      `json:"fden"`
	Mus    [][2]int64 `json:"mus"`
	Sigmas [][2]int64 `json:"sigmas"`
	Zs     [][2]int64 `json:"zs"`
	Vs     [][2]int64 `json:"vs"`
	VWalk  [][2]int64 `json:"vwalk"`
}

func cdistReplay(in io.Reader, raw bool, args []string) (*Summary, error) {
	sum := &Summary{Rule: "one case per even-nu Student-t lattice point (exact rational CDF value) and one parameter-grid case (Mu x Sigma x z, V x x) evaluated against a 600-bit series for Phi and gonum's incomplete beta for the Student-t CDF, plus PDF/CDF consistency by Gauss-Legendre quadrature; non-trivial = lattice points with x != 0"}
	worst := map[string]float64{}
	note := func(k string, e float64) {
		if e > worst[k] && !math.IsNaN(e) {
			worst[k] = e
		}
	}
	err := forEachCase(in, raw, func(c json.RawMessage) {
		var cc cdCase
		if e := json.Unmarshal(c, &cc); e != nil {
			sum.viol("machinery", c, "bad case: %v", e)
			return
		}
		sum.Cases++
		defer func() {
			if r := recover(); r != nil {
				sum.viol("panic", c, "panic: %v", r)
			}
		}()
		if cc.Kind == "tlattice" {
			if cc.XNum != 0 {
				sum.Nontrivial++
				if sum.Nontrivial%17 == 1 {
					sum.sample(c)
				}
			}
			x := float64(cc.XNum) / float64(cc.XDen)
			want := new(big.Rat).SetFrac(cc.FNum.Int(), fromLimbs(cc.FDen))
			d := stats.TDist{V: float64(cc.Nu)}
			sum.Checks++
			got := d.CDF(x)
			// x is the float nearest the rational lattice point: dF <= pdf * |dx| <= 0.4 * eps * |x|
			if !closeRat(got, want, 1e-9, 0) {
				sum.viol("TDist.CDF-lattice", c, "TDist{%d}.CDF(%v)=%.15g want %.15g", cc.Nu, x, got, rf(want))
			}
			note("t-lattice", math.Abs(got-rf(want)))
			if g2 := d.CDF(-x); math.Abs(g2+got-1) > 1e-12 {
				sum.viol("TDist.CDF-symmetry", c, "CDF(%v)+CDF(%v)=%.15g", x, -x, g2+got)
			}
			nu := float64(cc.Nu)
			bi := mathx.BetaInc(nu/(nu+x*x), nu/2, 0.5)
			wb := 2 * (1 - rf(want))
			if x < 0 {
				wb = 2 * rf(want)
			}
			if math.Abs(bi-wb) > 1e-9 {
				sum.viol("BetaInc-half", c, "BetaInc(%v,%v,0.5)=%.15g want %.15g", nu/(nu+x*x), nu/2, bi, wb)
			}
			return
		}
		// grid
		sum.Nontrivial++
		sum.sample(json.RawMessage(`{"kind":"grid","note":"parameter grid, see spec/cdist/ContDist.tla MuGrid/SigmaGrid/ZGrid/VGrid"}`))
		for _, mr := range cc.Mus {
			for _, sr := range cc.Sigmas {
				mu, sg := float64(mr[0])/float64(mr[1]), float64(sr[0])/float64(sr[1])
				n := stats.NormalDist{Mu: mu, Sigma: sg}
				for _, zr := range cc.Zs {
					for _, sgn := range []float64{1, -1} {
						z := sgn * float64(zr[0]) / float64(zr[1])
						x := mu + sg*z
						zeff := (x - mu) / sg // the z actually reached after rounding mu + sigma z
						sum.Checks++
						got, want := n.CDF(x), bigPhi(zeff)
						if !closeF(got, want, 1e-9, 0) {
							sum.viol("NormalDist.CDF-accuracy", c, "Normal{%v,%v}.CDF(%v)=%.15g, 600-bit series %.15g", mu, sg, x, got, want)
						}
						note("normal-cdf", math.Abs(got-want))
						wp := math.Exp(-zeff*zeff/2) / (sg * math.Sqrt(2*math.Pi))
						if gp := n.PDF(x); !closeF(gp, wp, 1e-9/sg, 1e-9) || gp < 0 {
							sum.viol("NormalDist.PDF", c, "Normal{%v,%v}.PDF(%v)=%.15g want %.15g", mu, sg, x, gp, wp)
						}
						// integral of the PDF over [x, x + sigma/2] equals the CDF difference
						if math.Abs(mu) <= 1e3*sg {
							integ := gl8(n.PDF, x, x+sg/2)
							if diff := n.CDF(x+sg/2) - n.CDF(x); math.Abs(integ-diff) > 1e-9 {
								sum.viol("PDF-CDF-consistency", c, "Normal{%v,%v}: integral over [%v,%v]=%.12g, CDF difference %.12g", mu, sg, x, x+sg/2, integ, diff)
							}
						}
					}
				}
			}
		}
		for _, vr := range cc.Vs {
			v := float64(vr[0]) / float64(vr[1])
			d := stats.TDist{V: v}
			for _, zr := range cc.Zs {
				for _, sgn := range []float64{1, -1} {
					x := sgn * float64(zr[0]) / float64(zr[1])
					sum.Checks++
					got, want := d.CDF(x), tcdf(v, x)
					if !closeF(got, want, 1e-9, 0) {
						sum.viol("TDist.CDF-accuracy", c, "TDist{%v}.CDF(%v)=%.15g, independent value %.15g", v, x, got, want)
					}
					note("t-cdf", math.Abs(got-want))
					lg1, _ := math.Lgamma((v + 1) / 2)
					lg2, _ := math.Lgamma(v / 2)
					wp := math.Exp(lg1 - lg2 - 0.5*math.Log(v*math.Pi) - (v+1)/2*math.Log1p(x*x/v))
					if gp := d.PDF(x); !closeF(gp, wp, 1e-9, 1e-9) || gp < 0 {
						sum.viol("TDist.PDF", c, "TDist{%v}.PDF(%v)=%.15g want %.15g", v, x, gp, wp)
					}
					w := 0.25
					integ := gl8(d.PDF, x, x+w/2) + gl8(d.PDF, x+w/2, x+w)
					if diff := d.CDF(x+w) - d.CDF(x); math.Abs(integ-diff) > 1e-9 && !(v < 1 && math.Abs(x) < 1) {
						sum.viol("PDF-CDF-consistency", c, "TDist{%v}: integral over [%v,%v]=%.12g, CDF difference %.12g", v, x, x+w, integ, diff)
					}
				}
			}
		}
		// NormalDist.InvCDF: NaN for every p outside [0,1], by whatever amount
		for _, mr := range cc.Mus {
			for _, sr := range cc.Sigmas {
				d := stats.NormalDist{Mu: float64(mr[0]) / float64(mr[1]), Sigma: float64(sr[0]) / float64(sr[1])}
				for _, pbad := range []float64{math.Nextafter(1, 2), 1 + 1e-15, 1 + 1e-13, 1 + 1e-9, 2, math.Inf(1), -5e-324, -1e-300, -1e-16, -1e-13, -1e-9, -1, math.Inf(-1), math.NaN()} {
					sum.Checks++
					if g := d.InvCDF(pbad); !math.IsNaN(g) {
						sum.viol("NormalDist.InvCDF-domain", c, "%+v.InvCDF(%v)=%v want NaN", d, pbad, g)
					}
					if g := stats.InvCDF(d)(pbad); !math.IsNaN(g) {
						sum.viol("NormalDist.InvCDF-domain", c, "stats.InvCDF(%+v)(%v)=%v want NaN", d, pbad, g)
					}
				}
			}
		}
		// arguments far out, up to the largest floats and the infinities: limits 0 and 1, monotone all the way
		for _, v := range []float64{0.1, 0.5, 1, 1.5, 2, 2.5, 3, 4, 7, 30, 343, 1e4} {
			d := stats.TDist{V: v}
			prev := d.CDF(40)
			for _, x := range []float64{1e3, 1e10, 1e100, 1e153, 1e154, 2e154, 1e200, 1e300, math.MaxFloat64, math.Inf(1)} {
				sum.Checks++
				hi, lo := d.CDF(x), d.CDF(-x)
				if !(hi >= prev-1e-12 && hi <= 1) || !(lo >= 0 && lo <= 1-prev+1e-12) || math.Abs(hi+lo-1) > 1e-9 || !closeF(hi, tcdf(v, x), 1e-9, 0) {
					sum.viol("TDist.CDF-limits", c, "TDist{%v}: CDF(%v)=%v CDF(%v)=%v (CDF(40)=%v)", v, x, hi, -x, lo, prev)
				}
				if pd := d.PDF(x); !(pd >= 0) || math.IsInf(pd, 0) || pd > 1e-3 {
					sum.viol("TDist.PDF", c, "TDist{%v}.PDF(%v)=%v", v, x, pd)
				}
				if hi > prev {
					prev = hi
				}
			}
		}
		for _, d := range []stats.NormalDist{{Mu: 0, Sigma: 1}, {Mu: -7, Sigma: 1e-3}, {Mu: 1e6, Sigma: 1e6}} {
			for _, x := range []float64{1e10, 1e100, 1e200, 1e300, math.MaxFloat64, math.Inf(1)} {
				sum.Checks++
				if hi, lo := d.CDF(x), d.CDF(-x); hi != 1 || lo != 0 || d.PDF(x) != 0 || d.PDF(-x) != 0 {
					sum.viol("NormalDist-limits", c, "%+v: CDF(%v)=%v CDF(%v)=%v PDF %v %v", d, x, hi, -x, lo, d.PDF(x), d.PDF(-x))
				}
			}
		}
		// the walk over V: density and distribution function at a few fixed points for every V
		for _, vr := range cc.VWalk {
			v := float64(vr[0]) / float64(vr[1])
			d := stats.TDist{V: v}
			lg1, _ := math.Lgamma((v + 1) / 2)
			lg2, _ := math.Lgamma(v / 2)
			for _, x := range []float64{0, 1.3, -2.75} {
				sum.Checks++
				wp := math.Exp(lg1 - lg2 - 0.5*math.Log(v*math.Pi) - (v+1)/2*math.Log1p(x*x/v))
				if gp := d.PDF(x); !closeF(gp, wp, 1e-9, 1e-9) || gp < 0 || math.IsInf(gp, 0) {
					sum.viol("TDist.PDF", c, "TDist{%v}.PDF(%v)=%.15g want %.15g", v, x, gp, wp)
				}
				if got, want := d.CDF(x), tcdf(v, x); !closeF(got, want, 1e-9, 0) {
					sum.viol("TDist.CDF-accuracy", c, "TDist{%v}.CDF(%v)=%.15g, independent value %.15g", v, x, got, want)
				}
			}
		}
		// exact special values
		for _, t := range []struct{ v, x, f float64 }{{1, 1, 0.75}, {1, -1, 0.25}, {1, 0, 0.5}, {2, 0, 0.5}, {7.5, 0, 0.5}} {
			if g := (stats.TDist{V: t.v}).CDF(t.x); math.Abs(g-t.f) > 1e-12 {
				sum.viol("TDist.CDF-lattice", c, "TDist{%v}.CDF(%v)=%.15g want %v", t.v, t.x, g, t.f)
			}
		}
	})
	sum.note("worst_abs_error", worst)
	cdistGlobals(sum)
	normalMonotoneHunt(sum)
	cdistConcurrent(sum)
	return sum, err
}

type cdEvent struct {
	Op    string `json:"op"`
	Dist  string `json:"dist"`
	First int    `json:"first"`
	Mu    fdy    `json:"mu"`
	Sigma fdy    `json:"sigma"`
	X     fdy    `json:"x"`
	Y     fdy    `json:"y"`
	Y1    fdy    `json:"y1"`
	Y2    fdy    `json:"y2"`
	YStd  fdy    `json:"ystd"`
	P     fdy    `json:"p"`
	Z     fdy    `json:"z"`
	Mean  fdy    `json:"mean"`
	Var   fdy    `json:"var"`
	Lo    fdy    `json:"lo"`
	Hi    fdy    `json:"hi"`
	T     fdy    `json:"t"`
	Cdf   fdy    `json:"cdf"`
	Pdf   fdy    `json:"pdf"`
	Inv   fdy    `json:"inv"`
	Seed  int64  `json:"seed"`
	Idx   int    `json:"idx"`
}

type contDist interface {
	CDF(float64) float64
	PDF(float64) float64
}

func cdistRecord(out io.Writer, args []string) error {
	rf := newRecFlags("cdist", 60)
	pts := rf.fs.Int("pts", 40, "points per sweep")
	rf.fs.Parse(args)
	enc := json.NewEncoder(out)
	z := mkfdy(0)
	blank := cdEvent{Mu: z, Sigma: z, X: z, Y: z, Y1: z, Y2: z, YStd: z, P: z, Z: z, Mean: z, Var: z, Lo: z, Hi: z, T: z, Cdf: z, Pdf: z, Inv: z}
	for idx := 0; idx < *rf.n; idx++ {
		if !rf.mine(idx) {
			continue
		}
		rng := rand.New(rand.NewSource(*rf.seed*1000003 + int64(idx)))
		mk := func(op string) cdEvent {
			e := blank
			e.Op, e.Seed, e.Idx = op, *rf.seed, idx
			return e
		}
		enc.Encode(mk("Reset"))
		mu := (rng.Float64()*2 - 1) * math.Pow(10, 6*rng.Float64())
		if rng.Intn(4) == 0 {
			mu = 0
		}
		sigma := logUniform(rng, 1e-6, 1e6)
		nd := stats.NormalDist{Mu: mu, Sigma: sigma}
		v := logUniform(rng, 0.1, 1e4)
		if rng.Intn(5) == 0 {
			v = logUniform(rng, 1e4, 1e8) // beyond the accuracy range: laws only
		}
		td := stats.TDist{V: v}
		for _, dd := range []struct {
			name  string
			d     contDist
			c, sc float64
		}{{"normal", nd, mu, sigma}, {"t", td, 0, 1}} {
			xs := []float64{math.Inf(-1), math.Inf(1), dd.c}
			for k := 0; k < *pts; k++ {
				u := (rng.Float64()*2 - 1) * 40
				if rng.Intn(3) == 0 {
					u = (rng.Float64()*2 - 1) * 3
				}
				xs = append(xs, dd.c+dd.sc*u)
			}
			sortFloats(xs)
			for k, x := range xs {
				e := mk("CdfPt")
				e.Dist, e.X, e.Y = dd.name, mkfdy(x), mkfdy(dd.d.CDF(x))
				if k == 0 {
					e.First = 1
				}
				enc.Encode(e)
				if !math.IsInf(x, 0) && k%4 == 0 {
					p := mk("PdfPt")
					p.Dist, p.X, p.Y = dd.name, mkfdy(x), mkfdy(dd.d.PDF(x))
					enc.Encode(p)
				}
			}
			for k := 0; k < 8; k++ {
				d := dd.sc * math.Abs(rng.NormFloat64()) * 3
				// c - d and c + d must be exact mirror images: take d such that both are representable
				lo, hi := dd.c-d, dd.c+d
				if hi-dd.c != dd.c-lo {
					continue
				}
				e := mk("Sym")
				e.Dist, e.Y1, e.Y2 = dd.name, mkfdy(dd.d.CDF(lo)), mkfdy(dd.d.CDF(hi))
				enc.Encode(e)
			}
		}
		// InvCDF of the normal distribution
		ps := []float64{0, 1, -0.1, 1.1, math.NaN(), 0.5, 0.02425, 1 - 0.02425, 1e-300, 1e-100, 1e-17, 1 - 1e-16}
		for k := 0; k < *pts; k++ {
			switch rng.Intn(3) {
			case 0:
				ps = append(ps, rng.Float64())
			case 1:
				ps = append(ps, logUniform(rng, 1e-300, 0.5))
			default:
				ps = append(ps, 1-logUniform(rng, 1e-15, 0.5))
			}
		}
		std := stats.NormalDist{Mu: 0, Sigma: 1}
		for _, p := range ps {
			e := mk("Inv")
			x := std.InvCDF(p)
			e.P, e.X, e.Y = mkfdy(p), mkfdy(x), mkfdy(std.CDF(x))
			enc.Encode(e)
			// with location and scale the inverse must be mu + sigma * standard inverse (checked through the CDF law)
			if p > 0 && p < 1 && math.Abs(mu) <= 1e3*sigma {
				e2 := mk("Inv")
				x2 := nd.InvCDF(p)
				e2.P, e2.X, e2.Y = mkfdy(p), mkfdy(x2), mkfdy(std.CDF((x2-mu)/sigma))
				if p > 1e-3 && p < 1-1e-3 { // (x2-mu)/sigma loses |mu|/sigma ulps; keep to the bulk
					enc.Encode(e2)
				}
			}
		}
		for k := 0; k < 10; k++ {
			zz := rng.NormFloat64() * 3
			e := mk("LS")
			e.Mu, e.Sigma, e.Z = mkfdy(mu), mkfdy(sigma), mkfdy(zz)
			e.Y, e.YStd = mkfdy(nd.CDF(mu+sigma*zz)), mkfdy(std.CDF(zz))
			enc.Encode(e)
		}
		m := mk("Moments")
		lo, hi := nd.Bounds()
		m.Mu, m.Sigma, m.Mean, m.Var, m.Lo, m.Hi = mkfdy(mu), mkfdy(sigma), mkfdy(nd.Mean()), mkfdy(nd.Variance()), mkfdy(lo), mkfdy(hi)
		enc.Encode(m)
		r1, r2 := rand.New(rand.NewSource(int64(idx)+99)), rand.New(rand.NewSource(int64(idx)+99))
		for k := 0; k < 5; k++ {
			e := mk("Rand")
			e.Mu, e.Sigma, e.X, e.Z = mkfdy(mu), mkfdy(sigma), mkfdy(nd.Rand(r1)), mkfdy(r2.NormFloat64())
			enc.Encode(e)
		}
		// a nil source means the package-level generator: the draws cannot be replayed, but they must still be Mu + Sigma * N(0,1)
		{
			const N = 2000
			s, worstDev := 0.0, 0.0
			viaRand := stats.Rand(nd)
			for k := 0; k < N; k++ {
				var x float64
				if k%2 == 0 {
					x = nd.Rand(nil)
				} else {
					x = viaRand(nil)
				}
				s += (x - mu) / sigma
				worstDev = math.Max(worstDev, math.Abs(x-mu)/sigma)
			}
			e := mk("RandNil")
			e.Mu, e.Sigma, e.Mean, e.Hi = mkfdy(mu), mkfdy(sigma), mkfdy(s/N), mkfdy(worstDev)
			enc.Encode(e)
		}
		// DeltaDist
		t := math.Round(mu*8) / 8
		dl := stats.DeltaDist{T: t}
		for _, x := range []float64{t, t - 1, t + 1, math.Nextafter(t, math.Inf(-1)), math.Nextafter(t, math.Inf(1)), t + rng.NormFloat64()} {
			for _, p := range []float64{-0.5, 0, 0.3, 1, 1.5} {
				e := mk("Delta")
				e.T, e.X, e.Cdf, e.Pdf, e.P, e.Inv = mkfdy(t), mkfdy(x), mkfdy(dl.CDF(x)), mkfdy(dl.PDF(x)), mkfdy(p), mkfdy(dl.InvCDF(p))
				enc.Encode(e)
			}
		}
	}
	return nil
}

// cdistConcurrent: the continuous distributions evaluated by many goroutines at once, every goroutine with other parameters.
func cdistConcurrent(sum *Summary) {
	var names []string
	var calls []func() float64
	add := func(name string, f func() float64) { names, calls = append(names, name), append(calls, f) }
	for _, v := range []float64{0.5, 1, 2, 3, 4, 5.5, 9, 16, 30, 75, 150, 1000} {
		d := stats.TDist{V: v}
		for _, x := range []float64{-7.5, -1.25, -0.3, 0, 0.6, 1.5, 12} {
			x := x
			add(fmt.Sprintf("TDist{%v}.CDF(%v)", v, x), func() float64 { return d.CDF(x) })
			add(fmt.Sprintf("TDist{%v}.PDF(%v)", v, x), func() float64 { return d.PDF(x) })
		}
		inv := stats.InvCDF(d)
		for _, y := range []float64{0.05, 0.5, 0.975} {
			y := y
			add(fmt.Sprintf("InvCDF(TDist{%v})(%v)", v, y), func() float64 { return inv(y) })
		}
	}
	for _, n := range []stats.NormalDist{{Mu: 0, Sigma: 1}, {Mu: -3, Sigma: 0.25}, {Mu: 1e6, Sigma: 40}} {
		n := n
		for _, z := range []float64{-6, -1, 0, 0.5, 3} {
			x := n.Mu + z*n.Sigma
			add(fmt.Sprintf("%+v.CDF(%v)", n, x), func() float64 { return n.CDF(x) })
			add(fmt.Sprintf("%+v.PDF(%v)", n, x), func() float64 { return n.PDF(x) })
		}
		for _, y := range []float64{0.001, 0.3, 0.5, 0.99} {
			y := y
			add(fmt.Sprintf("%+v.InvCDF(%v)", n, y), func() float64 { return n.InvCDF(y) })
		}
	}
	concurrentSame(sum, "continuous distributions", names, calls)
}

// cdistGlobals: what the package's exported variables and the process-wide random source may and may not influence.
// (1) StdNormal is a convenience VALUE: a program that assigns to it must not change what any other distribution computes.
// (2) Rand(nil) "uses the default global source" (stats/dist.go): after re-seeding that source the same draws come again.
func cdistGlobals(sum *Summary) {
	c := json.RawMessage(`{"globals":1}`)
	dists := []stats.NormalDist{{Mu: 0, Sigma: 1}, {Mu: -3, Sigma: 0.25}, {Mu: 1e6, Sigma: 40}}
	eval := func() []float64 {
		var out []float64
		for _, d := range dists {
			for _, p := range []float64{1e-300, 1e-9, 0.001, 0.3, 0.5, 0.8, 0.999, 1 - 1e-12} {
				out = append(out, d.InvCDF(p))
			}
			for _, z := range []float64{-30, -6, -1, 0, 0.5, 3, 9} {
				out = append(out, d.CDF(d.Mu+z*d.Sigma), d.PDF(d.Mu+z*d.Sigma))
			}
		}
		for _, v := range []float64{1, 2.5, 30} {
			out = append(out, stats.TDist{V: v}.CDF(1.3), stats.TDist{V: v}.PDF(-0.4), stats.InvCDF(stats.TDist{V: v})(0.9))
		}
		return out
	}
	before := eval()
	func() {
		saved := stats.StdNormal
		defer func() { stats.StdNormal = saved }()
		stats.StdNormal = stats.NormalDist{Mu: 100, Sigma: 15}
		after := eval()
		sum.Checks++
		for i := range before {
			if math.Float64bits(before[i]) != math.Float64bits(after[i]) {
				sum.viol("StdNormal-variable", c, "value %d of the evaluation list changed from %.17g to %.17g when the exported variable StdNormal was assigned another distribution", i, before[i], after[i])
				break
			}
		}
	}()
	for _, d := range dists[1:] {
		var runs [2][]float64
		for k := range runs {
			rand.Seed(20260927) //nolint:staticcheck // the documented default global source, made repeatable
			gen := stats.Rand(d)
			for j := 0; j < 4; j++ {
				runs[k] = append(runs[k], d.Rand(nil), gen(nil))
			}
		}
		sum.Checks++
		if !bitsEqual(runs[0], runs[1]) {
			sum.viol("Rand-nil-source", c, "%+v: Rand(nil) after re-seeding the global source gives %v the first time and %v the second: it does not draw from the default global source", d, runs[0], runs[1])
		}
	}
}

// normalMonotoneHunt: "CDF is non-decreasing" below the tolerance.  Along a fine grid of z the relative deviation of
// NormalDist.CDF from the 600-bit series is accurate to ~1e-16; where it changes by more than 2e-14 between two grid points
// (two formulas joined at a point that is no round number) the jump is chased by bisection down to two neighbouring floats,
// and there the CDF must not step back by more than 4 ulps.  Also: DeltaDist at an infinite T is still the unit step at T.
func normalMonotoneHunt(sum *Summary) {
	c := json.RawMessage(`{"normal-monotone":1}`)
	for _, d := range []stats.NormalDist{{Mu: 0, Sigma: 1}, {Mu: 2.5, Sigma: 0.75}} {
		d := d
		dev := func(z float64) float64 {
			r := bigPhi(z)
			return (d.CDF(d.Mu+z*d.Sigma) - r) / r
		}
		const N = 2400
		prevZ, prevD := -8.0, dev(-8)
		found := 0
		for k := 1; k <= N && found < 2; k++ {
			z := -8 + 13*float64(k)/N
			dv := dev(z)
			if math.Abs(dv-prevD) > 2e-14 {
				lo, hi, dlo, dhi := prevZ, z, prevD, dv
				for it := 0; it < 90 && math.Nextafter(lo, hi) < hi; it++ {
					mid := lo + (hi-lo)/2
					dm := dev(mid)
					if math.Abs(dm-dlo) >= math.Abs(dhi-dm) {
						hi, dhi = mid, dm
					} else {
						lo, dlo = mid, dm
					}
				}
				// neighbouring z; compare the CDF at the corresponding neighbouring x (several floats on either side)
				x := d.Mu + lo*d.Sigma
				run := []float64{x}
				for j := 0; j < 6; j++ {
					run = append([]float64{math.Nextafter(run[0], math.Inf(-1))}, run...)
					run = append(run, math.Nextafter(run[len(run)-1], math.Inf(1)))
				}
				sum.Checks++
				for j := 1; j < len(run); j++ {
					a, b := d.CDF(run[j-1]), d.CDF(run[j])
					if b < a-4*(math.Nextafter(a, 2)-a) {
						sum.viol("NormalDist.CDF-monotone", c, "%+v: CDF(%.17g)=%.17g > CDF(%.17g)=%.17g - neighbouring floats out of order (found where the deviation from the series jumps, z = %.6f)", d, run[j-1], a, run[j], b, lo)
						found++
						break
					}
				}
			}
			prevZ, prevD = z, dv
		}
	}
	// a second signal for a joint between two formulas: the NOISE of the deviation changes (one formula is good to 1e-16,
	// the other only to 1e-13).  noisy(z): the largest |deviation| over five neighbouring floats exceeds 2e-14.  Where
	// noisy changes between grid points, bisect on it and look at a run of floats around the place found.
	for _, d := range []stats.NormalDist{{Mu: 0, Sigma: 1}, {Mu: 2.5, Sigma: 0.75}} {
		d := d
		noisy := func(z float64) bool {
			w := 0.0
			for j := 0; j < 5; j++ {
				r := bigPhi(z)
				w = math.Max(w, math.Abs((d.CDF(d.Mu+z*d.Sigma)-r)/r))
				z = math.Nextafter(z, math.Inf(1))
			}
			return w > 2e-14
		}
		const N = 400
		prevZ, prevN := -8.0, noisy(-8)
		for k := 1; k <= N; k++ {
			z := -8 + 13*float64(k)/N
			nz := noisy(z)
			if nz != prevN {
				lo, hi := prevZ, z
				for it := 0; it < 70 && math.Nextafter(lo, hi) < hi; it++ {
					mid := lo + (hi-lo)/2
					if noisy(mid) == prevN {
						lo = mid
					} else {
						hi = mid
					}
				}
				x := d.Mu + lo*d.Sigma
				const reach = 60000 // neighbouring floats looked at on either side (evaluating the CDF costs next to nothing)
				for j := 0; j < reach; j++ {
					x = math.Nextafter(x, math.Inf(-1))
				}
				sum.Checks++
				for j := 0; j < 2*reach; j++ {
					nx := math.Nextafter(x, math.Inf(1))
					a, b := d.CDF(x), d.CDF(nx)
					if b < a-4*(math.Nextafter(a, 2)-a) {
						sum.viol("NormalDist.CDF-monotone", c, "%+v: CDF(%.17g)=%.17g > CDF(%.17g)=%.17g - neighbouring floats out of order (found where the accuracy of the CDF changes, z = %.6f)", d, x, a, nx, b, lo)
						break
					}
					x = nx
				}
			}
			prevZ, prevN = z, nz
		}
	}
	for _, t := range []float64{math.Inf(1), math.Inf(-1)} {
		dl := stats.DeltaDist{T: t}
		sum.Checks++
		if g := dl.CDF(t); g != 1 {
			sum.viol("DeltaDist", c, "DeltaDist{%v}.CDF(%v)=%v want 1 (the unit step at T, T included)", t, t, g)
		}
		if g := dl.InvCDF(0.5); g != t {
			sum.viol("DeltaDist", c, "DeltaDist{%v}.InvCDF(0.5)=%v want T", t, g)
		}
		if g := dl.CDF(-t); t > 0 && g != 0 || t < 0 && g != 1 {
			sum.viol("DeltaDist", c, "DeltaDist{%v}.CDF(%v)=%v", t, -t, g)
		}
		if g := dl.CDF(12.5); t > 0 && g != 0 || t < 0 && g != 1 {
			sum.viol("DeltaDist", c, "DeltaDist{%v}.CDF(12.5)=%v", t, g)
		}
	}
}
