package main

// Family vec (C09): vec.Linspace, Logspace, Sum, Map, Vectorize, Concat against spec/sample/Vec.tla.

import (
	"encoding/json"
	"io"
	"math"
	"math/big"

	"github.com/aclements/go-moremath/vec"
)

func init() {
	families["vec"] = &family{replay: vecReplay}
}

func vecReplay(in io.Reader, raw bool, args []string) (*Summary, error) {
	sum := &Summary{Rule: "one case per (lo, hi, n) emitted by TLC with the exact Linspace vector and its sum; Logspace, Sum, Map, Vectorize and Concat are checked through their defining identities on the same vectors; non-trivial = n >= 3 and lo != hi"}
	err := forEachCase(in, raw, func(c json.RawMessage) {
		var vc struct {
			Lo  int64      `json:"lo"`
			Hi  int64      `json:"hi"`
			N   int        `json:"n"`
			Lin [][2]int64 `json:"lin"`
			Sum [2]int64   `json:"sum"`
		}
		if e := json.Unmarshal(c, &vc); e != nil || vc.N == 0 {
			sum.viol("machinery", c, "bad case: %v", e)
			return
		}
		sum.Cases++
		if vc.N >= 3 && vc.Lo != vc.Hi {
			sum.Nontrivial++
			if sum.Nontrivial%37 == 1 {
				sum.sample(c)
			}
		}
		defer func() {
			if r := recover(); r != nil {
				sum.viol("panic", c, "panic: %v", r)
			}
		}()
		// exact clauses under inexact end points (multiples of 0.1, 1/3, 123.456): the values never step back, and a range
		// that is a single point (lo == hi) consists of that point only - no tolerance
		for _, sc := range []float64{0.1, 1 / 3.0, 123.456} {
			lo, hi := float64(vc.Lo)*sc, float64(vc.Hi)*sc
			got := vec.Linspace(lo, hi, vc.N)
			sum.Checks++
			for i := 1; i < len(got); i++ {
				if (lo <= hi && got[i] < got[i-1]) || (lo >= hi && got[i] > got[i-1]) {
					sum.viol("Linspace", c, "Linspace(%.17g, %.17g, %d) steps back at element %d: %.17g after %.17g", lo, hi, vc.N, i, got[i], got[i-1])
					break
				}
			}
			for _, pt := range []float64{lo, hi, lo + sc} {
				for i, g := range vec.Linspace(pt, pt, vc.N) {
					if g != pt {
						sum.viol("Linspace", c, "Linspace(%.17g, %.17g, %d)[%d] = %.17g: a one-point range must consist of that point", pt, pt, vc.N, i, g)
						break
					}
				}
			}
		}
		for _, sc := range []float64{1, 0.125, 1 << 20} {
			lo, hi := float64(vc.Lo)*sc, float64(vc.Hi)*sc
			got := vec.Linspace(lo, hi, vc.N)
			sum.Checks++
			if len(got) != vc.N {
				sum.viol("Linspace", c, "length %d", len(got))
				continue
			}
			tol := 1e-13 * math.Max(math.Abs(lo), math.Abs(hi))
			for i, g := range got {
				want := new(big.Rat).Mul(big.NewRat(vc.Lin[i][0], vc.Lin[i][1]), ratF(sc))
				if !closeRat(g, want, tol, 0) {
					sum.viol("Linspace", c, "scale %g: element %d = %.17g want %.17g", sc, i, g, rf(want))
				}
			}
			if got[0] != lo {
				sum.viol("Linspace", c, "first element %v is not lo=%v", got[0], lo)
			}
			wantSum := new(big.Rat).Mul(big.NewRat(vc.Sum[0], vc.Sum[1]), ratF(sc))
			if s := vec.Sum(got); !closeRat(s, wantSum, 64*float64(vc.N)*tol+1e-300, 0) {
				sum.viol("Sum", c, "Sum=%v want %v", s, rf(wantSum))
			}
			if sc == 1 {
				for _, base := range []float64{2, 10, 0.5} {
					ls := vec.Logspace(lo, hi, vc.N, base)
					for i := range ls {
						if want := math.Pow(base, got[i]); ls[i] != want {
							sum.viol("Logspace", c, "base %v element %d = %v want base^Linspace = %v", base, i, ls[i], want)
						}
					}
				}
			}
			f := func(x float64) float64 { return 3*x - 1 }
			m, v := vec.Map(f, got), vec.Vectorize(f)(got)
			keep := append([]float64{}, got...)
			for i := range got {
				if m[i] != f(got[i]) || v[i] != f(got[i]) {
					sum.viol("Map", c, "Map/Vectorize element %d", i)
				}
			}
			// Map(f, xs)[i] = f(xs[i]) for every element on its own: also for runs of equal values, for +0 next to -0 (equal,
			// yet told apart by 1/x and Copysign)
			{
				nz := math.Copysign(0, -1)
				xs2 := append(append([]float64{0, nz, nz, 0, 2.5, 2.5}, got...), 0, nz)
				for _, h := range []func(float64) float64{
					func(x float64) float64 { return 1 / x },
					func(x float64) float64 { return math.Copysign(3, x) },
				} {
					want := make([]float64, len(xs2))
					for i, x := range xs2 {
						want[i] = h(x)
					}
					m2 := vec.Map(h, xs2)
					v2 := vec.Vectorize(h)(xs2)
					sum.Checks++
					if !bitsEqual(m2, want) || !bitsEqual(v2, want) {
						sum.viol("Map", c, "Map/Vectorize over %v: %v / %v want %v (f applied to every element)", xs2, m2, v2, want)
					}
				}
			}
			// one vectorized function used repeatedly on inputs of the same length: every result is a value of its own
			g := vec.Vectorize(f)
			r1 := g(got)
			k1 := append([]float64{}, r1...)
			rev := make([]float64, len(got))
			for i := range got {
				rev[i] = got[len(got)-1-i] + 1
			}
			r2 := g(rev)
			r3 := g(r1) // a result fed back in
			for i := range got {
				if r1[i] != k1[i] || r2[i] != f(rev[i]) || r3[i] != f(k1[i]) {
					sum.viol("Vectorize-reuse", c, "a second call of the same vectorized function disturbed an earlier result (element %d: %v, was %v; second result %v want %v)", i, r1[i], k1[i], r2[i], f(rev[i]))
					break
				}
			}
			ga, okg := guarded(got) // a first argument with spare capacity must not be appended to
			c2 := vec.Concat(ga, m)
			c3 := vec.Concat(ga, got[:1])
			if !okg() || len(c2) != 2*vc.N || !bitsEqual(c2[:vc.N], got) || !bitsEqual(c2[vc.N:], m) || len(c3) != vc.N+1 || c3[vc.N] != got[0] {
				sum.viol("Concat", c, "Concat wrote into or aliased its first argument")
			}
			if one := vec.Concat(ga); len(one) > 0 {
				one[0] += 1
				if !okg() {
					sum.viol("Concat", c, "Concat of a single slice returns that slice itself")
				}
			}
			cc := vec.Concat(got, nil, m, got[:1])
			if len(cc) != 2*vc.N+1 || !bitsEqual(cc[:vc.N], got) || !bitsEqual(cc[vc.N:2*vc.N], m) || cc[2*vc.N] != got[0] {
				sum.viol("Concat", c, "Concat(got, nil, m, got[:1]) = %v", cc)
			}
			if len(vec.Concat()) != 0 {
				sum.viol("Concat", c, "Concat() not empty")
			}
			if !bitsEqual(got, keep) {
				sum.viol("argument-modified", c, "Map/Concat/Sum changed their argument")
			}
		}
	})
	return sum, err
}
