package main

import (
	"encoding/json"
	"fmt"
	"math"
	"math/big"
	"sync"
	"sync/atomic"
)

const eps = 1.0 / (1 << 52)

func rat(p, q int64) *big.Rat { return big.NewRat(p, q) }
func ratF(x float64) *big.Rat {
	r := new(big.Rat)
	if r.SetFloat64(x) == nil {
		panic(fmt.Sprintf("ratF(%v)", x))
	}
	return r
}
func rf(r *big.Rat) float64 { f, _ := r.Float64(); return f }

// closeRat reports |got - want| <= atol + rtol*|want| decided exactly.
func closeRat(got float64, want *big.Rat, atol, rtol float64) bool {
	if math.IsNaN(got) || math.IsInf(got, 0) {
		return false
	}
	d := new(big.Rat).Sub(ratF(got), want)
	d.Abs(d)
	tol := new(big.Rat).Abs(want)
	tol.Mul(tol, ratF(rtol))
	tol.Add(tol, ratF(atol))
	return d.Cmp(tol) <= 0
}

// closeF is the float version for descriptor-evaluated expectations.
func closeF(got, want, atol, rtol float64) bool {
	if math.IsNaN(want) {
		return math.IsNaN(got)
	}
	if math.IsInf(want, 0) {
		return got == want
	}
	if math.IsNaN(got) || math.IsInf(got, 0) {
		return false
	}
	return math.Abs(got-want) <= atol+rtol*math.Abs(want)
}

// Dy is the exact dyadic image of a float64 as logged in traces: value = S * M * 2^E,
// M as little-endian base-10^4 limbs (the natural-number encoding of spec/lib/BigInt.tla).
type Dy struct {
	S int   `json:"s"`
	M []int `json:"m"`
	E int   `json:"e"`
}

func limbs(n *big.Int) []int {
	out := []int{}
	x := new(big.Int).Set(n)
	b := big.NewInt(10000)
	r := new(big.Int)
	for x.Sign() > 0 {
		x.QuoRem(x, b, r)
		out = append(out, int(r.Int64()))
	}
	return out
}
func fromLimbs(l []int) *big.Int {
	x := new(big.Int)
	b := big.NewInt(10000)
	for i := len(l) - 1; i >= 0; i-- {
		x.Mul(x, b)
		x.Add(x, big.NewInt(int64(l[i])))
	}
	return x
}

// dy encodes a finite float exactly.  The exponent is kept >= -1100 (always true for float64).
func dy(x float64) Dy {
	if x == 0 {
		return Dy{0, []int{}, 0}
	}
	if math.IsNaN(x) || math.IsInf(x, 0) {
		panic("dy of non-finite")
	}
	s := 1
	if x < 0 {
		s, x = -1, -x
	}
	fr, e := math.Frexp(x) // x = fr * 2^e, fr in [0.5,1)
	m := uint64(fr * (1 << 53))
	e -= 53
	for m&1 == 0 {
		m >>= 1
		e++
	}
	return Dy{s, limbs(new(big.Int).SetUint64(m)), e}
}

// fcls classifies a float for trace logging: "fin", "nan", "+inf", "-inf".
func fcls(x float64) string {
	switch {
	case math.IsNaN(x):
		return "nan"
	case math.IsInf(x, 1):
		return "+inf"
	case math.IsInf(x, -1):
		return "-inf"
	}
	return "fin"
}

// Signed big integer as emitted by the specs: {"s":-1|0|1,"m":[limbs]}
type SBig struct {
	S int   `json:"s"`
	M []int `json:"m"`
}

func (b SBig) Int() *big.Int {
	x := fromLimbs(b.M)
	if b.S < 0 {
		x.Neg(x)
	}
	return x
}

// RatJ is a rational emitted by a spec, either small ints {"p":..,"q":..}/[p,q] or big.
type RatJ struct{ R *big.Rat }

func (r *RatJ) UnmarshalJSON(b []byte) error {
	var arr []int64
	if json.Unmarshal(b, &arr) == nil && len(arr) == 2 {
		if arr[1] == 0 {
			return fmt.Errorf("zero denominator")
		}
		r.R = big.NewRat(arr[0], arr[1])
		return nil
	}
	var o struct {
		N SBig  `json:"n"`
		D []int `json:"d"`
	}
	if err := json.Unmarshal(b, &o); err != nil {
		return err
	}
	d := fromLimbs(o.D)
	if d.Sign() == 0 {
		return fmt.Errorf("zero denominator")
	}
	r.R = new(big.Rat).SetFrac(o.N.Int(), d)
	return nil
}

func bitsEqual(a, b []float64) bool {
	if len(a) != len(b) {
		return false
	}
	for i := range a {
		if math.Float64bits(a[i]) != math.Float64bits(b[i]) {
			return false
		}
	}
	return true
}

// guarded returns a copy of vals that is a sub-slice of a larger array (spare capacity filled with a sentinel) and a
// function reporting whether the values, the length and the spare capacity are all still bit-identical: a callee that
// appends to, sorts or otherwise writes through an argument is caught even when it stays within the capacity.
func guarded(vals []float64) ([]float64, func() bool) {
	const sentinel = -7.777e77
	back := make([]float64, 2*len(vals)+8)
	for i := range back {
		back[i] = sentinel
	}
	copy(back, vals)
	x := back[:len(vals)]
	keep := append([]float64{}, vals...)
	return x, func() bool {
		if !bitsEqual(back[:len(vals)], keep) {
			return false
		}
		for _, v := range back[len(vals):] {
			if v != sentinel {
				return false
			}
		}
		return true
	}
}

// concurrentSame: pure functions return the same value whichever other calls are in flight.  Every call is evaluated once
// sequentially; then G goroutines go through the whole list at the same time, each from its own starting point and with its
// own stride (so that at any moment the goroutines are inside calls with DIFFERENT parameters), and every result must be
// bit-identical to the sequential one.  A value cache shared between calls, a scratch buffer kept in a package variable or a
// memo updated in several steps shows up here and nowhere in a sequential replay.
func concurrentSame(sum *Summary, what string, names []string, calls []func() float64) {
	n := len(calls)
	if n == 0 {
		return
	}
	seq := make([]uint64, n)
	for i, f := range calls {
		seq[i] = math.Float64bits(f())
	}
	const G, rounds = 12, 30
	strides := []int{1, 7, 11, 13, 17, 19, 23, 29, 31, 37, 41, 43}
	type miss struct {
		i   int
		got uint64
	}
	out := make([][]miss, G)
	var wg sync.WaitGroup
	for g := 0; g < G; g++ {
		wg.Add(1)
		go func(g int) {
			defer wg.Done()
			defer func() {
				if r := recover(); r != nil {
					out[g] = append(out[g], miss{-1, 0})
				}
			}()
			st := strides[g%len(strides)]
			for st%n == 0 || gcd(st, n) != 1 {
				st++
			}
			i := (g * n / G) % n
			for k := 0; k < rounds*n; k++ {
				if b := math.Float64bits(calls[i]()); b != seq[i] && len(out[g]) < 3 {
					out[g] = append(out[g], miss{i, b})
				}
				i = (i + st) % n
			}
		}(g)
	}
	wg.Wait()
	sum.Checks += G * rounds * n
	for g := range out {
		for _, m := range out[g] {
			if m.i < 0 {
				sum.viol("concurrent-panic", json.RawMessage(`{"concurrent":"`+what+`"}`), "%s: a call panicked when run concurrently with calls for other parameters", what)
				continue
			}
			sum.viol("concurrent-differs", json.RawMessage(`{"concurrent":"`+what+`"}`), "%s: %s returned %v when other goroutines were calling with other parameters, %v when called alone", what, names[m.i], math.Float64frombits(m.got), math.Float64frombits(seq[m.i]))
		}
	}
}

func gcd(a, b int) int {
	for b != 0 {
		a, b = b, a%b
	}
	return a
}

// concurrentFirst: like concurrentSame, but the CONCURRENT evaluation comes first, in a process that has not yet called the
// library - tables filled on first use, lazily grown memos and one-time initialisation are then built under concurrency, by
// callers with differing parameters.  Afterwards every call is evaluated alone and must give the same bits.  Call it before
// anything else in a replay.
func concurrentFirst(sum *Summary, what string, names []string, calls []func() float64) {
	n := len(calls)
	if n == 0 {
		return
	}
	const G = 12
	got := make([][]uint64, G)
	panicked := make([]bool, G)
	for g := range got {
		got[g] = make([]uint64, n)
	}
	// rounds of G calls released together: in round r goroutine g makes call r*G+g.  The list is ordered so that neighbouring
	// calls have different, growing parameters: whatever is grown on demand is grown by several callers at the same moment.
	for r := 0; r*G < n; r++ {
		var wg sync.WaitGroup
		var ready int32
		for g := 0; g < G && r*G+g < n; g++ {
			wg.Add(1)
			go func(g, k int) {
				defer wg.Done()
				defer func() {
					if rec := recover(); rec != nil {
						panicked[g] = true
					}
				}()
				atomic.AddInt32(&ready, 1)
				want := int32(G)
				if n-r*G < G {
					want = int32(n - r*G)
				}
				for spin := 0; atomic.LoadInt32(&ready) < want && spin < 50_000_000; spin++ { // start together
				}
				got[g][k] = math.Float64bits(calls[k]())
			}(g, r*G+g)
		}
		wg.Wait()
	}
	c := json.RawMessage(`{"concurrent-first":"` + what + `"}`)
	sum.Checks += n
	reported := 0
	for i, f := range calls {
		seq := math.Float64bits(f())
		for g := i % G; g == i%G && reported < 5; g++ {
			if panicked[g] {
				continue
			}
			if got[g][i] != seq {
				sum.viol("concurrent-differs", c, "%s: %s returned %v when it was among the first calls of the process, made concurrently with calls for other parameters; %v when called alone afterwards", what, names[i], math.Float64frombits(got[g][i]), math.Float64frombits(seq))
				reported++
				break
			}
		}
	}
	for g := range panicked {
		if panicked[g] {
			sum.viol("concurrent-panic", c, "%s: a call panicked when it was among the first calls of the process, made concurrently", what)
			break
		}
	}
}
