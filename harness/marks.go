package main

// Family marks (C18): graphalg.NodeMarks against spec/graph/Marks.tla (replay of all short
// Mark/Unmark histories over storage-growth boundary ids) and MarksTrace.tla (recorded histories).

import (
	"encoding/json"
	"io"
	"math/rand"

	"github.com/aclements/go-moremath/graph/graphalg"
)

func init() {
	families["marks"] = &family{replay: marksReplay, record: marksRecord}
}

type marksCase struct {
	H []struct {
		Op string `json:"op"`
		N  int    `json:"n"`
	} `json:"h"`
	Set  []int `json:"set"`
	Walk []int `json:"walk"`
}

func marksReplay(in io.Reader, raw bool, args []string) (*Summary, error) {
	sum := &Summary{Rule: "one case per Mark/Unmark history over the boundary ids {0,31,32,1023,1024,2047,2048,65536}; after the history Test and Next are compared for every boundary id and its neighbours and the Next-walk must enumerate the set; non-trivial = history of >= 2 operations with a non-empty final set; run on NewNodeMarks() and on a zero NodeMarks"}
	probes := []int{-5, -1, 0, 1, 30, 31, 32, 33, 1022, 1023, 1024, 1025, 2046, 2047, 2048, 2049, 4095, 4096, 65535, 65536, 65537, 100000}
	err := forEachCase(in, raw, func(c json.RawMessage) {
		var mc marksCase
		if e := json.Unmarshal(c, &mc); e != nil {
			sum.viol("machinery", c, "bad case: %v", e)
			return
		}
		sum.Cases++
		if len(mc.H) >= 2 && len(mc.Set) > 0 {
			sum.Nontrivial++
			if sum.Nontrivial%997 == 1 {
				sum.sample(c)
			}
		}
		in := map[int]bool{}
		for _, x := range mc.Set {
			in[x] = true
		}
		for variant := 0; variant < 2; variant++ {
			func() {
				defer func() {
					if r := recover(); r != nil {
						sum.viol("panic", c, "variant %d: panic: %v", variant, r)
					}
				}()
				var m *graphalg.NodeMarks
				if variant == 0 {
					m = graphalg.NewNodeMarks()
				} else {
					m = new(graphalg.NodeMarks)
				}
				for _, op := range mc.H {
					if op.Op == "Mark" {
						m.Mark(op.N)
					} else {
						m.Unmark(op.N)
					}
				}
				sum.Checks++
				for _, p := range probes {
					if got := m.Test(p); got != in[p] {
						sum.viol("Test", c, "variant %d: Test(%d)=%v want %v", variant, p, got, in[p])
					}
					want := -1
					for _, x := range mc.Set { // ascending not guaranteed in JSON of a set
						if x > p && (want == -1 || x < want) {
							want = x
						}
					}
					if got := m.Next(p); got != want {
						sum.viol("Next", c, "variant %d: Next(%d)=%d want %d", variant, p, got, want)
					}
				}
				var walk []int
				for i, k := m.Next(-1), 0; i >= 0 && k < 100; i, k = m.Next(i), k+1 {
					walk = append(walk, i)
				}
				if !intsEq(walk, mc.Walk) {
					sum.viol("Next-walk", c, "variant %d: walk %v want %v", variant, walk, mc.Walk)
				}
			}()
		}
	})
	return sum, err
}

type marksEvent struct {
	Op   string `json:"op"`
	N    int    `json:"n"`
	R    int    `json:"r"`
	Seed int64  `json:"seed"`
	Idx  int    `json:"idx"`
}

func marksRecord(out io.Writer, args []string) error {
	rf := newRecFlags("marks", 100)
	ops := rf.fs.Int("ops", 150, "operations per history")
	rf.fs.Parse(args)
	enc := json.NewEncoder(out)
	for idx := 0; idx < *rf.n; idx++ {
		if !rf.mine(idx) {
			continue
		}
		rng := rand.New(rand.NewSource(*rf.seed*1000003 + int64(idx)))
		enc.Encode(marksEvent{Op: "Reset", Seed: *rf.seed, Idx: idx})
		var m *graphalg.NodeMarks
		if rng.Intn(3) == 0 {
			m = new(graphalg.NodeMarks)
		} else {
			m = graphalg.NewNodeMarks()
		}
		limit := []int{40, 1100, 2100, 5000, 70000, 100000}[rng.Intn(6)]
		hot := []int{0, 31, 32, 63, 64, 1023, 1024, 1025, 2047, 2048, 4095, 4096, 65535, 65536, 99999}
		pick := func() int {
			if rng.Intn(3) == 0 {
				h := hot[rng.Intn(len(hot))]
				if h <= limit {
					return h
				}
			}
			return rng.Intn(limit + 1)
		}
		var panicked any
		func() {
			defer func() { panicked = recover() }()
			for k := 0; k < *ops; k++ {
				ev := marksEvent{Seed: *rf.seed, Idx: idx}
				switch r := rng.Intn(10); {
				case r < 4:
					ev.Op, ev.N = "Mark", pick()
					m.Mark(ev.N)
				case r < 6:
					ev.Op, ev.N = "Unmark", pick()
					m.Unmark(ev.N)
				case r < 8:
					ev.Op, ev.N = "Test", pick()
					if rng.Intn(8) == 0 {
						ev.N = -1 - rng.Intn(3)
					}
					if m.Test(ev.N) {
						ev.R = 1
					}
				default:
					ev.Op, ev.N = "Next", pick()-1
					ev.R = m.Next(ev.N)
				}
				enc.Encode(ev)
			}
		}()
		if panicked != nil {
			// a panic of the real object is logged as an event no action of the trace spec explains
			enc.Encode(marksEvent{Op: "Panic", Seed: *rf.seed, Idx: idx})
		}
	}
	return nil
}
