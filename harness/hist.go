package main

// Family hist (C14): stats.LinearHist, stats.LogHist, HistogramQuantile, HistogramIQR against
// spec/hist/Hist.tla.

import (
	"bytes"
	"encoding/json"
	"io"
	"math"
	"math/big"
	"math/rand"
	"sort"

	"github.com/aclements/go-moremath/stats"
)

func init() {
	families["hist"] = &family{replay: histReplay, record: histRecord}
}

type histEvShape struct {
	Kind  string `json:"kind"`
	Min   int64  `json:"min"`
	Max   int64  `json:"max"`
	NBins int    `json:"nbins"`
	Unit  int64  `json:"unit"`
	B     int    `json:"b"`
	M     int    `json:"m"`
}
type histEvent struct {
	Op       string      `json:"op"`
	Shape    histEvShape `json:"shape"`
	X        int64       `json:"x"`
	Under    uint        `json:"under"`
	Bins     []uint      `json:"bins"`
	Over     uint        `json:"over"`
	A        int         `json:"a"`
	R        fdy         `json:"r"`
	Panicked int         `json:"panicked"`
	Seed     int64       `json:"seed"`
	Idx      int         `json:"idx"`
}

func histRecord(out io.Writer, args []string) error {
	rf := newRecFlags("hist", 60)
	adds := rf.fs.Int("adds", 120, "values added per history")
	rf.fs.Parse(args)
	enc := json.NewEncoder(out)
	z := mkfdy(0)
	for idx := 0; idx < *rf.n; idx++ {
		if !rf.mine(idx) {
			continue
		}
		rng := rand.New(rand.NewSource(*rf.seed*1000003 + int64(idx)))
		enc.Encode(histEvent{Op: "Reset", Bins: []uint{}, R: z, Seed: *rf.seed, Idx: idx})
		var h stats.Histogram
		var sh histEvShape
		var val func(x int64) float64
		var draw func() int64
		if rng.Intn(2) == 0 {
			unit := []int64{1, 4, 8, 10}[rng.Intn(4)]
			nb := 1 + rng.Intn(50)
			mn := int64(rng.Intn(400)) - 200
			width := int64(1 + rng.Intn(600))
			if rng.Intn(3) == 0 {
				width = int64(nb) * int64(1+rng.Intn(6)) // integral bin width in lattice units
			}
			sh = histEvShape{Kind: "lin", Min: mn, Max: mn + width, NBins: nb, Unit: unit}
			h = stats.NewLinearHist(float64(sh.Min)/float64(unit), float64(sh.Max)/float64(unit), nb)
			val = func(x int64) float64 { return float64(x) / float64(unit) }
			draw = func() int64 {
				switch rng.Intn(6) {
				case 0: // within one bin width below the first edge
					return sh.Min - 1 - rng.Int63n(width/int64(nb)+1)
				case 1:
					return sh.Min + rng.Int63n(3) - 1
				case 2:
					return sh.Max + rng.Int63n(3) - 1
				case 3:
					return sh.Min - width + rng.Int63n(3*width)
				default:
					return sh.Min + rng.Int63n(width+1)
				}
			}
		} else {
			b := 2 + rng.Intn(9)
			m := 1 + rng.Intn(3)
			if b > 6 && m > 2 {
				m = 2
			}
			nb := 1 + rng.Intn(3*m+2)
			sh = histEvShape{Kind: "log", B: b, M: m, NBins: nb}
			h = stats.NewLogHist(b, float64(m), math.Pow(float64(b), (float64(nb)-0.5)/float64(m)))
			val = func(x int64) float64 {
				if x == 0 {
					return 0.5
				}
				return float64(x)
			}
			top := int64(math.Min(150, math.Pow(float64(b), float64(nb)/float64(m))*2+3))
			draw = func() int64 {
				v := rng.Int63n(top + 1)
				if rng.Intn(8) == 0 {
					return -v // negative values lie below the range of a logarithmic histogram
				}
				return v
			}
		}
		if _, bins, _ := h.Counts(); len(bins) != sh.NBins {
			// the harness asked for nbins bins; a different number is logged and will not match New
			sh.NBins = len(bins)
		}
		u, b, o := counters(h)
		enc.Encode(histEvent{Op: "New", Shape: sh, Under: u, Bins: b, Over: o, R: z, Seed: *rf.seed, Idx: idx})
		n := 1 + rng.Intn(*adds)
		for k := 0; k < n; k++ {
			x := draw()
			h.Add(val(x))
			u, b, o := counters(h)
			enc.Encode(histEvent{Op: "Add", X: x, Under: u, Bins: b, Over: o, R: z, Seed: *rf.seed, Idx: idx})
			if rng.Intn(8) == 0 || k == n-1 {
				// a few quantile queries at increasing levels
				as := []int{0, 1024, rng.Intn(1025), rng.Intn(1025), 256, 512, 768}
				sort.Ints(as)
				for _, a := range as {
					ev := histEvent{Op: "Quantile", A: a, Bins: []uint{}, Seed: *rf.seed, Idx: idx}
					func() {
						defer func() {
							if r := recover(); r != nil {
								ev.Panicked = 1
								ev.R = z
							}
						}()
						ev.R = mkfdy(stats.HistogramQuantile(h, float64(a)/1024))
					}()
					enc.Encode(ev)
				}
			}
		}
	}
	return nil
}

type histShape struct {
	Kind  string `json:"kind"`
	Min   int64  `json:"min"`
	Max   int64  `json:"max"`
	NBins int    `json:"nbins"`
	Unit  int64  `json:"unit"`
	B     int    `json:"b"`
	M     int    `json:"m"`
}
type histAlt struct {
	NaN bool     `json:"nan"`
	Lo  [2]int64 `json:"lo"`
	Hi  [2]int64 `json:"hi"`
}
type histCase struct {
	Shape histShape   `json:"shape"`
	Adds  []int64     `json:"adds"`
	Under uint        `json:"under"`
	Bins  []uint      `json:"bins"`
	Over  uint        `json:"over"`
	Edge  []bool      `json:"edge"`
	Q     [][]histAlt `json:"q"`
}

// userHist is a user-defined Histogram: given counters, identity bin coordinates.
type userHist struct {
	under, over uint
	bins        []uint
}

func (u *userHist) Add(float64)                    {}
func (u *userHist) Counts() (uint, []uint, uint)   { return u.under, u.bins, u.over }
func (u *userHist) BinToValue(bin float64) float64 { return bin }

func isPow2(x *big.Int) bool {
	if x.Sign() <= 0 {
		return false
	}
	y := new(big.Int).Sub(x, big.NewInt(1))
	return y.And(y, x).Sign() == 0
}

// nearEdge decodes the specification's value codes 100000 + 10 j + side (side 1: just below bin edge j, 2: just above).
// farValue decodes the value codes 200001..200004: +1e300, +Inf, -1e300, -Inf.
func farValue(x int64) (float64, bool) {
	switch x {
	case 200001:
		return 1e300, true
	case 200002:
		return math.Inf(1), true
	case 200003:
		return -1e300, true
	case 200004:
		return math.Inf(-1), true
	}
	return 0, false
}

func nearEdge(x int64) (j int64, side float64, ok bool) {
	if x < 100000 || x >= 200000 {
		return 0, 0, false
	}
	j, s := (x-100000)/10, (x-100000)%10
	if s == 1 {
		return j, -1, true
	}
	return j, 1, true
}

func histReplay(in io.Reader, raw bool, args []string) (*Summary, error) {
	sum := &Summary{Rule: "one case per (shape, multiset of added lattice values) emitted by TLC with the expected counters and the admissible set of every quantile level k/16; values are added one at a time and after every Add exactly the specified counter must have moved; non-trivial = at least 2 values of which at least one lands in a bin; quantiles are also asked of a user-defined Histogram carrying the same counters"}
	var handle func(c json.RawMessage, huge bool)
	handle = func(c json.RawMessage, huge bool) {
		var hc histCase
		if e := json.Unmarshal(c, &hc); e != nil || hc.Shape.NBins == 0 {
			sum.viol("machinery", c, "bad case: %v", e)
			return
		}
		sum.Cases++
		inb := uint(0)
		for _, b := range hc.Bins {
			inb += b
		}
		if len(hc.Adds) >= 2 && inb >= 1 {
			sum.Nontrivial++
			if sum.Nontrivial%701 == 1 {
				sum.sample(c)
			}
		}
		defer func() {
			if r := recover(); r != nil {
				sum.viol("panic", c, "panic: %v", r)
			}
		}()
		sh := hc.Shape
		var h stats.Histogram
		var val func(x int64) float64
		var b2v func(t *big.Rat) float64 // bin coordinate -> value (reference)
		exactEdges := false
		scale := 1.0
		if sh.Kind == "lin" {
			mn, mx := float64(sh.Min)/float64(sh.Unit), float64(sh.Max)/float64(sh.Unit)
			// "any min < max": the same shape also stretched by a power of two (exactly) until its larger end is 2^1022 -
			// a legal range whose span is finite but within a factor nbins of the largest float
			S := 1.0
			if huge {
				S = math.Ldexp(1, 1022-int(math.Ceil(math.Log2(math.Max(math.Abs(mn), math.Abs(mx))))))
				mn, mx = mn*S, mx*S
			}
			h = stats.NewLinearHist(mn, mx, sh.NBins)
			val = func(x int64) float64 {
				if v, ok := farValue(x); ok {
					if huge && !math.IsInf(v, 0) {
						return math.Copysign(math.MaxFloat64, v)
					}
					return v
				}
				if j, side, ok := nearEdge(x); ok { // just below / above bin edge j: 1e-10 of a bin width away
					bw := mx/float64(sh.NBins) - mn/float64(sh.NBins)
					return mn + (float64(j)+side*1e-10)*bw
				}
				return float64(x) / float64(sh.Unit) * S
			}
			w := big.NewRat(sh.Max-sh.Min, int64(sh.NBins)*sh.Unit)
			b2v = func(t *big.Rat) float64 {
				return rf(new(big.Rat).Add(big.NewRat(sh.Min, sh.Unit), new(big.Rat).Mul(t, w))) * S
			}
			exactEdges = isPow2(w.Num()) && isPow2(w.Denom()) && isPow2(big.NewInt(sh.Unit))
			scale = mx - mn
		} else {
			mx := math.Pow(float64(sh.B), (float64(sh.NBins)-0.5)/float64(sh.M))
			h = stats.NewLogHist(sh.B, float64(sh.M), mx)
			val = func(x int64) float64 {
				if v, ok := farValue(x); ok {
					return v
				}
				if j, side, ok := nearEdge(x); ok { // edge b^(j/m) times (1 -+ 1e-10): clearly off the edge, far inside rounding reach of nothing
					return math.Pow(float64(sh.B), float64(j)/float64(sh.M)) * (1 + side*1e-10)
				}
				if x == 0 {
					return 0.5
				}
				return float64(x)
			}
			b2v = func(t *big.Rat) float64 { return math.Pow(float64(sh.B), rf(t)/float64(sh.M)) }
		}
		// "BinToValue is increasing" through the finest lens: at neighbouring floats of the bin coordinate the value never
		// steps back (linear histograms: one multiplication or division and one addition, both monotone)
		if sh.Kind == "lin" && !huge {
			for k := 0; k < 40; k++ {
				t := float64(sh.NBins) * float64((k*7919+int(sh.Min&1023)*31)%1000) / 1000
				t2 := math.Nextafter(t, math.Inf(1))
				sum.Checks++
				if a, b := h.BinToValue(t), h.BinToValue(t2); b < a {
					sum.viol("BinToValue-monotone", c, "BinToValue(%.17g)=%.17g > BinToValue(%.17g)=%.17g", t, a, t2, b)
					break
				}
			}
		}
		if _, bins, _ := h.Counts(); len(bins) != sh.NBins {
			sum.viol("shape", c, "histogram has %d bins, want %d", len(bins), sh.NBins)
			return
		}
		// spec counter of a value: recompute by replaying the spec's final counters is not possible per add,
		// so derive it from the difference the spec would make: the case for the prefix is a case of its own;
		// here we check conservation per Add and the final counters.
		deviated := false
		prevU, prevB, prevO := counters(h)
		for i, x := range hc.Adds {
			h.Add(val(x))
			u, b, o := counters(h)
			moved := int(u-prevU) + int(o-prevO)
			for k := range b {
				moved += int(b[k] - prevB[k])
				if b[k] < prevB[k] {
					moved = -99
				}
			}
			sum.Checks++
			if moved != 1 || u < prevU || o < prevO {
				sum.viol("Add-conservation", c, "Add #%d (%v) moved %d counters: %v %v %v -> %v %v %v", i, val(x), moved, prevU, prevB, prevO, u, b, o)
			}
			prevU, prevB, prevO = u, b, o
		}
		u, b, o := counters(h)
		if u != hc.Under || o != hc.Over || !uintsEq(b, hc.Bins) {
			// allowed only if values lying exactly on an inexact float edge fell one counter lower
			ambiguous := 0
			for i, e := range hc.Edge {
				if e && !exactEdges && !(sh.Kind == "log" && hc.Adds[i] == 1) && !(sh.Kind == "lin" && hc.Adds[i] == sh.Min) {
					ambiguous++
				}
			}
			if ambiguous == 0 || !withinEdgeMoves(hc, u, b, o, ambiguous) {
				sum.viol("Add-bin", c, "counters %d %v %d want %d %v %d (edge-ambiguous adds: %d)", u, b, o, hc.Under, hc.Bins, hc.Over, ambiguous)
			}
			deviated = true
		}
		// the floats next to the two ends of the range, on a fresh histogram of the same shape: "values within rounding
		// distance of an edge may fall on either side" - but exactly one counter moves, and it is one of the two adjacent ones
		func() {
			var fresh stats.Histogram
			var lo, hi float64
			if sh.Kind == "lin" {
				lo, hi = float64(sh.Min)/float64(sh.Unit), float64(sh.Max)/float64(sh.Unit)
				fresh = stats.NewLinearHist(lo, hi, sh.NBins)
			} else {
				lo, hi = 1, math.Pow(float64(sh.B), float64(sh.NBins)/float64(sh.M))
				fresh = stats.NewLogHist(sh.B, float64(sh.M), math.Pow(float64(sh.B), (float64(sh.NBins)-0.5)/float64(sh.M)))
			}
			probe := func(x float64, okUnder, okFirst, okLast, okOver bool) {
				defer func() {
					if r := recover(); r != nil {
						sum.viol("Add-panic", c, "Add(%v) next to the end of the range panics: %v", x, r)
					}
				}()
				u0, b0, o0 := fresh.Counts()
				b0 = append([]uint{}, b0...)
				fresh.Add(x)
				u1, b1, o1 := fresh.Counts()
				du, do := int(u1-u0), int(o1-o0)
				dFirst, dLast, dOther := int(b1[0]-b0[0]), int(b1[len(b1)-1]-b0[len(b0)-1]), 0
				for i := 1; i+1 < len(b1); i++ {
					dOther += int(b1[i] - b0[i])
				}
				if len(b1) == 1 {
					dLast = 0 // the only bin is counted as "first"
				}
				total := du + do + dFirst + dLast + dOther
				sum.Checks++
				if total != 1 || dOther != 0 || (du == 1 && !okUnder) || (dFirst == 1 && !okFirst && !(len(b1) == 1 && okLast)) || (dLast == 1 && !okLast) || (do == 1 && !okOver) {
					sum.viol("Add-bin", c, "Add(%v) next to the end of the range moved counters by under %+d first %+d last %+d over %+d others %+d", x, du, dFirst, dLast, do, dOther)
				}
			}
			probe(math.Nextafter(hi, math.Inf(-1)), false, false, true, true)
			probe(math.Nextafter(hi, math.Inf(1)), false, false, true, true)
			probe(math.Nextafter(lo, math.Inf(-1)), true, true, false, false)
			probe(math.Nextafter(lo, math.Inf(1)), true, true, false, false)
		}()
		// BinToValue: lower edges, interpolation, monotone
		prev := math.Inf(-1)
		for _, t := range []*big.Rat{big.NewRat(0, 1), big.NewRat(1, 2), big.NewRat(1, 1), big.NewRat(5, 4), big.NewRat(int64(sh.NBins), 1)} {
			if rf(t) > float64(sh.NBins) || (rf(t) == float64(sh.NBins) && t.IsInt() && t.Num().Int64() == 1 && sh.NBins == 1 && prev == h.BinToValue(1)) {
				continue
			}
			got, want := h.BinToValue(rf(t)), b2v(t)
			sum.Checks++
			if !closeF(got, want, 1e-9*scale, 1e-9) {
				sum.viol("BinToValue", c, "BinToValue(%v)=%v want %v", rf(t), got, want)
			}
			if !(got > prev) && rf(t) > 0 {
				sum.viol("BinToValue-monotone", c, "BinToValue(%v)=%v not above %v", rf(t), got, prev)
			}
			if got > prev {
				prev = got
			}
		}
		if deviated {
			return
		}
		// quantiles
		for pass := 0; pass < 2; pass++ {
			var hh stats.Histogram = h
			conv := b2v
			tolA, tolR := 1e-9*scale, 1e-9
			if pass == 1 {
				hh = &userHist{hc.Under, hc.Over, append([]uint{}, hc.Bins...)}
				conv = func(t *big.Rat) float64 { return rf(t) }
				tolA, tolR = 1e-12*float64(sh.NBins), 0
			}
			last := math.Inf(-1)
			res := make([]float64, 17)
			convOK := [2]bool{true, true} // does the 1-based / 0-based rank reading explain every level so far?
			for a := 0; a <= 16; a++ {
				q := float64(a) / 16
				r := stats.HistogramQuantile(hh, q)
				res[a] = r
				sum.Checks++
				ok := false
				for ai, alt := range hc.Q[a] {
					this := false
					if alt.NaN {
						this = math.IsNaN(r)
					} else {
						lo, hi := conv(big.NewRat(alt.Lo[0], alt.Lo[1])), conv(big.NewRat(alt.Hi[0], alt.Hi[1]))
						this = !math.IsNaN(r) && r >= lo-tolA-tolR*math.Abs(lo) && r <= hi+tolA+tolR*math.Abs(hi)
					}
					ok = ok || this
					if ai < 2 && !this {
						convOK[ai] = false
					}
				}
				if !ok {
					sum.viol("HistogramQuantile", c, "pass %d q=%v: got %v, admissible %+v (bin coordinates)", pass, q, r, hc.Q[a])
				} else if !convOK[0] && !convOK[1] {
					sum.viol("HistogramQuantile-convention", c, "pass %d: up to q=%v the results %v follow neither the 1-based nor the 0-based rank reading consistently", pass, q, res[:a+1])
					convOK = [2]bool{true, true}
				}
				if !math.IsNaN(r) {
					if r < last-1e-12*math.Max(scale, math.Abs(last)) {
						sum.viol("HistogramQuantile-monotone", c, "pass %d q=%v: %v below previous %v", pass, q, r, last)
					}
					last = r
				}
			}
			iqr := stats.HistogramIQR(hh)
			want := res[12] - res[4]
			if !(math.IsNaN(iqr) && math.IsNaN(want)) && iqr != want {
				sum.viol("HistogramIQR", c, "pass %d: IQR=%v want Q(.75)-Q(.25)=%v", pass, iqr, want)
			}
		}
	}
	nLin := 0
	err := forEachCase(in, raw, func(c json.RawMessage) {
		handle(c, false)
		if bytes.Contains(c, []byte(`"kind":"lin"`)) || bytes.Contains(c, []byte(`"kind": "lin"`)) {
			if nLin++; nLin%4 == 0 {
				handle(c, true)
			}
		}
	})
	return sum, err
}

func counters(h stats.Histogram) (uint, []uint, uint) {
	u, b, o := h.Counts()
	return u, append([]uint{}, b...), o
}
func uintsEq(a, b []uint) bool {
	if len(a) != len(b) {
		return false
	}
	for i := range a {
		if a[i] != b[i] {
			return false
		}
	}
	return true
}

// withinEdgeMoves: the observed counters equal the expected ones after moving at most k samples one counter down.
func withinEdgeMoves(hc histCase, u uint, b []uint, o uint, k int) bool {
	exp := append(append([]int{int(hc.Under)}, uintsToInts(hc.Bins)...), int(hc.Over))
	got := append(append([]int{int(u)}, uintsToInts(b)...), int(o))
	// moving a sample from counter i to i-1: suffix sums of (got-exp) must be in [-k,0] and total 0
	moves, suffix := 0, 0
	for i := len(exp) - 1; i >= 0; i-- {
		suffix += got[i] - exp[i]
		if suffix > 0 || -suffix > k {
			return false
		}
		if i > 0 {
			moves += -suffix
		}
	}
	return suffix == 0 && moves <= k
}
func uintsToInts(x []uint) []int {
	o := make([]int, len(x))
	for i, v := range x {
		o[i] = int(v)
	}
	return o
}
