package main

// Family ttest (C04): stats t-tests and MeanCI against spec/ttest/TTest.tla.

import (
	"encoding/json"
	"errors"
	"io"
	"math"
	"math/big"
	"math/rand"

	"github.com/aclements/go-moremath/mathx"
	"github.com/aclements/go-moremath/stats"
	"gonum.org/v1/gonum/mathext"
)

func init() {
	families["ttest"] = &family{replay: ttestReplay}
}

type ttRes struct {
	Err  string   `json:"err"`
	Sign int      `json:"sign"`
	T2   [2]int64 `json:"t2"`
	DoF  [2]int64 `json:"dof"`
}
type ttMu struct {
	Mu [2]int64 `json:"mu"`
	R  ttRes    `json:"r"`
}
type ttCase struct {
	X1     []int64  `json:"x1"`
	X2     []int64  `json:"x2"`
	Pooled ttRes    `json:"pooled"`
	Welch  ttRes    `json:"welch"`
	Paired []ttMu   `json:"paired"`
	One    []ttMu   `json:"one"`
	Mean1  [2]int64 `json:"mean1"`
	Var1   [2]int64 `json:"var1"`
}

// tcdf: Student-t CDF through gonum's regularized incomplete beta (independent of mathx).
func tcdf(nu, t float64) float64 {
	if t == 0 {
		return 0.5
	}
	x := nu / (nu + t*t)
	tail := 0.5 * mathext.RegIncBeta(nu/2, 0.5, x)
	if t > 0 {
		return 1 - tail
	}
	return tail
}

var ttAlts = []stats.LocationHypothesis{stats.LocationLess, stats.LocationDiffers, stats.LocationGreater}

func ttestReplay(in io.Reader, raw bool, args []string) (*Summary, error) {
	sum := &Summary{Rule: "one case per pair of integer samples (x1 a bag, x2 a sequence, sizes 0..MaxLen) emitted by TLC with sign, exact T^2 and exact degrees of freedom (or the error) of the pooled, Welch, paired and one-sample tests for three values of mu0; each case runs under 4 affine value maps (|x| up to 1e6, relative spread down to 1e-6) with Sample and slice arguments, all three alternatives and the swapped call; non-trivial = both samples have at least 2 values and no error"}
	rng := rand.New(rand.NewSource(baseSeed))
	worst := map[string]float64{}
	err := forEachCase(in, raw, func(c json.RawMessage) {
		var tc ttCase
		if e := json.Unmarshal(c, &tc); e != nil {
			sum.viol("machinery", c, "bad case: %v", e)
			return
		}
		sum.Cases++
		if len(tc.X1) >= 2 && len(tc.X2) >= 2 && tc.Pooled.Err == "none" {
			sum.Nontrivial++
			if sum.Nontrivial%401 == 1 {
				sum.sample(c)
			}
		}
		defer func() {
			if r := recover(); r != nil {
				sum.viol("panic", c, "panic: %v", r)
			}
		}()
		maps := []struct{ s, o float64 }{{1, 0}, {0.125, 3}, {1, 1e6}, {4096, -1e6}}
		for mi, m := range maps {
			mk := func(x []int64) []float64 {
				out := make([]float64, len(x))
				for i, v := range x {
					out[i] = m.s*float64(v) + m.o
				}
				return out
			}
			a, okA := guarded(mk(tc.X1))
			b, okB := guarded(mk(tc.X2))
			maxabs := 1e-300
			for _, v := range append(append([]float64{}, a...), b...) {
				maxabs = math.Max(maxabs, math.Abs(v))
			}
			kappa := math.Max(1, maxabs/m.s) // spread of the integer data is O(1) * s
			nn := float64(len(a) + len(b) + 2)
			rtolT := math.Max(1e-9, 4096*nn*eps*kappa)
			check := func(what string, want ttRes, n1, n2 int, mu0 float64, call func(alt stats.LocationHypothesis) (*stats.TTestResult, error), swapped func(alt stats.LocationHypothesis) (*stats.TTestResult, error)) {
				for _, alt := range ttAlts {
					sum.Checks++
					res, err := call(alt)
					switch want.Err {
					case "unspecified":
						return
					case "size", "zerovar", "mismatch":
						w := map[string]error{"size": stats.ErrSampleSize, "zerovar": stats.ErrZeroVariance, "mismatch": stats.ErrMismatchedSamples}[want.Err]
						if res != nil || !errors.Is(err, w) {
							sum.viol(what+"-error", c, "map %d alt %v: got (%v, %v) want error %v", mi, alt, res, err, w)
						}
						continue
					}
					if err != nil || res == nil {
						sum.viol(what+"-error", c, "map %d alt %v: unexpected error %v", mi, alt, err)
						continue
					}
					// calls of OTHER features in between, chosen to share one argument with what the test evaluates (the same
					// first beta parameter DoF/2 with another second one): the repeated test gives the same bits
					mathx.BetaInc(0.7, res.DoF/2, 2)
					_ = stats.BinomialDist{N: int(res.DoF)/2 + 1, P: 0.3}.CDF(1)
					if res2, err2 := call(alt); err2 != nil || res2 == nil || math.Float64bits(res2.P) != math.Float64bits(res.P) || math.Float64bits(res2.T) != math.Float64bits(res.T) {
						sum.viol(what+"-history", c, "map %d alt %v: the same call gives P=%v T=%v, and after unrelated BetaInc / BinomialDist calls %+v (%v)", mi, alt, res.P, res.T, res2, err2)
					}
					if res.N1 != n1 || res.N2 != n2 || res.AltHypothesis != alt {
						sum.viol(what+"-N", c, "N1,N2,alt = %d,%d,%v want %d,%d,%v", res.N1, res.N2, res.AltHypothesis, n1, n2, alt)
					}
					wt := float64(want.Sign) * math.Sqrt(float64(want.T2[0])/float64(want.T2[1]))
					wd := float64(want.DoF[0]) / float64(want.DoF[1])
					if !closeF(res.T, wt, rtolT, rtolT) { // absolute part: a mean difference of exactly 0 is computed as O(eps kappa)
						sum.viol(what+"-T", c, "map %d (s=%g,o=%g): T=%.15g want %.15g (rtol %.3g)", mi, m.s, m.o, res.T, wt, rtolT)
					}
					if e := math.Abs(res.T-wt) / (rtolT * math.Max(math.Abs(wt), 1e-300)); e > worst[what+"-T"] && wt != 0 {
						worst[what+"-T"] = e
					}
					if !closeF(res.DoF, wd, 0, rtolT) {
						sum.viol(what+"-DoF", c, "map %d: DoF=%.15g want %.15g", mi, res.DoF, wd)
					}
					// P from the exact statistic through an independent Student-t CDF
					var wp float64
					switch alt {
					case stats.LocationLess:
						wp = tcdf(wd, wt)
					case stats.LocationGreater:
						wp = 1 - tcdf(wd, wt)
					default:
						wp = 2 * (1 - tcdf(wd, math.Abs(wt)))
					}
					ptol := 1e-9 + 4*rtolT*math.Abs(wt) // dP/dt <= 0.4
					if !closeF(res.P, wp, ptol, 0) {
						sum.viol(what+"-P", c, "map %d alt %v: P=%.12g want %.12g (T=%v DoF=%v)", mi, alt, res.P, wp, wt, wd)
					}
					if swapped != nil {
						sw, err2 := swapped(-alt)
						if err2 != nil || sw == nil {
							sum.viol(what+"-swap", c, "swapped call failed: %v", err2)
						} else if !closeF(sw.T, -res.T, 4*rtolT, 64*rtolT) || !closeF(sw.P, res.P, ptol, 0) || !closeF(sw.DoF, res.DoF, 0, rtolT) {
							sum.viol(what+"-swap", c, "map %d alt %v: T=%v P=%v, swapped with alt %v: T=%v P=%v", mi, alt, res.T, res.P, -alt, sw.T, sw.P)
						}
					}
				}
			}
			sa, sb := stats.Sample{Xs: a}, stats.Sample{Xs: b}
			check("TwoSampleTTest", tc.Pooled, len(a), len(b), 0,
				func(alt stats.LocationHypothesis) (*stats.TTestResult, error) {
					return stats.TwoSampleTTest(sa, sb, alt)
				},
				func(alt stats.LocationHypothesis) (*stats.TTestResult, error) {
					return stats.TwoSampleTTest(sb, sa, alt)
				})
			check("TwoSampleWelchTTest", tc.Welch, len(a), len(b), 0,
				func(alt stats.LocationHypothesis) (*stats.TTestResult, error) {
					return stats.TwoSampleWelchTTest(sa, sb, alt)
				},
				func(alt stats.LocationHypothesis) (*stats.TTestResult, error) {
					return stats.TwoSampleWelchTTest(sb, sa, alt)
				})
			// the same samples handed over as *StreamStats (the other implementation of TTestSample in the library; an empty
			// one reports Variance 0, not NaN): same statistics, and the same documented errors
			ssa, ssb := &stats.StreamStats{}, &stats.StreamStats{}
			for _, v := range a {
				ssa.Add(v)
			}
			for _, v := range b {
				ssb.Add(v)
			}
			check("TwoSampleTTest", tc.Pooled, len(a), len(b), 0,
				func(alt stats.LocationHypothesis) (*stats.TTestResult, error) {
					return stats.TwoSampleTTest(ssa, ssb, alt)
				}, nil)
			check("TwoSampleWelchTTest", tc.Welch, len(a), len(b), 0,
				func(alt stats.LocationHypothesis) (*stats.TTestResult, error) {
					return stats.TwoSampleWelchTTest(ssa, sb, alt)
				}, nil)
			for _, om := range tc.One {
				mu0 := m.s*float64(om.Mu[0])/float64(om.Mu[1]) + m.o
				check("OneSampleTTest", om.R, len(a), 0, mu0,
					func(alt stats.LocationHypothesis) (*stats.TTestResult, error) {
						return stats.OneSampleTTest(ssa, mu0, alt)
					}, nil)
			}
			for _, pm := range tc.Paired {
				mu0 := m.s * float64(pm.Mu[0]) / float64(pm.Mu[1]) // differences lose the offset
				perm := rng.Perm(len(a))
				pa, pb := a, b
				if len(a) == len(b) {
					pa, pb = make([]float64, len(a)), make([]float64, len(b))
					for i, j := range perm {
						pa[i], pb[i] = a[j], b[j]
					}
				}
				check("PairedTTest", pm.R, len(a), len(b), mu0,
					func(alt stats.LocationHypothesis) (*stats.TTestResult, error) {
						return stats.PairedTTest(pa, pb, mu0, alt)
					}, nil)
			}
			for _, om := range tc.One {
				mu0 := m.s*float64(om.Mu[0])/float64(om.Mu[1]) + m.o
				check("OneSampleTTest", om.R, len(a), 0, mu0,
					func(alt stats.LocationHypothesis) (*stats.TTestResult, error) {
						return stats.OneSampleTTest(sa, mu0, alt)
					}, nil)
			}
			if !okA() || !okB() {
				sum.viol("argument-modified", c, "a t-test or MeanCI changed its input (or the spare capacity behind it)")
			}
			// MeanCI on x1
			for _, conf := range []float64{-1, 0, 0.5, 0.9, 0.99, 1, 2} {
				sum.Checks++
				mean, lo, hi := stats.MeanCI(a, conf)
				n := len(a)
				if n == 0 {
					if !math.IsNaN(mean) {
						sum.viol("MeanCI", c, "empty input: mean=%v want NaN", mean)
					}
					continue
				}
				wm := new(big.Rat).Add(new(big.Rat).Mul(ratF(m.s), big.NewRat(tc.Mean1[0], tc.Mean1[1])), ratF(m.o))
				if !closeRat(mean, wm, math.Max(1e-12, 1024*float64(n)*eps)*maxabs, 0) {
					sum.viol("MeanCI-mean", c, "map %d: mean=%v want %v", mi, mean, rf(wm))
				}
				switch {
				case conf <= 0:
					if lo != mean || hi != mean {
						sum.viol("MeanCI", c, "confidence %v: interval (%v,%v) should have zero width", conf, lo, hi)
					}
				case conf >= 1 || n <= 1:
					if !math.IsInf(lo, -1) || !math.IsInf(hi, 1) {
						sum.viol("MeanCI", c, "confidence %v n=%d: interval (%v,%v) should be infinite", conf, n, lo, hi)
					}
				default:
					v := m.s * m.s * float64(tc.Var1[0]) / float64(tc.Var1[1])
					w := (hi - lo) / 2
					if math.Abs((hi+lo)/2-mean) > 1e-9*math.Max(w, maxabs*1e-6) {
						sum.viol("MeanCI", c, "interval (%v,%v) not symmetric about the mean %v", lo, hi, mean)
					}
					if v > 0 {
						// probability content of mean +- w under Student-t with n-1 dof must be conf
						tstar := w * math.Sqrt(float64(n)) / math.Sqrt(v)
						content := 2*tcdf(float64(n-1), tstar) - 1
						if math.Abs(content-conf) > 1e-9+4*rtolT {
							sum.viol("MeanCI-content", c, "map %d confidence %v: half-width %v has Student-t content %.12g", mi, conf, w, content)
						}
					} else if w != 0 && !math.IsNaN(w) {
						sum.viol("MeanCI", c, "zero-variance data: half-width %v", w)
					}
				}
			}
		}
		// constant samples of values that are not exactly representable (0.1, 0.3, 123.456...) still have variance exactly
		// 0: the documented zero-variance error must not depend on whether the constant is a "nice" float
		for _, aw := range []struct{ s, o float64 }{{0.1, 0.3}, {1.0 / 3, 123.456}, {1e-7, 0.7}} {
			mk := func(x []int64) []float64 {
				out := make([]float64, len(x))
				for i, v := range x {
					out[i] = aw.s*float64(v) + aw.o
				}
				return out
			}
			a, b := mk(tc.X1), mk(tc.X2)
			sa, sb := stats.Sample{Xs: a}, stats.Sample{Xs: b}
			expect := func(what string, want ttRes, call func() (*stats.TTestResult, error)) {
				if want.Err != "zerovar" {
					return
				}
				sum.Checks++
				if res, err := call(); res != nil || !errors.Is(err, stats.ErrZeroVariance) {
					sum.viol(what+"-error", c, "constant samples of inexact values (x -> %v x + %v): got (%+v, %v) want ErrZeroVariance", aw.s, aw.o, res, err)
				}
			}
			expect("TwoSampleTTest", tc.Pooled, func() (*stats.TTestResult, error) { return stats.TwoSampleTTest(sa, sb, stats.LocationDiffers) })
			expect("TwoSampleWelchTTest", tc.Welch, func() (*stats.TTestResult, error) { return stats.TwoSampleWelchTTest(sa, sb, stats.LocationLess) })
			if len(tc.One) > 0 {
				expect("OneSampleTTest", tc.One[0].R, func() (*stats.TTestResult, error) { return stats.OneSampleTTest(sa, 0.25, stats.LocationGreater) })
			}
			identical := len(a) == len(b)
			for i := range a {
				identical = identical && i < len(b) && a[i] == b[i]
			}
			if len(tc.Paired) > 0 && identical { // (differences of inexact floats are constant for certain only when they are all zero)
				expect("PairedTTest", tc.Paired[0].R, func() (*stats.TTestResult, error) { return stats.PairedTTest(a, b, 0.25, stats.LocationDiffers) })
			}
			if len(a) >= 2 && tc.Var1[0] == 0 {
				sum.Checks++
				if mean, lo, hi := stats.MeanCI(a, 0.9); lo != mean || hi != mean {
					sum.viol("MeanCI", c, "constant sample of %v: interval (%v, %v) around %v should have zero width", a[0], lo, hi, mean)
				}
			}
		}
	})
	sum.note("worst_T_error_over_tolerance", worst)
	return sum, err
}
