package main

// Family sample (C09, C10): stats.Sample, slice statistics against spec/sample/Sample.tla.

import (
	"encoding/json"
	"io"
	"math"
	"math/big"
	"math/rand"
	"sort"
	"unsafe"

	"github.com/aclements/go-moremath/stats"
)

func init() {
	families["sample"] = &family{replay: sampleReplay, record: sampleRecord}
}

type sVal struct {
	NaN bool     `json:"nan"`
	V   [2]int64 `json:"v"`
	Lo  int64    `json:"lo"`
	Hi  int64    `json:"hi"`
}
type sQ struct {
	Q [2]int64 `json:"q"`
	R []sVal   `json:"r"`
}
type sObj struct {
	Xs       []int64  `json:"xs"`
	Ws       []int64  `json:"ws"`
	Weighted bool     `json:"weighted"`
	Sorted   bool     `json:"sorted"`
	Store    int      `json:"store"`
	Mean     sVal     `json:"mean"`
	Var      sVal     `json:"var"`
	Sum      [2]int64 `json:"sum"`
	Weight   [2]int64 `json:"weight"`
	Bounds   sVal     `json:"bounds"`
	Qs       []sQ     `json:"qs"`
}
type sCase struct {
	Init sObj `json:"init"`
	H    []struct {
		Op string `json:"op"`
		I  int    `json:"i"`
	} `json:"h"`
	Objs []sObj `json:"objs"`
}

// affine value maps x -> s*x + o with s > 0, exactly representable
var sampleMaps = []struct{ s, o float64 }{{1, 0}, {0.25, -3}, {8, 1 << 20}, {1, 1e9}}

func sampleReplay(in io.Reader, raw bool, args []string) (*Summary, error) {
	sum := &Summary{Rule: "one case per (initial sample: values, optional integer weights, Sorted flag; history of Sort/Copy operations) emitted by TLC with the exact value of every query on every object of the final heap; after the history all queries (Mean, Variance, StdDev, GeoMean, Sum, Weight, Bounds, Quantile at ~25 levels incl. the R8 break points, IQR) are asked of all objects, each preceded and followed by a snapshot of the object; run under 4 exact affine value maps and a random permutation of the initial data; non-trivial = at least 2 values and (weights or a non-empty history)"}
	rng := rand.New(rand.NewSource(baseSeed))
	err := forEachCase(in, raw, func(c json.RawMessage) {
		var sc sCase
		if e := json.Unmarshal(c, &sc); e != nil || len(sc.Objs) == 0 {
			sum.viol("machinery", c, "bad case: %v", e)
			return
		}
		sum.Cases++
		if len(sc.Init.Xs) >= 2 && (sc.Init.Weighted || len(sc.H) > 0) {
			sum.Nontrivial++
			if sum.Nontrivial%1201 == 1 {
				sum.sample(c)
			}
		}
		for mi, m := range sampleMaps {
			func() {
				defer func() {
					if r := recover(); r != nil {
						sum.viol("panic", c, "map %d: panic: %v", mi, r)
					}
				}()
				sampleRun(sum, c, &sc, m.s, m.o, rng, mi > 0 && !sc.Init.Sorted)
			}()
		}
		func() {
			defer func() {
				if r := recover(); r != nil {
					sum.viol("panic", c, "awkward map: panic: %v", r)
				}
			}()
			sampleAwkward(sum, c, &sc, rng)
			sampleExtremes(sum, c, &sc)
		}()
	})
	return sum, err
}

// sampleAwkward: the order-based clauses of Quantile under monotone, non-affine value maps onto floats whose sums and
// products round (123.456, multiples of 0.1 and 1/3, 1e-7 scale).  The type-8 value is not equivariant under such maps,
// but its bracket is: the quantile lies between the images of the two neighbouring sample values of the exact
// (specification) quantile, equals the image exactly where those coincide (ties, exact hits, weighted samples), stays
// inside [min, max] and is non-decreasing in q - all without any tolerance.
func sampleAwkward(sum *Summary, c json.RawMessage, sc *sCase, rng *rand.Rand) {
	n := len(sc.Init.Xs)
	if n == 0 || len(sc.Objs) == 0 {
		return
	}
	so := sc.Objs[0] // same bag as the initial sample (Sort and Copy preserve it)
	for ai, aw := range []struct{ base, step float64 }{{123.456, 0.1}, {-0.3, 1 / 3.0}, {1e-7, 1.1e-7}} {
		f := func(v int64) float64 { return aw.base + aw.step*float64(v) }
		x := &stats.Sample{Xs: make([]float64, n), Sorted: sc.Init.Sorted}
		if sc.Init.Weighted {
			x.Weights = make([]float64, n)
		}
		idx := rng.Perm(n)
		if sc.Init.Sorted {
			for i := range idx {
				idx[i] = i
			}
		}
		var live []int64
		for k, i := range idx {
			x.Xs[k] = f(sc.Init.Xs[i])
			if sc.Init.Weighted {
				x.Weights[k] = float64(sc.Init.Ws[i])
				if sc.Init.Ws[i] > 0 {
					live = append(live, sc.Init.Xs[i])
				}
			} else {
				live = append(live, sc.Init.Xs[i])
			}
		}
		if len(live) == 0 {
			continue
		}
		// the sample is a window of a larger buffer (as when several samples are cut from one array): what lies behind
		// it belongs to the caller, and no query may write there
		gx, okx := guarded(x.Xs)
		x.Xs = gx
		okw := func() bool { return true }
		if x.Weights != nil {
			var gw []float64
			gw, okw = guarded(x.Weights)
			x.Weights = gw
		}
		defer func(ai int) {
			if !okx() || !okw() {
				sum.viol("Quantile-modifies", c, "awkward map %d: Quantile changed the sample or the spare capacity behind it", ai)
			}
		}(ai)
		type qr struct{ q, r float64 }
		var results []qr
		for _, qq := range so.Qs {
			q := float64(qq.Q[0]) / float64(qq.Q[1])
			got := x.Quantile(q)
			sum.Checks++
			ok := false
			var lo, hi float64
			for _, alt := range qq.R {
				if alt.NaN {
					ok = ok || math.IsNaN(got)
					continue
				}
				v := big.NewRat(alt.V[0], alt.V[1])
				below, above := int64(math.MinInt64), int64(math.MaxInt64)
				for _, s := range live {
					sr := big.NewRat(s, 1)
					if sr.Cmp(v) <= 0 && s > below {
						below = s
					}
					if sr.Cmp(v) >= 0 && s < above {
						above = s
					}
				}
				if below == math.MinInt64 || above == math.MaxInt64 {
					continue
				}
				lo, hi = f(below), f(above)
				if lo <= got && got <= hi {
					ok = true
				}
			}
			if !ok {
				sum.viol("Quantile-bracket", c, "awkward map %d (x -> %v + %v x) weighted=%v: Quantile(%d/%d)=%.17g lies outside the images [%.17g, %.17g] of the neighbouring sample values", ai, aw.base, aw.step, sc.Init.Weighted, qq.Q[0], qq.Q[1], got, lo, hi)
			}
			results = append(results, qr{q, got})
		}
		sort.Slice(results, func(a, b int) bool { return results[a].q < results[b].q })
		for k := 1; k < len(results); k++ {
			if results[k].r < results[k-1].r {
				sum.viol("Quantile-monotone", c, "awkward map %d: Quantile(%v)=%.17g < Quantile(%v)=%.17g", ai, results[k].q, results[k].r, results[k-1].q, results[k-1].r)
			}
		}
	}
}

// sampleExtremes: (1) the data mapped to (x+3)*2^1021 - finite data whose SUM overflows: Mean, Bounds and Quantile still lie in
// [min, max]; (2) weighted data whose zero-weight slots hold huge garbage: "zero-weight values are ignored" whatever they are.
func sampleExtremes(sum *Summary, c json.RawMessage, sc *sCase) {
	n := len(sc.Init.Xs)
	if n == 0 {
		// no values at all (nil, and empty but non-nil with every setting of the flags), and a single infinite value:
		// IQR is the difference of the two quantiles, NaN - NaN and Inf - Inf included
		for _, s := range []stats.Sample{{}, {Xs: []float64{}}, {Xs: make([]float64, 0, 4), Sorted: true}, {Xs: []float64{}, Weights: []float64{}},
			{Xs: []float64{math.Inf(1)}}, {Xs: []float64{math.Inf(-1)}, Sorted: true}} {
			for _, q := range []float64{-1, 0, 0.25, 0.5, 1, 2} {
				sum.Checks++
				g := s.Quantile(q)
				if len(s.Xs) == 0 && !math.IsNaN(g) {
					sum.viol("Quantile-empty", c, "empty sample %+v: Quantile(%v)=%v want NaN", s, q, g)
				} else if len(s.Xs) == 1 && g != s.Xs[0] {
					sum.viol("Quantile-empty", c, "one-value sample %+v: Quantile(%v)=%v", s, q, g)
				}
			}
			if w, g := s.Quantile(0.75)-s.Quantile(0.25), s.IQR(); !(g == w || (math.IsNaN(g) && math.IsNaN(w))) {
				sum.viol("IQR", c, "sample %+v: IQR=%v want Quantile(.75)-Quantile(.25)=%v", s, g, w)
			}
		}
	}
	if n == 0 || len(sc.Objs) == 0 {
		return
	}
	so := sc.Objs[0]
	if !sc.Init.Weighted {
		// x -> (x + 3) * 2^1021: all values positive (differences never overflow), any three of them sum beyond MaxFloat64
		big1 := math.Ldexp(1, 1021)
		x := &stats.Sample{Xs: make([]float64, n), Sorted: sc.Init.Sorted}
		for i, v := range sc.Init.Xs {
			x.Xs[i] = float64(v+3) * big1
		}
		lo, hi := x.Xs[0], x.Xs[0]
		for _, v := range x.Xs {
			lo, hi = math.Min(lo, v), math.Max(hi, v)
		}
		sum.Checks++
		wm := new(big.Rat).Mul(new(big.Rat).Add(big.NewRat(so.Mean.V[0], so.Mean.V[1]), big.NewRat(3, 1)), ratF(big1))
		for _, m := range []float64{x.Mean(), stats.Mean(x.Xs)} {
			if !(m >= lo && m <= hi) || !closeRat(m, wm, 0, 1e-12) {
				sum.viol("Mean-overflow", c, "data mapped to (x+3)*2^1021: Mean=%v, want %v inside [%v, %v]", m, rf(wm), lo, hi)
			}
		}
		if bl, bh := x.Bounds(); bl != lo || bh != hi {
			sum.viol("Bounds", c, "data mapped to (x+3)*2^1021: Bounds=(%v,%v) want (%v,%v)", bl, bh, lo, hi)
		}
		for _, q := range []float64{0, 0.3, 0.5, 0.9, 1} {
			if g := x.Quantile(q); !(g >= lo && g <= hi) {
				sum.viol("Quantile-bounds", c, "data mapped to (x+3)*2^1021: Quantile(%v)=%v outside [%v, %v]", q, g, lo, hi)
			}
		}
		return
	}
	zero := false
	for _, w := range sc.Init.Ws {
		zero = zero || w == 0
	}
	// (3) positive weights of extreme dynamic range (the extremes carry weights far below one ulp of the total, the rest
	// inexact tenths): q >= 1 is still the largest and q <= 0 the smallest value of positive weight, and agrees with Bounds
	mults := []float64{0.1, 1.1, 0.7, 1 / 3.0, 12.3, 0.013, 1e3 / 7}
	for prof := 0; n >= 2 && prof < 6; prof++ {
		// the case's values in the middle, one new smallest and one new largest value around them with the tiny weights
		x := &stats.Sample{Xs: make([]float64, n+2), Weights: make([]float64, n+2), Sorted: sc.Init.Sorted}
		lo, hi := float64(sc.Init.Xs[0]), float64(sc.Init.Xs[0])
		for i, v := range sc.Init.Xs {
			x.Xs[i+1] = float64(v)
			x.Weights[i+1] = mults[(i*3+prof)%len(mults)] * float64(sc.Init.Ws[i]+1) // inexact, of mixed magnitude: sums of them round
			lo, hi = math.Min(lo, float64(v)), math.Max(hi, float64(v))
		}
		lo, hi = lo-1, hi+1
		x.Xs[0], x.Weights[0] = lo, 3e-19
		x.Xs[n+1], x.Weights[n+1] = hi, 1e-18
		sum.Checks++
		bl, bh := x.Bounds()
		for _, q := range []float64{1, 1.5, math.Inf(1)} {
			if g := x.Quantile(q); g != hi || bh != hi {
				sum.viol("Quantile-top", c, "weights %v on %v: Quantile(%v)=%v Bounds max=%v, want the largest value %v (its weight is positive)", x.Weights, x.Xs, q, g, bh, hi)
			}
		}
		for _, q := range []float64{0, -0.5, math.Inf(-1)} {
			if g := x.Quantile(q); g != lo || bl != lo {
				sum.viol("Quantile-bottom", c, "weights %v on %v: Quantile(%v)=%v Bounds min=%v, want the smallest value %v (its weight is positive)", x.Weights, x.Xs, q, g, bl, lo)
			}
		}
	}
	if !zero {
		return
	}
	for gi, garbage := range []float64{1e17, -1e17, 3e300} {
		x := &stats.Sample{Xs: make([]float64, n), Weights: make([]float64, n), Sorted: false}
		ref := &stats.Sample{Xs: make([]float64, n), Weights: make([]float64, n), Sorted: false}
		for i, v := range sc.Init.Xs {
			x.Xs[i], ref.Xs[i] = float64(v), float64(v)
			x.Weights[i], ref.Weights[i] = float64(sc.Init.Ws[i]), float64(sc.Init.Ws[i])
			if sc.Init.Ws[i] == 0 {
				x.Xs[i] = garbage
			}
		}
		sum.Checks++
		same := func(a, b float64) bool {
			return a == b || (math.IsNaN(a) && math.IsNaN(b)) || math.Abs(a-b) <= 1e-12*math.Max(1, math.Abs(b))
		}
		if a, b := x.Mean(), ref.Mean(); !same(a, b) {
			sum.viol("Mean-zero-weight", c, "zero-weight slots holding %v (garbage %d): Mean=%v, with the original values %v", garbage, gi, a, b)
		}
		if a, b := x.Sum(), ref.Sum(); !same(a, b) {
			sum.viol("Sum-zero-weight", c, "zero-weight slots holding %v: Sum=%v, with the original values %v", garbage, a, b)
		}
		al, ah := x.Bounds()
		bl, bh := ref.Bounds()
		if !same(al, bl) || !same(ah, bh) {
			sum.viol("Bounds-zero-weight", c, "zero-weight slots holding %v: Bounds=(%v,%v), with the original values (%v,%v)", garbage, al, ah, bl, bh)
		}
	}
}

func ptr(x []float64) uintptr {
	if len(x) == 0 {
		return 0
	}
	return uintptr(unsafe.Pointer(&x[0]))
}

func sampleRun(sum *Summary, c json.RawMessage, sc *sCase, s, o float64, rng *rand.Rand, permute bool) {
	mapv := func(v int64) float64 { return s*float64(v) + o }
	mapr := func(r *big.Rat) *big.Rat { return new(big.Rat).Add(new(big.Rat).Mul(ratF(s), r), ratF(o)) }
	n := len(sc.Init.Xs)
	idx := rng.Perm(n)
	if !permute {
		for i := range idx {
			idx[i] = i
		}
	}
	first := &stats.Sample{Xs: make([]float64, n), Sorted: sc.Init.Sorted}
	if sc.Init.Weighted {
		first.Weights = make([]float64, n)
	}
	for k, i := range idx {
		first.Xs[k] = mapv(sc.Init.Xs[i])
		if sc.Init.Weighted {
			first.Weights[k] = float64(sc.Init.Ws[i])
		}
	}
	objs := []*stats.Sample{first}
	pairBag := func(x *stats.Sample) map[[2]float64]int {
		b := map[[2]float64]int{}
		for i, v := range x.Xs {
			w := 1.0
			if x.Weights != nil {
				w = x.Weights[i]
			}
			b[[2]float64{v, w}]++
		}
		return b
	}
	eqBag := func(a, b map[[2]float64]int) bool {
		if len(a) != len(b) {
			return false
		}
		for k, v := range a {
			if b[k] != v {
				return false
			}
		}
		return true
	}
	for _, op := range sc.H {
		t := objs[op.I-1]
		switch op.Op {
		case "Sort":
			before := pairBag(t)
			px, pw := ptr(t.Xs), ptr(t.Weights)
			ret := t.Sort()
			sum.Checks++
			if ret != t {
				sum.viol("Sort", c, "Sort does not return its receiver")
			}
			if !sort.Float64sAreSorted(t.Xs) || !t.Sorted {
				sum.viol("Sort", c, "after Sort: Xs=%v Sorted=%v", t.Xs, t.Sorted)
			}
			if !eqBag(before, pairBag(t)) {
				sum.viol("Sort-pairs", c, "Sort changed the bag of (value, weight) pairs: %v %v", t.Xs, t.Weights)
			}
			if ptr(t.Xs) != px || ptr(t.Weights) != pw {
				sum.viol("Sort", c, "Sort moved the sample to new storage")
			}
		case "Copy":
			cp := t.Copy()
			sum.Checks++
			if !bitsEqual(cp.Xs, t.Xs) || !bitsEqual(cp.Weights, t.Weights) || (cp.Weights == nil) != (t.Weights == nil) || cp.Sorted != t.Sorted {
				sum.viol("Copy", c, "Copy differs from the original")
			}
			if len(t.Xs) > 0 && (ptr(cp.Xs) == ptr(t.Xs) || (t.Weights != nil && ptr(cp.Weights) == ptr(t.Weights))) {
				sum.viol("Copy-aliases", c, "Copy shares storage with the original")
			}
			objs = append(objs, cp)
		}
	}
	if len(objs) != len(sc.Objs) {
		sum.viol("machinery", c, "heap size mismatch")
		return
	}
	for i, so := range sc.Objs {
		x := objs[i]
		if x.Sorted != so.Sorted {
			sum.viol("Sorted-flag", c, "object %d: Sorted=%v want %v", i+1, x.Sorted, so.Sorted)
		}
		sx, sw, sf := append([]float64{}, x.Xs...), append([]float64(nil), x.Weights...), x.Sorted
		unchanged := func(what string) {
			if !bitsEqual(x.Xs, sx) || !bitsEqual(x.Weights, sw) || x.Sorted != sf {
				sum.viol("query-modifies", c, "object %d: %s changed the sample: %v -> %v", i+1, what, sx, x.Xs)
				copy(x.Xs, sx)
			}
		}
		nn := float64(len(so.Xs))
		maxabs, spread := 0.0, 0.0
		if !so.Bounds.NaN {
			maxabs = math.Max(math.Abs(mapv(so.Bounds.Lo)), math.Abs(mapv(so.Bounds.Hi)))
			spread = s * float64(so.Bounds.Hi-so.Bounds.Lo)
		}
		tolLoc := math.Max(1e-12, 1024*nn*eps) * math.Max(maxabs, 1e-300) // location-type results
		ckLoc := func(what string, got float64, want sVal) {
			sum.Checks++
			if want.NaN {
				if !math.IsNaN(got) {
					sum.viol(what, c, "object %d map (%g,%g): got %v want NaN", i+1, s, o, got)
				}
				return
			}
			w := mapr(big.NewRat(want.V[0], want.V[1]))
			if !closeRat(got, w, tolLoc, 0) {
				sum.viol(what, c, "object %d map (%g,%g): got %.15g want %.15g", i+1, s, o, got, rf(w))
			}
		}
		ckLoc("Mean", x.Mean(), so.Mean)
		unchanged("Mean")
		// Sum = s*sum(w x) + o*W ; Weight
		wantSum := new(big.Rat).Add(new(big.Rat).Mul(ratF(s), big.NewRat(so.Sum[0], 1)), new(big.Rat).Mul(ratF(o), big.NewRat(so.Weight[0], 1)))
		sum.Checks++
		if got := x.Sum(); !closeRat(got, wantSum, tolLoc*math.Max(1, float64(so.Weight[0])), 0) {
			sum.viol("Sum", c, "object %d map (%g,%g): Sum=%v want %v", i+1, s, o, got, rf(wantSum))
		}
		if got := x.Weight(); got != float64(so.Weight[0]) {
			sum.viol("Weight", c, "object %d: Weight=%v want %d", i+1, got, so.Weight[0])
		}
		lo, hi := x.Bounds()
		if so.Bounds.NaN {
			if !math.IsNaN(lo) || !math.IsNaN(hi) {
				sum.viol("Bounds", c, "object %d: Bounds=(%v,%v) want NaN", i+1, lo, hi)
			}
		} else if lo != mapv(so.Bounds.Lo) || hi != mapv(so.Bounds.Hi) {
			sum.viol("Bounds", c, "object %d map (%g,%g): Bounds=(%v,%v) want (%v,%v)", i+1, s, o, lo, hi, mapv(so.Bounds.Lo), mapv(so.Bounds.Hi))
		}
		unchanged("Sum/Weight/Bounds")
		if !so.Weighted {
			sum.Checks++
			v := x.Variance()
			if so.Var.NaN {
				if !math.IsNaN(v) {
					sum.viol("Variance", c, "object %d: got %v want NaN", i+1, v)
				}
			} else {
				wv := new(big.Rat).Mul(new(big.Rat).Mul(ratF(s), ratF(s)), big.NewRat(so.Var.V[0], so.Var.V[1]))
				kappa := 1.0
				if f := rf(wv); f > 0 {
					kappa = math.Max(1, maxabs/math.Sqrt(f))
				}
				rtol := math.Max(1e-9, 1024*nn*eps*kappa)
				atol := 1024 * nn * eps * eps * maxabs * maxabs
				if !closeRat(v, wv, atol, rtol) {
					sum.viol("Variance", c, "object %d map (%g,%g): Variance=%.15g want %.15g", i+1, s, o, v, rf(wv))
				}
				if sd := x.StdDev(); !closeRat(sd*sd, wv, 4*atol, 2*rtol) {
					sum.viol("StdDev", c, "object %d map (%g,%g): StdDev=%.15g want sqrt(%.15g)", i+1, s, o, sd, rf(wv))
				}
				// slice forms agree with the Sample methods
				if sv := stats.Variance(x.Xs); !closeRat(sv, wv, atol, rtol) {
					sum.viol("Variance-slice", c, "object %d: stats.Variance=%v want %v", i+1, sv, rf(wv))
				}
				if sd := stats.StdDev(x.Xs); !closeRat(sd*sd, wv, 4*atol, 2*rtol) {
					sum.viol("StdDev-slice", c, "object %d: stats.StdDev=%v", i+1, sd)
				}
			}
			ckLoc("Mean-slice", stats.Mean(x.Xs), so.Mean)
			l2, h2 := stats.Bounds(x.Xs)
			if so.Bounds.NaN != math.IsNaN(l2) || (!so.Bounds.NaN && (l2 != lo || h2 != hi)) {
				sum.viol("Bounds-slice", c, "object %d: stats.Bounds=(%v,%v) Sample.Bounds=(%v,%v)", i+1, l2, h2, lo, hi)
			}
			unchanged("Variance/StdDev/slice forms")
		}
		// GeoMean on 2^(x) data: a Sample with values 2^x has geometric mean 2^(weighted mean of x); NaN for
		// unweighted data containing a non-positive value
		if s == 1 && o == 0 {
			g := &stats.Sample{Xs: make([]float64, len(x.Xs)), Weights: x.Weights, Sorted: false}
			for k, v := range x.Xs {
				g.Xs[k] = math.Pow(2, v)
			}
			sum.Checks++
			if got := g.GeoMean(); so.Mean.NaN {
				if !math.IsNaN(got) {
					sum.viol("GeoMean", c, "object %d: GeoMean of empty sample = %v", i+1, got)
				}
			} else if want := math.Pow(2, float64(so.Mean.V[0])/float64(so.Mean.V[1])); !closeF(got, want, 0, 1e-12) {
				sum.viol("GeoMean", c, "object %d: GeoMean(2^xs)=%v want %v", i+1, got, want)
			}
			if so.Weighted && !so.Bounds.NaN && so.Bounds.Lo > 0 {
				// zero-weight values (possibly non-positive) carry no mass: the geometric mean of the mass-carrying values
				num, den := 0.0, 0.0
				for k, v := range x.Xs {
					if x.Weights[k] > 0 {
						num += x.Weights[k] * math.Log(v)
						den += x.Weights[k]
					}
				}
				if got, want := x.GeoMean(), math.Exp(num/den); !closeF(got, want, 0, 1e-12) {
					sum.viol("GeoMean", c, "object %d (weighted, sorted=%v): GeoMean=%v want %v", i+1, x.Sorted, got, want)
				}
			}
			if !so.Weighted && len(x.Xs) > 0 {
				if got := stats.GeoMean(x.Xs); so.Bounds.Lo <= 0 {
					if !math.IsNaN(got) {
						sum.viol("GeoMean", c, "object %d: GeoMean with a non-positive value = %v, want NaN", i+1, got)
					}
				} else {
					want := 0.0
					for _, v := range x.Xs {
						want += math.Log(v)
					}
					want = math.Exp(want / nn)
					if !closeF(got, want, 0, 1e-12) {
						sum.viol("GeoMean", c, "object %d: GeoMean=%v want %v", i+1, got, want)
					}
				}
			}
		}
		// Quantile
		tolQ := 1e-12 * math.Max(spread, math.Max(maxabs*1e-3, 1e-300))
		tolQ = math.Max(tolQ, 64*eps*maxabs)
		type qr struct{ q, r float64 }
		var results []qr
		var q25, q75 float64
		for _, qq := range so.Qs {
			q := float64(qq.Q[0]) / float64(qq.Q[1])
			got := x.Quantile(q)
			sum.Checks++
			ok := false
			for _, alt := range qq.R {
				if alt.NaN {
					ok = ok || math.IsNaN(got)
				} else if closeRat(got, mapr(big.NewRat(alt.V[0], alt.V[1])), tolQ, 0) {
					ok = true
				}
			}
			if !ok {
				sum.viol("Quantile", c, "object %d map (%g,%g) weighted=%v sorted=%v: Quantile(%d/%d)=%.15g, admissible %+v", i+1, s, o, so.Weighted, x.Sorted, qq.Q[0], qq.Q[1], got, qq.R)
			}
			results = append(results, qr{q, got})
			if qq.Q == [2]int64{4, 16} {
				q25 = got
			}
			if qq.Q == [2]int64{12, 16} {
				q75 = got
			}
		}
		unchanged("Quantile")
		sort.Slice(results, func(a, b int) bool { return results[a].q < results[b].q })
		for k := 1; k < len(results); k++ {
			if results[k].r < results[k-1].r-tolQ {
				sum.viol("Quantile-monotone", c, "object %d: Quantile(%v)=%v < Quantile(%v)=%v", i+1, results[k].q, results[k].r, results[k-1].q, results[k-1].r)
			}
		}
		if len(x.Xs) > 0 {
			sum.Checks++
			if iqr, w := x.IQR(), q75-q25; !(math.Abs(iqr-w) <= 2*tolQ || (math.IsNaN(iqr) && math.IsNaN(w))) { // (NaN-safe: an empty sample has IQR NaN - NaN = NaN, not 0)
				sum.viol("IQR", c, "object %d: IQR=%v want Q(.75)-Q(.25)=%v", i+1, iqr, q75-q25)
			}
			unchanged("IQR")
		}
	}
	// Copy isolation: writing to a copy leaves the others alone
	if len(objs) >= 2 && len(objs[1].Xs) > 0 {
		keep := append([]float64{}, objs[0].Xs...)
		objs[1].Xs[0] += 12345
		if objs[1].Weights != nil {
			objs[1].Weights[0] += 1
		}
		if !bitsEqual(objs[0].Xs, keep) {
			sum.viol("Copy-aliases", c, "writing to a Copy changed the original")
		}
	}
}

type sampleEvent struct {
	Op        string  `json:"op"`
	I         int     `json:"i"`
	J         int     `json:"j"`
	Xs        []int64 `json:"xs"`
	Ws        []int64 `json:"ws"`
	Weighted  int     `json:"weighted"`
	Sorted    int     `json:"sorted"`
	SameStore int     `json:"samestore"`
	RetSelf   int     `json:"retself"`
	Disjoint  int     `json:"disjoint"`
	F         string  `json:"f"`
	A         int     `json:"a"`
	R         fdy     `json:"r"`
	Unchanged int     `json:"unchanged"`
	Seed      int64   `json:"seed"`
	Idx       int     `json:"idx"`
}

func b2i(b bool) int {
	if b {
		return 1
	}
	return 0
}

func toInts(x []float64) []int64 {
	out := make([]int64, len(x))
	for i, v := range x {
		out[i] = int64(v)
		if float64(out[i]) != v {
			out[i] = math.MinInt32 // not an integer any more: no action explains it
		}
	}
	return out
}

func sampleRecord(out io.Writer, args []string) error {
	rf := newRecFlags("sample", 60)
	maxN := rf.fs.Int("max", 60, "largest sample")
	ops := rf.fs.Int("ops", 30, "operations per history")
	funcs := rf.fs.String("funcs", "all", "which queries to record: all, quantile, stats")
	rf.fs.Parse(args)
	enc := json.NewEncoder(out)
	z := mkfdy(0)
	for idx := 0; idx < *rf.n; idx++ {
		if !rf.mine(idx) {
			continue
		}
		rng := rand.New(rand.NewSource(*rf.seed*1000003 + int64(idx)))
		enc.Encode(sampleEvent{Op: "Reset", Seed: *rf.seed, Idx: idx, Xs: []int64{}, Ws: []int64{}, R: z})
		var objs []*stats.Sample
		newObj := func() {
			n := rng.Intn(*maxN + 1)
			if rng.Intn(6) == 0 {
				n = rng.Intn(3)
			}
			span := []int64{3, 40, 1000, 1000000}[rng.Intn(4)]
			off := []int64{0, 0, -500, 1000000}[rng.Intn(4)]
			s := &stats.Sample{Xs: make([]float64, n)}
			for i := range s.Xs {
				s.Xs[i] = float64(off + rng.Int63n(span) - span/2)
			}
			weighted := rng.Intn(3) == 0
			if weighted {
				s.Weights = make([]float64, n)
				pos := false
				for i := range s.Weights {
					s.Weights[i] = float64(rng.Intn(4))
					pos = pos || s.Weights[i] > 0
				}
				if !pos && n > 0 {
					s.Weights[rng.Intn(n)] = 2
				}
			}
			if rng.Intn(4) == 0 {
				// hand over ascending data, sometimes flagged as sorted
				if weighted {
					idx := make([]int, n)
					for i := range idx {
						idx[i] = i
					}
					sort.Slice(idx, func(a, b int) bool { return s.Xs[idx[a]] < s.Xs[idx[b]] })
					nx, nw := make([]float64, n), make([]float64, n)
					for k, i := range idx {
						nx[k], nw[k] = s.Xs[i], s.Weights[i]
					}
					s.Xs, s.Weights = nx, nw
				} else {
					sort.Float64s(s.Xs)
				}
				s.Sorted = rng.Intn(2) == 0
			}
			objs = append(objs, s)
			ev := sampleEvent{Op: "New", I: len(objs), Xs: toInts(s.Xs), Ws: toInts(s.Weights), Weighted: b2i(weighted), Sorted: b2i(s.Sorted), Seed: *rf.seed, Idx: idx, R: z}
			enc.Encode(ev)
		}
		newObj()
		for k := 0; k < *ops; k++ {
			i := rng.Intn(len(objs))
			s := objs[i]
			switch r := rng.Intn(12); {
			case r == 0 && len(objs) < 4:
				newObj()
			case r == 3 && !s.Sorted && len(s.Xs) > 0:
				// the caller overwrites values in place (same backing array, same length): later queries must see the new data
				for t := 1 + rng.Intn(3); t > 0; t-- {
					j := rng.Intn(len(s.Xs))
					lo, hi := s.Xs[0], s.Xs[0]
					for _, v := range s.Xs {
						lo, hi = math.Min(lo, v), math.Max(hi, v)
					}
					switch rng.Intn(3) {
					case 0:
						s.Xs[j] = hi + float64(1+rng.Intn(50))
					case 1:
						s.Xs[j] = lo - float64(1+rng.Intn(50))
					default:
						s.Xs[j] = s.Xs[rng.Intn(len(s.Xs))] + float64(rng.Intn(3)-1)
					}
				}
				enc.Encode(sampleEvent{Op: "Poke", I: i + 1, Xs: toInts(s.Xs), Ws: toInts(s.Weights), Seed: *rf.seed, Idx: idx, R: z})
			case r == 1:
				px, pw := ptr(s.Xs), ptr(s.Weights)
				ret := s.Sort()
				enc.Encode(sampleEvent{Op: "Sort", I: i + 1, Xs: toInts(s.Xs), Ws: toInts(s.Weights), Sorted: b2i(s.Sorted),
					SameStore: b2i(ptr(s.Xs) == px && ptr(s.Weights) == pw), RetSelf: b2i(ret == s), Seed: *rf.seed, Idx: idx, R: z})
			case r == 2 && len(objs) < 4:
				cp := s.Copy()
				dis := len(s.Xs) == 0 || (ptr(cp.Xs) != ptr(s.Xs) && (s.Weights == nil || ptr(cp.Weights) != ptr(s.Weights)))
				dis = dis && (cp.Weights == nil) == (s.Weights == nil)
				objs = append(objs, cp)
				enc.Encode(sampleEvent{Op: "Copy", I: i + 1, J: len(objs), Xs: toInts(cp.Xs), Ws: toInts(cp.Weights), Sorted: b2i(cp.Sorted), Disjoint: b2i(dis), Seed: *rf.seed, Idx: idx, R: z})
			default:
				fs := []string{"Mean", "Sum", "Weight", "Min", "Max", "Quantile", "Quantile", "Quantile", "IQR", "Variance"}
				if *funcs == "quantile" {
					fs = []string{"Quantile", "Quantile", "Quantile", "IQR"}
				} else if *funcs == "stats" {
					fs = []string{"Mean", "Sum", "Weight", "Min", "Max", "Variance"}
				}
				f := fs[rng.Intn(len(fs))]
				if s.Weights != nil && f == "Variance" {
					f = fs[0]
				}
				if len(s.Xs) == 0 && f == "IQR" {
					f = "Quantile"
				}
				sx, sw, sf := append([]float64{}, s.Xs...), append([]float64(nil), s.Weights...), s.Sorted
				ev := sampleEvent{Op: "Query", I: i + 1, F: f, Xs: []int64{}, Ws: []int64{}, Seed: *rf.seed, Idx: idx}
				var r float64
				switch f {
				case "Mean":
					r = s.Mean()
				case "Sum":
					r = s.Sum()
				case "Weight":
					r = s.Weight()
				case "Min":
					r, _ = s.Bounds()
				case "Max":
					_, r = s.Bounds()
				case "Variance":
					r = s.Variance()
				case "IQR":
					r = s.IQR()
				case "Quantile":
					ev.A = rng.Intn(1400) - 200
					if rng.Intn(5) == 0 {
						ev.A = []int{0, 256, 512, 768, 1024}[rng.Intn(5)]
					}
					r = s.Quantile(float64(ev.A) / 1024)
				}
				ev.R = mkfdy(r)
				ev.Unchanged = b2i(bitsEqual(s.Xs, sx) && bitsEqual(s.Weights, sw) && s.Sorted == sf)
				enc.Encode(ev)
			}
		}
	}
	return nil
}
