package main

// Family qci (C11): stats.QuantileCI / SampleCI recorded for spec/qci/QuantileCITrace.tla.

import (
	"encoding/json"
	"io"
	"math"
	"math/rand"
	"sort"

	"github.com/aclements/go-moremath/stats"
)

func init() {
	families["qci"] = &family{record: qciRecord, replay: sampleCIReplay}
}

type qciEvent struct {
	Op         string `json:"op"`
	N          int    `json:"n"`
	A          []int  `json:"a"`
	B          []int  `json:"b"`
	C          fdy    `json:"c"`
	C18        sbig   `json:"c18"`
	Lo         int    `json:"lo"`
	Hi         int    `json:"hi"`
	Amb        int    `json:"amb"`
	Conf       sbig   `json:"conf"`
	NRes       int    `json:"nres"`
	QOK        int    `json:"qok"`
	Degenerate int    `json:"degenerate"`
	L1         fdy    `json:"l1"`
	R1         fdy    `json:"r1"`
	L          int    `json:"L"`
	H          int    `json:"H"`
	MassFull   sbig   `json:"massFull"`
	MassTrim   sbig   `json:"massTrim"`
	Seed       int64  `json:"seed"`
	Idx        int    `json:"idx"`
}

func natLimbs(x int64) []int {
	out := []int{}
	for x > 0 {
		out = append(out, int(x%10000))
		x /= 10000
	}
	return out
}

func qciRecord(out io.Writer, args []string) error {
	rf := newRecFlags("qci", 30)
	maxN := rf.fs.Int("max", 12, "largest n of the exact branch to record (<= 30)")
	minN := rf.fs.Int("min", 1, "smallest n of the exact branch to record")
	edgeMax := rf.fs.Int("edgemax", 20, "largest n combined with q within 1e-9 of 0 and 1 (270-digit masses at n = 30)")
	qden := rf.fs.Int("qden", 16, "q = a/qden")
	levels := rf.fs.Int("levels", 40, "confidence grid size")
	bigN := rf.fs.Bool("big", false, "record n > 30 (normal approximation) instead")
	rf.fs.Parse(args)
	enc := json.NewEncoder(out)
	z, zs := mkfdy(0), sbig{0, []int{}}
	base := qciEvent{A: []int{}, B: []int{}, C: z, C18: zs, Conf: zs, L1: z, R1: z, MassFull: zs, MassTrim: zs}
	// one history = one distribution (n, q); idx enumerates the grid
	type dist struct {
		n    int
		a, b int64
	}
	var grid []dist
	if !*bigN {
		for n := *minN; n <= *maxN; n++ {
			for a := 0; a <= *qden; a++ {
				grid = append(grid, dist{n, int64(a), int64(*qden)})
			}
			if n <= *edgeMax {
				grid = append(grid, dist{n, 1, 1000000000}, dist{n, 999999999, 1000000000})
			}
		}
	} else {
		for _, n := range []int{31, 32, 50, 100, 1000, 2000} {
			for a := 0; a <= 40; a++ {
				grid = append(grid, dist{n, int64(a), 40})
			}
		}
	}
	stride := 1
	if *rf.n < len(grid) {
		stride = (len(grid) + *rf.n - 1) / *rf.n
	}
	pos := -1
	type pick struct {
		idx int
		d   dist
	}
	var mine []pick
	for idx, d := range grid {
		// -n limits how many distributions of the grid are used (spread evenly, rotating with the seed);
		// shards split the selected ones
		if (idx+int(*rf.seed))%stride != 0 {
			continue
		}
		pos++
		if *rf.only >= 0 {
			if idx != *rf.only {
				continue
			}
		} else if pos%*rf.of != *rf.shard {
			continue
		}
		mine = append(mine, pick{idx, d})
	}
	// every other shard walks its distributions from large n to small (and the remaining ones in a seeded shuffle): an
	// implementation that keeps tables between calls sees larger sizes before smaller ones
	switch *rf.shard % 3 {
	case 1:
		for i, j := 0, len(mine)-1; i < j; i, j = i+1, j-1 {
			mine[i], mine[j] = mine[j], mine[i]
		}
	case 2:
		rand.New(rand.NewSource(*rf.seed+int64(*rf.shard))).Shuffle(len(mine), func(i, j int) { mine[i], mine[j] = mine[j], mine[i] })
	}
	for _, pk := range mine {
		idx, d := pk.idx, pk.d
		rng := rand.New(rand.NewSource(*rf.seed*1000003 + int64(idx)))
		q := float64(d.a) / float64(d.b)
		ev := base
		ev.Op, ev.Seed, ev.Idx = "Reset", *rf.seed, idx
		enc.Encode(ev)
		if !*bigN {
			ev = base
			ev.Op, ev.N, ev.A, ev.B, ev.Seed, ev.Idx = "SetDist", d.n, natLimbs(d.a), natLimbs(d.b), *rf.seed, idx
			enc.Encode(ev)
		}
		var cs []float64
		for k := 0; k <= *levels; k++ {
			cs = append(cs, float64(k)/float64(*levels))
		}
		cs = append(cs, -0.5, 1.5, 0.95, 0.99, 0.999, rng.Float64(), rng.Float64(),
			math.Nextafter(1, 0), 1-math.Ldexp(1, -52), 1-1e-15, 1-1e-13, 1-1e-10, math.Nextafter(0, 1), 1e-300) // legal levels next to both ends
		if *bigN && q > 0 && q < 1 {
			// levels whose central normal band ends within 1e-9..1e-8 of a half-integer, on either side: just above, the band
			// must still be rounded OUTWARD to the next bucket (else its content falls short of the level by ~1e-10)
			mu, sigma := float64(d.n)*q, math.Sqrt(float64(d.n)*q*(1-q))
			for _, j := range []float64{0, 1, 2, 4, 7, 11} {
				h := math.Floor(mu) + j + 0.5
				if c0 := math.Erf((h - mu) / sigma / math.Sqrt2); c0 > 1e-6 && c0 < 1-1e-6 {
					cs = append(cs, c0+1e-10, c0-1e-10, c0+1e-9, c0-1e-9)
				}
			}
		}
		call := func(c float64) stats.QuantileCIResult {
			r := stats.QuantileCI(d.n, q, c)
			e := base
			e.Seed, e.Idx = *rf.seed, idx
			e.C18 = p18(math.Max(-3, math.Min(3, c)))
			e.N, e.C, e.Lo, e.Hi, e.Amb, e.Conf, e.NRes = d.n, mkfdy(c), r.LoOrder, r.HiOrder, b2i(r.Ambiguous), p18(r.Confidence), r.N
			e.QOK = b2i(math.Float64bits(r.Quantile) == math.Float64bits(q))
			if !*bigN {
				e.Op = "Query"
			} else {
				e.Op = "QueryN"
				e.A, e.B = natLimbs(d.a), natLimbs(d.b)
				mu := float64(d.n) * q
				sigma := math.Sqrt(float64(d.n) * q * (1 - q))
				if sigma == 0 {
					e.Degenerate = 1
				} else if c < 1 {
					alpha := (1 - c) / 2
					zq := math.Sqrt2 * math.Erfinv(2*alpha-1) // PhiInv(alpha) <= 0
					l1, r1 := mu+sigma*zq, mu-sigma*zq
					e.L1, e.R1 = mkfdy(l1), mkfdy(r1)
					e.L = int(math.Floor(l1-0.5)) + 1
					e.H = int(math.Ceil(r1-0.5)) + 1
					// if the harness's own rounding is within 1e-7 of a boundary, adopt the code's choice when admissible
					if r.LoOrder > 0 && r.LoOrder <= d.n && r.LoOrder != e.L && math.Abs((l1-0.5)-math.Round(l1-0.5)) < 1e-7 {
						e.L = r.LoOrder
					} else if r.LoOrder == 0 && e.L == 1 && math.Abs((l1-0.5)-math.Round(l1-0.5)) < 1e-7 {
						e.L = 0 // the same at the lower clamp: order 0 (nothing below) instead of 1
					}
					// the same for the upper end (levels fed back from returned confidences put r1 on a half-integer to within
					// rounding): the spec re-derives H from r1 with the 1e-7 allowance, so adopting is sound
					if r.HiOrder > 0 && r.HiOrder <= d.n && math.Abs((r1-0.5)-math.Round(r1-0.5)) < 1e-7 {
						cand := r.HiOrder
						if r.Ambiguous {
							cand++
						}
						if cand == e.H+1 || cand == e.H-1 {
							e.H = cand
						}
					}
					phi := func(x float64) float64 { return 0.5 * math.Erfc(-(x-mu)/(sigma*math.Sqrt2)) }
					e.MassFull = p18(phi(float64(e.H)-0.5) - phi(float64(e.L)-0.5))
					e.MassTrim = p18(phi(float64(e.H-1)-0.5) - phi(float64(e.L)-0.5))
				}
			}
			enc.Encode(e)
			return r
		}
		extra := map[float64]bool{}
		for _, c := range cs {
			r := call(c)
			if r.Confidence > 0 && r.Confidence < 1 && (!*bigN || len(extra) < 10) {
				extra[r.Confidence] = true // (n > 30: the first ten; every returned Confidence is fed back as a level, +- one float)
			}
		}
		var ex []float64
		for c := range extra {
			ex = append(ex, c)
		}
		sort.Float64s(ex)
		for _, c := range ex {
			call(c)
			call(math.Nextafter(c, 2))
			call(math.Nextafter(c, -1))
		}
	}
	return nil
}

// ---- SampleCI (replay of cases produced by the sample family's generator is not needed: the rule is positional) ----

func sampleCIReplay(in io.Reader, raw bool, args []string) (*Summary, error) {
	sum := &Summary{Rule: "SampleCI: for every TLC-emitted sample (values, Sorted flag) and every (LoOrder, HiOrder) pair, SampleCI must return (Quantile(q), x_(LoOrder) or -inf, x_(HiOrder) or +inf) on the ascending order statistics and leave the sample unmodified; non-trivial = at least 2 values"}
	rng := rand.New(rand.NewSource(baseSeed))
	err := forEachCase(in, raw, func(c json.RawMessage) {
		var sc sCase
		if e := json.Unmarshal(c, &sc); e != nil || len(sc.Objs) == 0 {
			sum.viol("machinery", c, "bad case: %v", e)
			return
		}
		if sc.Init.Weighted || len(sc.H) > 0 {
			return
		}
		sum.Cases++
		n := len(sc.Init.Xs)
		if n >= 2 {
			sum.Nontrivial++
			if sum.Nontrivial%211 == 1 {
				sum.sample(c)
			}
		}
		defer func() {
			if r := recover(); r != nil {
				sum.viol("panic", c, "panic: %v", r)
			}
		}()
		xs := make([]float64, n)
		for i, v := range sc.Init.Xs {
			xs[i] = float64(v)*1.5 - 2
		}
		if !sc.Init.Sorted {
			rng.Shuffle(n, func(i, j int) { xs[i], xs[j] = xs[j], xs[i] })
		}
		srt := append([]float64{}, xs...)
		sort.Float64s(srt)
		for lo := 0; lo <= n; lo++ {
			for hi := lo + 1; hi <= n+1; hi++ {
				for _, q := range []float64{0.25, 0.5} {
					gx, okx := guarded(xs) // a window of a larger buffer: what lies behind the sample belongs to the caller too
					s := stats.Sample{Xs: gx, Sorted: sc.Init.Sorted}
					ci := stats.QuantileCIResult{Quantile: q, N: n, LoOrder: lo, HiOrder: hi}
					gq, gl, gh := ci.SampleCI(s)
					sum.Checks++
					wl, wh := math.Inf(-1), math.Inf(1)
					if lo >= 1 {
						wl = srt[lo-1]
					}
					if hi <= n {
						wh = srt[hi-1]
					}
					wq := (stats.Sample{Xs: srt, Sorted: true}).Quantile(q)
					if gl != wl || gh != wh || !(gq == wq || (math.IsNaN(gq) && math.IsNaN(wq))) {
						sum.viol("SampleCI", c, "n=%d orders (%d,%d) q=%v: got (%v,%v,%v) want (%v,%v,%v)", n, lo, hi, q, gq, gl, gh, wq, wl, wh)
					}
					if !okx() {
						sum.viol("SampleCI-modifies", c, "SampleCI changed the caller's sample (or the spare capacity behind it)")
					}
				}
			}
		}
	})
	return sum, err
}
