package main

// Family dot (C18): graphout.DotString / Dot.Sprint against spec/graph/Dot.tla.

import (
	"bytes"
	"encoding/json"
	"fmt"
	"io"
	"os"
	"reflect"
	"regexp"
	"strconv"
	"strings"

	"github.com/aclements/go-moremath/graph"
	"github.com/aclements/go-moremath/graph/graphout"
)

func init() {
	families["dot"] = &family{replay: dotReplay}
}

var dotAlphabet = []byte{0, '"', '\\', '\n', '{', '}', '<', '>', '|', 'a', ' ', 'n'}

func dotBytes(codes []int) string {
	b := make([]byte, len(codes))
	for i, c := range codes {
		b[i] = dotAlphabet[c]
	}
	return string(b)
}

// dotUnquote reads a quoted dot string starting at s[0]=='"'; returns the unescaped value and the
// number of bytes consumed (0 on failure).
func dotUnquote(s string) (string, int) {
	if len(s) == 0 || s[0] != '"' {
		return "", 0
	}
	var out []byte
	for i := 1; i < len(s); i++ {
		switch s[i] {
		case '\\':
			if i+1 >= len(s) {
				return "", 0
			}
			i++
			if s[i] == 'n' {
				out = append(out, '\n')
			} else {
				out = append(out, s[i])
			}
		case '"':
			return string(out), i + 1
		default:
			out = append(out, s[i])
		}
	}
	return "", 0
}

var (
	reNode = regexp.MustCompile(`^n(\d+)( \[(.*)\])?;$`)
	reEdge = regexp.MustCompile(`^n(\d+) -> n(\d+)( \[(.*)\])?;$`)
)

// dotDocCheck parses Dot output: every node named once, every edge once in adjacency order,
// labels unescape to what was given.  Returns "" if fine.
func dotDocCheck(doc string, adj [][]int, label func(int) string) string {
	lines := strings.Split(doc, "\n")
	if len(lines) < 3 || !strings.HasPrefix(lines[0], "digraph ") || !strings.HasSuffix(lines[0], "{") || lines[len(lines)-2] != "}" || lines[len(lines)-1] != "" {
		return "document frame malformed"
	}
	nodes := map[int]int{}
	edges := make([][]int, len(adj))
	for _, ln := range lines[1 : len(lines)-2] {
		if m := reEdge.FindStringSubmatch(ln); m != nil {
			u, _ := strconv.Atoi(m[1])
			v, _ := strconv.Atoi(m[2])
			if u >= len(adj) {
				return "edge from unknown node: " + ln
			}
			edges[u] = append(edges[u], v)
			continue
		}
		if m := reNode.FindStringSubmatch(ln); m != nil {
			u, _ := strconv.Atoi(m[1])
			nodes[u]++
			attrs := m[3]
			k := strings.Index(attrs, "label=")
			if k < 0 {
				return "node statement without label: " + ln
			}
			val, used := dotUnquote(attrs[k+6:])
			if used == 0 {
				return "label is not a terminated quoted string: " + ln
			}
			if rest := attrs[k+6+used:]; rest != "" && !strings.HasPrefix(rest, ",") {
				return "garbage after label: " + ln
			}
			if val != label(u) {
				return fmt.Sprintf("label of n%d unescapes to %q want %q", u, val, label(u))
			}
			continue
		}
		return "unparsable statement: " + ln
	}
	for u := range adj {
		if nodes[u] != 1 {
			return fmt.Sprintf("node %d named %d times", u, nodes[u])
		}
		if !intsEq(edges[u], adj[u]) && !(len(edges[u]) == 0 && len(adj[u]) == 0) {
			return fmt.Sprintf("edges of node %d: %v want %v", u, edges[u], adj[u])
		}
	}
	if len(nodes) != len(adj) {
		return "unknown nodes named"
	}
	return ""
}

func dotReplay(in io.Reader, raw bool, args []string) (*Summary, error) {
	sum := &Summary{Rule: "one case per string over the 11-symbol alphabet (all characters the quoting rules distinguish) up to the bounded length; DotString must equal the specified escaping byte for byte, and a 3-node multigraph labelled with rotations of the string must print as a document naming every node and edge once with labels that unescape to the originals; non-trivial = string contains at least one special character"}
	err := forEachCase(in, raw, func(c json.RawMessage) {
		var dc struct {
			S   []int `json:"s"`
			Esc []int `json:"esc"`
		}
		if e := json.Unmarshal(c, &dc); e != nil {
			sum.viol("machinery", c, "bad case: %v", e)
			return
		}
		sum.Cases++
		s, want := dotBytes(dc.S), dotBytes(dc.Esc)
		if strings.ContainsAny(s, "\"\\\n{}<>|") {
			sum.Nontrivial++
			if sum.Nontrivial%1499 == 1 {
				sum.sample(c)
			}
		}
		defer func() {
			if r := recover(); r != nil {
				sum.viol("panic", c, "panic: %v", r)
			}
		}()
		// the model's "ordinary character" (code 9) stands for every byte the rules do not mention: also bytes that are not
		// valid UTF-8 on their own (Latin-1 text, a truncated sequence) - quoting is byte for byte
		if strings.Contains(s, "a") {
			for _, ord := range []string{"\xff", "\xc3", "\xe9", "\u00e9", "\x80"} {
				s2, want2 := strings.ReplaceAll(s, "a", ord), strings.ReplaceAll(want, "a", ord)
				sum.Checks++
				if got := graphout.DotString(s2); got != want2 {
					sum.viol("DotString", c, "DotString(%q)=%q want %q", s2, got, want2)
				} else if un, used := dotUnquote(got); used != len(got) || un != s2 {
					sum.viol("DotString", c, "DotString(%q)=%q unescapes to %q", s2, got, un)
				}
			}
		}
		sum.Checks++
		if got := graphout.DotString(s); got != want {
			sum.viol("DotString", c, "DotString(%q)=%q want %q", s, got, want)
		}
		adj := [][]int{{1, 2, 2}, {0}, {}}
		label := func(i int) string {
			if len(s) == 0 {
				return s
			}
			k := i % len(s)
			return s[k:] + s[:k]
		}
		doc := graphout.Dot{Label: label}.Sprint(graph.IntGraph(adj))
		// the three entry points write the same document: Fprint into a buffer, and Print onto standard output (captured in a
		// file; on a long path graph too, whose document exceeds any buffer a writer might keep)
		dotN++
		if dotN%40 == 1 {
			var buf bytes.Buffer
			if err := (graphout.Dot{Label: label}).Fprint(&buf, graph.IntGraph(adj)); err != nil || buf.String() != doc {
				sum.viol("Dot-Fprint", c, "Fprint wrote (err %v)\n%s\n--- Sprint returns\n%s", err, buf.String(), doc)
			}
			graphs := []graph.Graph{graph.IntGraph(adj)}
			if dotN%400 == 1 {
				long := make(graph.IntGraph, 1500)
				for i := 0; i+1 < len(long); i++ {
					long[i] = []int{i + 1}
				}
				graphs = append(graphs, long)
			}
			for _, g := range graphs {
				want := graphout.Dot{Label: label}.Sprint(g)
				got, err := capturePrint(graphout.Dot{Label: label}, g)
				sum.Checks++
				if err != nil {
					sum.viol("machinery", c, "capturing standard output: %v", err)
				} else if got != want {
					sum.viol("Dot-Print", c, "Print wrote %d bytes to standard output, the document has %d; Print wrote:\n%.300s", len(got), len(want), got)
				}
			}
		}
		if msg := dotDocCheck(doc, adj, label); msg != "" {
			sum.viol("Dot", c, "%s; document:\n%s", msg, doc)
		}
		// labels supplied as a node attribute override Label and are quoted the same way; edge attributes too
		doc2 := graphout.Dot{Name: s, Label: func(int) string { return "x" },
			NodeAttrs: func(i int) []graphout.DotAttr {
				return []graphout.DotAttr{{Name: "shape", Val: "box"}, {Name: "label", Val: label(i)}}
			},
			EdgeAttrs: func(i, j int) []graphout.DotAttr {
				return []graphout.DotAttr{{Name: "label", Val: s}, {Name: "weight", Val: j}}
			},
		}.Sprint(graph.IntGraph(adj))
		if msg := dotDocCheck(doc2, adj, label); msg != "" {
			sum.viol("Dot-attrs", c, "%s; document:\n%s", msg, doc2)
		}
		// the ordinary character as a percent sign followed by a letter (text that a formatting routine would read as a
		// verb): names, labels, node and edge attributes are data, never format strings
		if strings.Contains(s, "a") {
			pc := func(t string) string { return strings.ReplaceAll(t, "a", "%d%") }
			label3 := func(i int) string { return pc(label(i)) }
			doc3 := graphout.Dot{Name: pc(s), Label: func(int) string { return "x" },
				NodeAttrs: func(i int) []graphout.DotAttr {
					return []graphout.DotAttr{{Name: "tooltip", Val: pc(s)}, {Name: "label", Val: label3(i)}}
				},
				EdgeAttrs: func(i, j int) []graphout.DotAttr {
					return []graphout.DotAttr{{Name: "label", Val: pc(s)}, {Name: "weight", Val: j}}
				},
			}.Sprint(graph.IntGraph(adj))
			sum.Checks++
			if msg := dotDocCheck(doc3, adj, label3); msg != "" {
				sum.viol("Dot-attrs", c, "%s; document:\n%s", msg, doc3)
			} else if !strings.Contains(doc3, "label="+graphout.DotString(pc(s))) || strings.Contains(doc3, "MISSING") || strings.Contains(doc3, "%!") {
				sum.viol("Dot-attrs", c, "an attribute value %q does not appear quoted as %s; document:\n%s", pc(s), graphout.DotString(pc(s)), doc3)
			}
		}
		// attribute slices handed out as prefixes of one shared table (spare capacity behind them), without a label
		// attribute so that the default label is added: the table must stay as it was, the document must be the same
		// when printed again, and every node must carry its own label
		table := []graphout.DotAttr{{Name: "color", Val: "red"}, {Name: "shape", Val: "box"}, {Name: "style", Val: "bold"}}
		keepT := append([]graphout.DotAttr{}, table...)
		shared := graphout.Dot{Label: label, NodeAttrs: func(i int) []graphout.DotAttr { return table[: 1+i%2 : 3] }}
		d1 := shared.Sprint(graph.IntGraph(adj))
		d2 := shared.Sprint(graph.IntGraph(adj))
		if d1 != d2 || !reflect.DeepEqual(table, keepT) {
			sum.viol("Dot-attrs-shared", c, "printing changed the caller's attribute table or is not repeatable:\n%s\n---\n%s", d1, d2)
		} else if msg := dotDocCheck(d1, adj, label); msg != "" {
			sum.viol("Dot-attrs-shared", c, "%s; document:\n%s", msg, d1)
		}
		if name, used := dotUnquote(strings.TrimPrefix(strings.Split(doc2, "\n")[0], "digraph ")); used == 0 || name != s {
			// the first line may contain an escaped newline only, so Split is safe
			sum.viol("Dot-name", c, "graph name unescapes to %q want %q", name, s)
		}
	})
	return sum, err
}

var dotN int

// capturePrint runs d.Print(g) with os.Stdout pointing at a scratch file and returns what arrived there.
func capturePrint(d graphout.Dot, g graph.Graph) (string, error) {
	f, err := os.CreateTemp("", "dotprint")
	if err != nil {
		return "", err
	}
	defer os.Remove(f.Name())
	defer f.Close()
	perr := func() error {
		saved := os.Stdout
		os.Stdout = f
		defer func() { os.Stdout = saved }() // also when Print panics (the caller reports the panic)
		return d.Print(g)
	}()
	if perr != nil {
		return "", perr
	}
	b, err := os.ReadFile(f.Name())
	return string(b), err
}
