module verifharness

go 1.22

require github.com/aclements/go-moremath v0.0.0

require gonum.org/v1/gonum v0.15.1

replace github.com/aclements/go-moremath => /repo
