// Command binder binds the TLA+ specifications under /verif/spec to the real
// go-moremath code (module replaced by /repo's working tree).
//
//	binder replay <family> [flags]   TLC-emitted cases on stdin -> drive the real API, compare
//	binder record <family> [flags]   seeded driver calls the real API -> ndjson trace on stdout
//
// replay prints one JSON summary object on stdout (last line).
package main

import (
	"bufio"
	"encoding/json"
	"flag"
	"fmt"
	"io"
	"os"
	"runtime/debug"
	"sort"
	"strconv"
	"strings"
	"sync"
	"time"
)

// Violation is one disagreement between the real code and the specification.
type Violation struct {
	Family string          `json:"family"`
	What   string          `json:"what"`
	Case   json.RawMessage `json:"case"`
	Detail string          `json:"detail"`
}

// Summary is what a replay run reports to the driver.
type Summary struct {
	Family     string            `json:"family"`
	Cases      int               `json:"cases"`      // case records consumed
	Nontrivial int               `json:"nontrivial"` // distinct non-trivial cases by the family's rule
	Checks     int               `json:"checks"`     // individual comparisons against the real code
	Violations []Violation       `json:"violations"`
	NViol      int               `json:"nviol"`
	Known      map[string]int    `json:"known"` // known-finding signature -> count
	Samples    []json.RawMessage `json:"samples"`
	Rule       string            `json:"rule"`
	Notes      map[string]any    `json:"notes,omitempty"`
}

// whatOnly / whatNot restrict which kinds of disagreement a replay reports, so that two properties
// sharing one generator are each judged on their own clauses ("machinery" and "panic" always pass).
var whatOnly, whatNot []string

func whatSelected(what string) bool {
	if what == "machinery" || what == "panic" || what == "hang" {
		return true
	}
	for _, p := range whatNot {
		if strings.HasPrefix(what, p) {
			return false
		}
	}
	if len(whatOnly) == 0 {
		return true
	}
	for _, p := range whatOnly {
		if strings.HasPrefix(what, p) {
			return true
		}
	}
	return false
}

func (s *Summary) viol(what string, c json.RawMessage, format string, a ...any) {
	if !whatSelected(what) {
		return
	}
	s.NViol++
	if len(s.Violations) < 20 {
		s.Violations = append(s.Violations, Violation{s.Family, what, c, fmt.Sprintf(format, a...)})
	}
}
func (s *Summary) known(sig string) {
	if s.Known == nil {
		s.Known = map[string]int{}
	}
	s.Known[sig]++
}
func (s *Summary) sample(c json.RawMessage) {
	if len(s.Samples) < 3 {
		s.Samples = append(s.Samples, append(json.RawMessage(nil), c...))
	}
}
func (s *Summary) note(k string, v any) {
	if s.Notes == nil {
		s.Notes = map[string]any{}
	}
	s.Notes[k] = v
}

// forEachCase feeds every case record found on r to f.  TLC prints a record emitted by
// PrintT(ToJson(..)) as a quoted TLA+ string on a line of its own; with --raw the input is
// plain ndjson (used by --replay).
func forEachCase(r io.Reader, raw bool, f func(c json.RawMessage)) error {
	br := bufio.NewReaderSize(r, 1<<20)
	var lw *bufio.Writer
	if tlcLog != "" {
		lf, err := os.Create(tlcLog)
		if err != nil {
			return err
		}
		defer lf.Close()
		lw = bufio.NewWriter(lf)
		defer lw.Flush()
	}
	for {
		line, err := br.ReadString('\n')
		if len(line) > 0 {
			t := strings.TrimRight(line, "\r\n")
			if raw {
				if strings.HasPrefix(t, "{") {
					f(json.RawMessage(t))
				}
			} else if strings.HasPrefix(t, "\"{") && strings.HasSuffix(t, "\"") {
				var inner string
				if e := json.Unmarshal([]byte(t), &inner); e != nil {
					// TLA+ string escapes are a subset of JSON's; fall back to strconv
					u, e2 := strconv.Unquote(t)
					if e2 != nil {
						return fmt.Errorf("unparsable emitted line: %.80s", t)
					}
					inner = u
				}
				f(json.RawMessage(inner))
			} else if lw != nil {
				lw.WriteString(line)
			}
		}
		if err == io.EOF {
			return nil
		}
		if err != nil {
			return err
		}
	}
}

type family struct {
	replay func(in io.Reader, raw bool, args []string) (*Summary, error)
	record func(out io.Writer, args []string) error
}

var families = map[string]*family{}

// common flags
var (
	tlcLog   string // replay: copy TLC's non-case output lines here
	baseSeed int64  = 1
)

// recFlags are the flags every recorder understands.
type recFlags struct {
	fs    *flag.FlagSet
	seed  *int64
	n     *int
	shard *int
	of    *int
	only  *int
}

func newRecFlags(name string, defN int) *recFlags {
	fs := flag.NewFlagSet("record "+name, flag.ExitOnError)
	return &recFlags{fs, fs.Int64("seed", 1, "seed"), fs.Int("n", defN, "number of histories"),
		fs.Int("shard", 0, "shard index"), fs.Int("of", 1, "number of shards"), fs.Int("only", -1, "record only history idx")}
}

// mine reports whether history idx belongs to this shard / selection.
func (r *recFlags) mine(idx int) bool {
	if *r.only >= 0 {
		return idx == *r.only
	}
	return idx%*r.of == *r.shard
}

func main() {
	if len(os.Args) < 3 {
		names := []string{}
		for k := range families {
			names = append(names, k)
		}
		sort.Strings(names)
		fmt.Fprintf(os.Stderr, "usage: binder replay|record <family> [flags]; families: %v\n", names)
		os.Exit(2)
	}
	// unbounded recursion in the library under test should end in the runtime's stack-overflow report quickly, not after
	// a gigabyte of stack
	debug.SetMaxStack(256 << 20)
	mode, fam := os.Args[1], os.Args[2]
	f := families[fam]
	if f == nil {
		fmt.Fprintf(os.Stderr, "binder: unknown family %q\n", fam)
		os.Exit(2)
	}
	switch mode {
	case "replay":
		fs := flag.NewFlagSet("replay", flag.ExitOnError)
		raw := fs.Bool("raw", false, "input is plain ndjson, not TLC output")
		fs.StringVar(&tlcLog, "tlclog", "", "write TLC's own output lines to this file")
		fs.Int64Var(&baseSeed, "seed", 1, "seed for value maps and permutations")
		only := fs.String("what", "", "comma-separated prefixes of disagreement kinds to report (default all)")
		not := fs.String("notwhat", "", "comma-separated prefixes of disagreement kinds to ignore")
		fs.Parse(os.Args[3:])
		if *only != "" {
			whatOnly = strings.Split(*only, ",")
		}
		if *not != "" {
			whatNot = strings.Split(*not, ",")
		}
		if f.replay == nil {
			fmt.Fprintln(os.Stderr, "binder: family has no replay")
			os.Exit(2)
		}
		s, err := f.replay(os.Stdin, *raw, fs.Args())
		if err != nil {
			fmt.Fprintln(os.Stderr, "binder:", err)
			os.Exit(2)
		}
		s.Family = fam
		b, err := json.Marshal(s)
		if err != nil {
			// a note holding NaN or an infinity (a worst-error statistic when the library returned one) cannot be
			// encoded as JSON: keep the verdict, print the notes as text
			s.Notes = map[string]any{"notes_as_text": fmt.Sprint(s.Notes)}
			b, err = json.Marshal(s)
		}
		if err != nil {
			fmt.Fprintln(os.Stderr, "binder: cannot encode the summary:", err)
			os.Exit(2)
		}
		fmt.Println(string(b))
	case "record":
		if f.record == nil {
			fmt.Fprintln(os.Stderr, "binder: family has no record")
			os.Exit(2)
		}
		bw := bufio.NewWriterSize(os.Stdout, 1<<20)
		w := &progressWriter{w: bw, last: time.Now()}
		go w.watch(bw)
		defer func() {
			// a panic that escapes a recorder comes from a call into the library under test whose panics that recorder
			// does not expect (recorders that drive panicking inputs on purpose recover themselves): a verdict (exit 3)
			// when library frames are on the panicking stack, machinery trouble otherwise
			if r := recover(); r != nil {
				w.mu.Lock()
				bw.Flush()
				st := string(debug.Stack())
				if strings.Contains(st, "github.com/aclements/go-moremath/") {
					fmt.Fprintf(os.Stderr, "LIBRARY-PANIC after recorded event #%d: %v\nlast event written: %s\n%s\n", w.count, r, w.tail, st)
					os.Exit(3)
				}
				fmt.Fprintf(os.Stderr, "binder: recorder panicked: %v\n%s\n", r, st)
				os.Exit(2)
			}
		}()
		if err := f.record(w, os.Args[3:]); err != nil {
			bw.Flush()
			fmt.Fprintln(os.Stderr, "binder:", err)
			os.Exit(2)
		}
		w.mu.Lock() // keep the watchdog out while the last events are flushed
		bw.Flush()
	default:
		fmt.Fprintln(os.Stderr, "binder: unknown mode", mode)
		os.Exit(2)
	}
}

// progressWriter sits between a recorder and its output.  Every recorder writes one event per library call, so a long
// silence means a call into the library under test has not returned.  The watchdog then reports the hang on stderr (with
// the last event that was written) and exits with code 3, which the driver treats like a crash of the code under test:
// a verdict about the library, reproducible with the same record command.  The limit is far above the slowest
// legitimate call (a few seconds for the exact Mann-Whitney distribution at the size limits, even on a loaded machine).
type progressWriter struct {
	mu    sync.Mutex
	w     io.Writer
	last  time.Time
	tail  []byte
	count int
}

func (p *progressWriter) Write(b []byte) (int, error) {
	p.mu.Lock()
	defer p.mu.Unlock()
	p.last = time.Now()
	p.count++
	if len(b) > 400 {
		p.tail = append(p.tail[:0], b[:400]...)
	} else {
		p.tail = append(p.tail[:0], b...)
	}
	return p.w.Write(b)
}

func (p *progressWriter) watch(bw *bufio.Writer) {
	limit := 180 * time.Second
	if v, err := strconv.Atoi(os.Getenv("VERIF_HANG_S")); err == nil && v > 0 {
		limit = time.Duration(v) * time.Second
	}
	for {
		time.Sleep(limit / 20)
		p.mu.Lock()
		if time.Since(p.last) > limit {
			bw.Flush()
			fmt.Fprintf(os.Stderr, "HANG: the library call after recorded event #%d has not returned for %v; last event written: %s\n", p.count, limit, p.tail)
			os.Exit(3)
		}
		p.mu.Unlock()
	}
}

func init() {
	exitNow = os.Exit
}
