package main

// Family mwlarge (C01, C02): large untied samples (up to the exact-method limit 50+50) against the
// Gaussian-binomial count vector computed in BigInt by spec/mw/MWLarge.tla.

import (
	"encoding/json"
	"io"
	"math/big"
	"math/rand"
	"sort"

	"github.com/aclements/go-moremath/stats"
)

func init() {
	families["mwlarge"] = &family{replay: mwLargeReplay}
}

func mwLargeReplay(in io.Reader, raw bool, args []string) (*Summary, error) {
	sum := &Summary{Rule: "one case per (n1, n2) emitted by TLC with the exact BigInt count vector of the untied null distribution; UDist{n1,n2}.PMF/CDF are compared at ~80 points spread over the range (both halves, the centre, the ends) and MannWhitneyUTest is called on random untied samples whose U is counted pair by pair; non-trivial = n1, n2 >= 20"}
	rng := rand.New(rand.NewSource(baseSeed))
	handle := func(c json.RawMessage) {
		var lc struct {
			Kind  string  `json:"kind"`
			N1    int     `json:"n1"`
			N2    int     `json:"n2"`
			A     int     `json:"a"`
			B     int     `json:"b"`
			Cnt   [][]int `json:"cnt"`
			Den   []int   `json:"den"`
			T     []int   `json:"T"`
			Items []struct {
				R    json.RawMessage `json:"r"`
				TwoU int             `json:"twoU"`
				Mult []int           `json:"mult"`
			} `json:"items"`
		}
		if e := json.Unmarshal(c, &lc); e != nil || lc.N1 == 0 {
			sum.viol("machinery", c, "bad case: %v", e)
			return
		}
		sum.Cases++
		if lc.Kind == "tied2" {
			mwTied2(sum, lc.A, lc.B, lc.N1, lc.N2, fromLimbs(lc.Den), func(yield func(r, twoU int, mult *big.Int)) {
				for _, it := range lc.Items {
					var r int
					json.Unmarshal(it.R, &r)
					yield(r, it.TwoU, fromLimbs(it.Mult))
				}
			})
			return
		}
		if lc.Kind == "tiedk" {
			atoms := map[int]*big.Int{}
			var allocs [][]int
			for _, it := range lc.Items {
				var r []int
				json.Unmarshal(it.R, &r)
				if atoms[it.TwoU] == nil {
					atoms[it.TwoU] = new(big.Int)
					allocs = append(allocs, append([]int{it.TwoU}, r...))
				}
				atoms[it.TwoU].Add(atoms[it.TwoU], fromLimbs(it.Mult))
			}
			mwTiedK(sum, lc.T, lc.N1, lc.N2, fromLimbs(lc.Den), atoms, allocs)
			return
		}
		// sizes beyond the default exact limit (lopsided pools): the limit is raised for the duration of the case
		if lc.N1 > stats.MannWhitneyExactLimit || lc.N2 > stats.MannWhitneyExactLimit {
			save := stats.MannWhitneyExactLimit
			stats.MannWhitneyExactLimit = 1000
			defer func() { stats.MannWhitneyExactLimit = save }()
		}
		small := json.RawMessage(`{"n1":` + itoa(lc.N1) + `,"n2":` + itoa(lc.N2) + `}`)
		if lc.N1 >= 20 && lc.N2 >= 20 {
			sum.Nontrivial++
		}
		sum.sample(small)
		defer func() {
			if r := recover(); r != nil {
				sum.viol("panic", small, "panic: %v", r)
			}
		}()
		den := fromLimbs(lc.Den)
		top := lc.N1 * lc.N2
		cum := make([]*big.Int, top+1)
		acc := new(big.Int)
		cnt := make([]*big.Int, top+1)
		for u := 0; u <= top; u++ {
			cnt[u] = fromLimbs(lc.Cnt[u])
			acc = new(big.Int).Add(acc, cnt[u])
			cum[u] = acc
		}
		us := map[int]bool{0: true, 1: true, top: true, top - 1: true, top / 2: true, top/2 + 1: true, top/2 - 1: true}
		for len(us) < 80 && len(us) < top+1 {
			us[rng.Intn(top+1)] = true
		}
		for _, T := range [][]int{nil} {
			d := stats.UDist{N1: lc.N1, N2: lc.N2, T: T}
			for u := range us {
				if u < 0 || u > top {
					continue
				}
				sum.Checks++
				wc := new(big.Rat).SetFrac(cum[u], den)
				wp := new(big.Rat).SetFrac(cnt[u], den)
				if got := d.CDF(float64(u)); !closeRat(got, wc, 1e-12, 1e-9) {
					sum.viol("CDF-large", small, "UDist{%d,%d}.CDF(%d)=%.15g want %.15g", lc.N1, lc.N2, u, got, rf(wc))
				}
				if got := d.CDF(float64(u) + 0.5); !closeRat(got, wc, 1e-12, 1e-9) {
					sum.viol("CDF-large", small, "UDist{%d,%d}.CDF(%v)=%.15g want %.15g", lc.N1, lc.N2, float64(u)+0.5, got, rf(wc))
				}
				if got := d.PMF(float64(u)); !closeRat(got, wp, 1e-12, 1e-9) {
					sum.viol("PMF-large", small, "UDist{%d,%d}.PMF(%d)=%.15g want %.15g", lc.N1, lc.N2, u, got, rf(wp))
				}
			}
		}
		// a probability is never above 1: the upper tail walked point by point (no tolerance; sums of ~1e3 masses that
		// overshoot by an ulp show here), and never below the value before it by more than rounding
		{
			d := stats.UDist{N1: lc.N1, N2: lc.N2}
			prev := 0.0
			for u := top - 400; u <= top+1; u++ {
				if u < 0 {
					continue
				}
				sum.Checks++
				g := d.CDF(float64(u))
				if g > 1 || g < prev-1e-12 {
					sum.viol("CDF-large", small, "UDist{%d,%d}.CDF(%d)=%.17g (before it %.17g): above 1 or stepping back", lc.N1, lc.N2, u, g, prev)
					break
				}
				prev = g
			}
		}
		// MannWhitneyUTest on random untied samples of these sizes (exact method at the default limits)
		if lc.N1 <= stats.MannWhitneyExactLimit && lc.N2 <= stats.MannWhitneyExactLimit {
			for rep := 0; rep < 6; rep++ {
				perm := rng.Perm(lc.N1 + lc.N2)
				x1, x2 := make([]float64, lc.N1), make([]float64, lc.N2)
				shift := 0.0
				if rep%2 == 1 {
					shift = float64(lc.N1+lc.N2) * 0.15 // some separation so that small tails occur too
				}
				for i := range x1 {
					x1[i] = float64(perm[i])*1.5 + 0.25 + shift
				}
				for i := range x2 {
					x2[i] = float64(perm[lc.N1+i]) * 1.5
				}
				u := 0
				for _, a := range x1 {
					for _, b := range x2 {
						if a > b {
							u++
						}
					}
				}
				for _, alt := range mwAlts {
					sum.Checks++
					res, err := stats.MannWhitneyUTest(x1, x2, alt)
					if err != nil || res == nil {
						sum.viol("error", small, "unexpected error %v", err)
						continue
					}
					if res.U != float64(u) {
						sum.viol("U", small, "U=%v want %d", res.U, u)
						continue
					}
					le := new(big.Int).Set(cum[u])
					ge := new(big.Int).Sub(den, cum[u])
					ge.Add(ge, cnt[u])
					var num *big.Int
					switch alt {
					case stats.LocationLess:
						num = le
					case stats.LocationGreater:
						num = ge
					default:
						num = new(big.Int).Set(le)
						if ge.Cmp(le) < 0 {
							num.Set(ge)
						}
						num.Mul(num, big.NewInt(2))
						if num.Cmp(den) > 0 {
							num.Set(den)
						}
					}
					want := new(big.Rat).SetFrac(num, den)
					if !closeRat(res.P, want, 1e-12, 1e-9) {
						sum.viol("P-large", small, "sizes %d+%d alt %v U=%d: P=%.15g want %.15g", lc.N1, lc.N2, alt, u, res.P, rf(want))
					}
				}
			}
		}
	}
	// every case once in the order TLC emits them, then once more in reverse order: whatever the library keeps between
	// calls (tables, caches keyed by the sizes) has then been filled by smaller AND by larger cases before a case is evaluated
	var keep []json.RawMessage
	err := forEachCase(in, raw, func(c json.RawMessage) {
		keep = append(keep, append(json.RawMessage{}, c...))
		handle(c)
	})
	for i := len(keep) - 1; i >= 0; i-- {
		handle(keep[i])
	}
	return sum, err
}

// mwTied2: a pool of a copies of one value and b copies of a larger one, n1 of them in the first sample.  The distribution of U
// has one atom per r (the number of smaller values in the first sample), with C(a,r) C(b,n1-r) of the C(a+b,n1) relabellings.
func mwTied2(sum *Summary, a, b, n1, n2 int, den *big.Int, items func(func(r, twoU int, mult *big.Int))) {
	small := json.RawMessage(`{"tied2":[` + itoa(a) + `,` + itoa(b) + `,` + itoa(n1) + `]}`)
	sum.Nontrivial++
	sum.sample(small)
	defer func() {
		if r := recover(); r != nil {
			sum.viol("panic", small, "panic: %v", r)
		}
	}()
	type atom struct {
		r, twoU int
		m       *big.Int
	}
	var at []atom
	items(func(r, twoU int, m *big.Int) { at = append(at, atom{r, twoU, m}) })
	// ascending in U
	for i, j := 0, len(at)-1; i < j; i, j = i+1, j-1 {
		at[i], at[j] = at[j], at[i]
	}
	d := stats.UDist{N1: n1, N2: n2, T: []int{a, b}}
	saveE, saveT := stats.MannWhitneyExactLimit, stats.MannWhitneyTiesExactLimit
	stats.MannWhitneyExactLimit, stats.MannWhitneyTiesExactLimit = 1000, 1000
	defer func() { stats.MannWhitneyExactLimit, stats.MannWhitneyTiesExactLimit = saveE, saveT }()
	cum := new(big.Int)
	step := 1
	if len(at) > 60 {
		step = len(at) / 60
	}
	for i, t := range at {
		cum = new(big.Int).Add(cum, t.m)
		if i%step != 0 && i != len(at)-1 && i > 3 {
			continue
		}
		u := float64(t.twoU) / 2
		wc := new(big.Rat).SetFrac(cum, den)
		wp := new(big.Rat).SetFrac(t.m, den)
		sum.Checks++
		if got := d.CDF(u); !closeRat(got, wc, 1e-12, 1e-9) {
			sum.viol("CDF-large", small, "UDist{%d,%d,[%d %d]}.CDF(%v)=%.15g want %.15g", n1, n2, a, b, u, got, rf(wc))
		}
		if got := d.PMF(u); !closeRat(got, wp, 1e-12, 1e-9) {
			sum.viol("PMF-large", small, "UDist{%d,%d,[%d %d]}.PMF(%v)=%.15g want %.15g", n1, n2, a, b, u, got, rf(wp))
		}
		if i+1 < len(at) && at[i+1].twoU > t.twoU+1 { // between two atoms: no mass, the CDF of the lower one
			if got := d.PMF(u + 0.5); got != 0 && !closeRat(got, new(big.Rat), 1e-12, 0) {
				sum.viol("PMF-large", small, "UDist{%d,%d,[%d %d]}.PMF(%v)=%.15g want 0", n1, n2, a, b, u+0.5, got)
			}
			if got := d.CDF(u + 0.5); !closeRat(got, wc, 1e-12, 1e-9) {
				sum.viol("CDF-large", small, "UDist{%d,%d,[%d %d]}.CDF(%v)=%.15g want %.15g", n1, n2, a, b, u+0.5, got, rf(wc))
			}
		}
		// the test itself on such samples (exact method, limits raised)
		if i%(4*step) == 0 || i == len(at)-1 {
			x1, x2 := make([]float64, 0, n1), make([]float64, 0, n2)
			for k := 0; k < n1; k++ {
				if k < t.r {
					x1 = append(x1, 2.5)
				} else {
					x1 = append(x1, 7.25)
				}
			}
			for k := 0; k < n2; k++ {
				if k < a-t.r {
					x2 = append(x2, 2.5)
				} else {
					x2 = append(x2, 7.25)
				}
			}
			res, err := stats.MannWhitneyUTest(x1, x2, stats.LocationLess)
			if err != nil || res == nil {
				sum.viol("error", small, "r=%d: unexpected error %v", t.r, err)
			} else if res.U != u || !closeRat(res.P, wc, 1e-12, 1e-9) {
				sum.viol("P-large", small, "two-value pool %d+%d, %d of the smaller in sample 1 (sizes %d, %d): U=%v P(less)=%.15g want %v %.15g", a, b, t.r, n1, n2, res.U, res.P, u, rf(wc))
			}
		}
	}
}

// mwTiedK: a tied pool of three or more distinct values (T[k] copies of value k) with n1 of them in the first sample; atoms
// is the exact mass (over den) of every attainable 2U, allocs one allocation per atom (2U followed by r).
func mwTiedK(sum *Summary, T []int, n1, n2 int, den *big.Int, atoms map[int]*big.Int, allocs [][]int) {
	small, _ := json.Marshal(map[string]any{"tiedk": T, "n1": n1})
	sum.Nontrivial++
	sum.sample(small)
	defer func() {
		if r := recover(); r != nil {
			sum.viol("panic", small, "panic: %v", r)
		}
	}()
	var us []int
	for u := range atoms {
		us = append(us, u)
	}
	sort.Ints(us)
	saveE, saveT := stats.MannWhitneyExactLimit, stats.MannWhitneyTiesExactLimit
	stats.MannWhitneyExactLimit, stats.MannWhitneyTiesExactLimit = 1000, 1000
	defer func() { stats.MannWhitneyExactLimit, stats.MannWhitneyTiesExactLimit = saveE, saveT }()
	d := stats.UDist{N1: n1, N2: n2, T: append([]int{}, T...)}
	cumAt := map[int]*big.Rat{}
	cum := new(big.Int)
	for i, u := range us {
		cum = new(big.Int).Add(cum, atoms[u])
		x := float64(u) / 2
		wc, wp := new(big.Rat).SetFrac(cum, den), new(big.Rat).SetFrac(atoms[u], den)
		cumAt[u] = wc
		sum.Checks++
		if got := d.CDF(x); !closeRat(got, wc, 1e-12, 1e-9) {
			sum.viol("CDF-large", small, "UDist{%d,%d,%v}.CDF(%v)=%.15g want %.15g", n1, n2, T, x, got, rf(wc))
		}
		if got := d.PMF(x); !closeRat(got, wp, 1e-12, 1e-9) {
			sum.viol("PMF-large", small, "UDist{%d,%d,%v}.PMF(%v)=%.15g want %.15g", n1, n2, T, x, got, rf(wp))
		}
		if i+1 < len(us) && us[i+1] > u+1 {
			if got := d.CDF(x + 0.5); !closeRat(got, wc, 1e-12, 1e-9) {
				sum.viol("CDF-large", small, "UDist{%d,%d,%v}.CDF(%v)=%.15g want %.15g (no mass since %v)", n1, n2, T, x+0.5, got, rf(wc), x)
			}
		}
	}
	// the test itself on one sample pair per atom (a few of them)
	step := 1 + len(allocs)/12
	for i := 0; i < len(allocs); i += step {
		twoU, r := allocs[i][0], allocs[i][1:]
		var x1, x2 []float64
		for k := range T {
			for j := 0; j < T[k]; j++ {
				if j < r[k] {
					x1 = append(x1, float64(k)*1.25-3)
				} else {
					x2 = append(x2, float64(k)*1.25-3)
				}
			}
		}
		sum.Checks++
		res, err := stats.MannWhitneyUTest(x1, x2, stats.LocationLess)
		if err != nil || res == nil {
			sum.viol("error", small, "allocation %v: unexpected error %v", r, err)
		} else if res.U != float64(twoU)/2 || !closeRat(res.P, cumAt[twoU], 1e-12, 1e-9) {
			sum.viol("P-large", small, "pool %v allocation %v: U=%v P(less)=%.15g want %v %.15g", T, r, res.U, res.P, float64(twoU)/2, rf(cumAt[twoU]))
		}
	}
}
