package main

// Family mwlarge (C01, C02): large untied samples (up to the exact-method limit 50+50) against the
// Gaussian-binomial count vector computed in BigInt by spec/mw/MWLarge.tla.

import (
	"encoding/json"
	"io"
	"math/big"
	"math/rand"

	"github.com/aclements/go-moremath/stats"
)

func init() {
	families["mwlarge"] = &family{replay: mwLargeReplay}
}

func mwLargeReplay(in io.Reader, raw bool, args []string) (*Summary, error) {
	sum := &Summary{Rule: "one case per (n1, n2) emitted by TLC with the exact BigInt count vector of the untied null distribution; UDist{n1,n2}.PMF/CDF are compared at ~80 points spread over the range (both halves, the centre, the ends) and MannWhitneyUTest is called on random untied samples whose U is counted pair by pair; non-trivial = n1, n2 >= 20"}
	rng := rand.New(rand.NewSource(baseSeed))
	err := forEachCase(in, raw, func(c json.RawMessage) {
		var lc struct {
			N1  int     `json:"n1"`
			N2  int     `json:"n2"`
			Cnt [][]int `json:"cnt"`
			Den []int   `json:"den"`
		}
		if e := json.Unmarshal(c, &lc); e != nil || lc.N1 == 0 {
			sum.viol("machinery", c, "bad case: %v", e)
			return
		}
		sum.Cases++
		small := json.RawMessage(`{"n1":` + itoa(lc.N1) + `,"n2":` + itoa(lc.N2) + `}`)
		if lc.N1 >= 20 && lc.N2 >= 20 {
			sum.Nontrivial++
		}
		sum.sample(small)
		defer func() {
			if r := recover(); r != nil {
				sum.viol("panic", small, "panic: %v", r)
			}
		}()
		den := fromLimbs(lc.Den)
		top := lc.N1 * lc.N2
		cum := make([]*big.Int, top+1)
		acc := new(big.Int)
		cnt := make([]*big.Int, top+1)
		for u := 0; u <= top; u++ {
			cnt[u] = fromLimbs(lc.Cnt[u])
			acc = new(big.Int).Add(acc, cnt[u])
			cum[u] = acc
		}
		us := map[int]bool{0: true, 1: true, top: true, top - 1: true, top / 2: true, top/2 + 1: true, top/2 - 1: true}
		for len(us) < 80 && len(us) < top+1 {
			us[rng.Intn(top+1)] = true
		}
		for _, T := range [][]int{nil} {
			d := stats.UDist{N1: lc.N1, N2: lc.N2, T: T}
			for u := range us {
				if u < 0 || u > top {
					continue
				}
				sum.Checks++
				wc := new(big.Rat).SetFrac(cum[u], den)
				wp := new(big.Rat).SetFrac(cnt[u], den)
				if got := d.CDF(float64(u)); !closeRat(got, wc, 1e-12, 1e-9) {
					sum.viol("CDF-large", small, "UDist{%d,%d}.CDF(%d)=%.15g want %.15g", lc.N1, lc.N2, u, got, rf(wc))
				}
				if got := d.CDF(float64(u) + 0.5); !closeRat(got, wc, 1e-12, 1e-9) {
					sum.viol("CDF-large", small, "UDist{%d,%d}.CDF(%v)=%.15g want %.15g", lc.N1, lc.N2, float64(u)+0.5, got, rf(wc))
				}
				if got := d.PMF(float64(u)); !closeRat(got, wp, 1e-12, 1e-9) {
					sum.viol("PMF-large", small, "UDist{%d,%d}.PMF(%d)=%.15g want %.15g", lc.N1, lc.N2, u, got, rf(wp))
				}
			}
		}
		// MannWhitneyUTest on random untied samples of these sizes (exact method at the default limits)
		if lc.N1 <= stats.MannWhitneyExactLimit && lc.N2 <= stats.MannWhitneyExactLimit {
			for rep := 0; rep < 6; rep++ {
				perm := rng.Perm(lc.N1 + lc.N2)
				x1, x2 := make([]float64, lc.N1), make([]float64, lc.N2)
				shift := 0.0
				if rep%2 == 1 {
					shift = float64(lc.N1+lc.N2) * 0.15 // some separation so that small tails occur too
				}
				for i := range x1 {
					x1[i] = float64(perm[i])*1.5 + 0.25 + shift
				}
				for i := range x2 {
					x2[i] = float64(perm[lc.N1+i]) * 1.5
				}
				u := 0
				for _, a := range x1 {
					for _, b := range x2 {
						if a > b {
							u++
						}
					}
				}
				for _, alt := range mwAlts {
					sum.Checks++
					res, err := stats.MannWhitneyUTest(x1, x2, alt)
					if err != nil || res == nil {
						sum.viol("error", small, "unexpected error %v", err)
						continue
					}
					if res.U != float64(u) {
						sum.viol("U", small, "U=%v want %d", res.U, u)
						continue
					}
					le := new(big.Int).Set(cum[u])
					ge := new(big.Int).Sub(den, cum[u])
					ge.Add(ge, cnt[u])
					var num *big.Int
					switch alt {
					case stats.LocationLess:
						num = le
					case stats.LocationGreater:
						num = ge
					default:
						num = new(big.Int).Set(le)
						if ge.Cmp(le) < 0 {
							num.Set(ge)
						}
						num.Mul(num, big.NewInt(2))
						if num.Cmp(den) > 0 {
							num.Set(den)
						}
					}
					want := new(big.Rat).SetFrac(num, den)
					if !closeRat(res.P, want, 1e-12, 1e-9) {
						sum.viol("P-large", small, "sizes %d+%d alt %v U=%d: P=%.15g want %.15g", lc.N1, lc.N2, alt, u, res.P, rf(want))
					}
				}
			}
		}
	})
	return sum, err
}
