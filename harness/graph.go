package main

// Families graph (C18), dom (C19), sub (C18 subgraphs): replay of the cases emitted by
// spec/graph/Graph.tla into graph, graphalg.

import (
	"encoding/json"
	"fmt"
	"io"
	"math/rand"
	"reflect"
	"sort"
	"sync/atomic"
	"time"

	"github.com/aclements/go-moremath/graph"
	"github.com/aclements/go-moremath/graph/graphalg"
	"github.com/aclements/go-moremath/graph/graphout"
)

func init() {
	families["graph"] = &family{replay: func(in io.Reader, raw bool, a []string) (*Summary, error) { return graphReplay(in, raw, a, "graph") }}
	families["dom"] = &family{replay: func(in io.Reader, raw bool, a []string) (*Summary, error) { return graphReplay(in, raw, a, "dom") }}
	families["sub"] = &family{replay: subReplay}
}

type rootRec struct {
	R           int     `json:"r"`
	Pre         []int   `json:"pre"`
	Post        []int   `json:"post"`
	Eul         []int   `json:"eul"`
	Reach       []int   `json:"reach"`
	IDom        []int   `json:"idom"`
	DF          [][]int `json:"df"`
	RootIn      int     `json:"rootin"`
	RootInReach int     `json:"rootinreach"`
}
type graphCase struct {
	N      int       `json:"n"`
	Adj    [][]int   `json:"adj"`
	Roots  []rootRec `json:"roots"`
	Comp   [][]int   `json:"comp"`
	CEdges [][]int   `json:"cedges"`
	InBag  [][]int   `json:"inbag"`
}

// sparse is a graph with n nodes of which only a few have edges (padding with isolated nodes).
type sparse struct {
	n   int
	out map[int][]int
}

func (s *sparse) NumNodes() int   { return s.n }
func (s *sparse) Out(i int) []int { return s.out[i] }

// watchdog: a call into the library that does not return is a violation (termination clause).
var (
	wdProgress uint64
	wdCase     atomic.Value
)

func startWatchdog(sum *Summary, limit time.Duration) {
	go func() {
		last := atomic.LoadUint64(&wdProgress)
		lastT := time.Now()
		for {
			time.Sleep(500 * time.Millisecond)
			p := atomic.LoadUint64(&wdProgress)
			if p != last {
				last, lastT = p, time.Now()
				continue
			}
			if c, ok := wdCase.Load().(json.RawMessage); ok && time.Since(lastT) > limit {
				sum.viol("hang", c, "a library call did not return within %v", limit)
				b, _ := json.Marshal(sum)
				fmt.Println(string(b))
				exitNow(0)
			}
		}
	}()
}

var exitNow = func(code int) { panic(fmt.Sprint("exit ", code)) }

func sortedCopy(x []int) []int {
	y := append([]int{}, x...)
	sort.Ints(y)
	return y
}
func intsEq(a, b []int) bool {
	if len(a) != len(b) {
		return false
	}
	for i := range a {
		if a[i] != b[i] {
			return false
		}
	}
	return true
}
func copyAdj(a [][]int) [][]int {
	out := make([][]int, len(a))
	for i := range a {
		out[i] = append([]int{}, a[i]...)
	}
	return out
}

// placements of the n small-graph nodes inside a larger id space
func placements(n int, heavy bool) [][]int {
	mk := func(base, stride int) []int {
		p := make([]int, n)
		for i := range p {
			p[i] = base + i*stride
		}
		return p
	}
	ps := [][]int{mk(0, 1), mk(31, 1), mk(1021, 2)}
	if heavy {
		ps = append(ps, mk(2046, 1), mk(65533, 3), mk(3, 700))
	}
	return ps
}

func graphReplay(in io.Reader, raw bool, args []string, which string) (*Summary, error) {
	sum := &Summary{}
	if which == "graph" {
		sum.Rule = "one case per digraph (ordered adjacency lists) emitted by TLC with pre/post/Euler orders for every root, SCC partition, condensation edges and predecessor bags; non-trivial = at least 2 nodes and 2 edges; each case also runs padded with isolated nodes (ids crossing 32/1024/2048/65536) and with permuted/duplicated adjacency lists for the order-insensitive observables"
	} else {
		sum.Rule = "one case per digraph emitted by TLC with IDom and DomFrontier (node-deletion definition) for every root; non-trivial = at least 3 nodes and 2 edges; each (graph, root) also runs with permuted adjacency lists, parallel edges and padded ids; every call under recover and a watchdog"
	}
	rng := rand.New(rand.NewSource(baseSeed))
	startWatchdog(sum, 20*time.Second)
	idx := 0
	err := forEachCase(in, raw, func(c json.RawMessage) {
		var gc graphCase
		if e := json.Unmarshal(c, &gc); e != nil || gc.N == 0 || len(gc.Adj) != gc.N {
			sum.viol("machinery", c, "bad case record: %v", e)
			return
		}
		wdCase.Store(c)
		sum.Cases++
		idx++
		ne := 0
		for _, l := range gc.Adj {
			ne += len(l)
		}
		if (which == "graph" && gc.N >= 2 && ne >= 2) || (which == "dom" && gc.N >= 3 && ne >= 2) {
			sum.Nontrivial++
			if sum.Nontrivial%2003 == 1 {
				sum.sample(c)
			}
		}
		heavy := idx%16 == 0
		func() {
			defer func() {
				if r := recover(); r != nil {
					sum.viol("panic", c, "panic: %v", r)
				}
			}()
			if which == "graph" {
				graphCheck(sum, c, &gc, rng, heavy)
			} else {
				domCheck(sum, c, &gc, rng, heavy)
			}
		}()
		atomic.AddUint64(&wdProgress, 1)
	})
	return sum, err
}

func mapInts(xs []int, p []int) []int {
	out := make([]int, len(xs))
	for i, x := range xs {
		out[i] = p[x]
	}
	return out
}

func place(gc *graphCase, p []int) *sparse {
	s := &sparse{n: p[len(p)-1] + 1, out: map[int][]int{}}
	for i, l := range gc.Adj {
		s.out[p[i]] = mapInts(l, p)
	}
	return s
}

// variant returns adjacency lists with each list permuted and (optionally) some edges duplicated.
func variant(adj [][]int, rng *rand.Rand, dup bool) [][]int {
	out := copyAdj(adj)
	for i := range out {
		if dup && len(out[i]) > 0 && rng.Intn(2) == 0 {
			out[i] = append(out[i], out[i][rng.Intn(len(out[i]))])
		}
		rng.Shuffle(len(out[i]), func(a, b int) { out[i][a], out[i][b] = out[i][b], out[i][a] })
	}
	return out
}

func graphCheck(sum *Summary, c json.RawMessage, gc *graphCase, rng *rand.Rand, heavy bool) {
	g := graph.IntGraph(copyAdj(gc.Adj))
	snap := copyAdj(gc.Adj)
	// --- depth-first orders and Euler tour, for every root and placement
	for _, p := range placements(gc.N, heavy) {
		var gg graph.Graph = g
		if p[0] != 0 || (gc.N > 1 && p[1] != 1) {
			gg = place(gc, p)
		}
		for _, rr := range gc.Roots {
			sum.Checks++
			if got := graphalg.PreOrder(gg, p[rr.R]); !intsEq(got, mapInts(rr.Pre, p)) {
				sum.viol("PreOrder", c, "root %d placement %v: got %v want %v", rr.R, p, got, mapInts(rr.Pre, p))
			}
			if got := graphalg.PostOrder(gg, p[rr.R]); !intsEq(got, mapInts(rr.Post, p)) {
				sum.viol("PostOrder", c, "root %d placement %v: got %v want %v", rr.R, p, got, mapInts(rr.Post, p))
			}
			var ev []int
			graphalg.Euler{Enter: func(n int) { ev = append(ev, n+1) }, Exit: func(n int) { ev = append(ev, -(n + 1)) }}.Visit(gg, p[rr.R])
			want := make([]int, len(rr.Eul))
			for i, e := range rr.Eul {
				if e > 0 {
					want[i] = p[e-1] + 1
				} else {
					want[i] = -(p[-e-1] + 1)
				}
			}
			if !intsEq(ev, want) {
				sum.viol("Euler", c, "root %d placement %v: got %v want %v", rr.R, p, ev, want)
			}
			// nil callbacks are allowed; Enter-only projection is the pre-order
			var en []int
			graphalg.Euler{Enter: func(n int) { en = append(en, n) }}.Visit(gg, p[rr.R])
			if !intsEq(en, mapInts(rr.Pre, p)) {
				sum.viol("Euler-enter", c, "root %d: Enter projection %v want %v", rr.R, en, mapInts(rr.Pre, p))
			}
			var ex []int
			graphalg.Euler{Exit: func(n int) { ex = append(ex, n) }}.Visit(gg, p[rr.R])
			if !intsEq(ex, mapInts(rr.Post, p)) {
				sum.viol("Euler-exit", c, "root %d: Exit projection %v want %v", rr.R, ex, mapInts(rr.Post, p))
			}
		}
	}
	// Reverse reverses in place and returns its argument
	if len(gc.Roots) > 0 {
		x := append([]int{}, gc.Roots[0].Pre...)
		y := graphalg.Reverse(x)
		for i := range x {
			if y[i] != gc.Roots[0].Pre[len(x)-1-i] {
				sum.viol("Reverse", c, "Reverse(%v) = %v", gc.Roots[0].Pre, y)
				break
			}
		}
	}
	// --- SCC, relational, on the graph itself and on a permuted/duplicated variant
	sccCheck(sum, c, gc, g, "as-given")
	sccCheck(sum, c, gc, graph.IntGraph(variant(gc.Adj, rng, true)), "permuted+dup")
	// --- transpose
	bg := graph.MakeBiGraph(g)
	for v := 0; v < gc.N; v++ {
		sum.Checks++
		cnt := make([]int, gc.N)
		for _, u := range bg.In(v) {
			if u < 0 || u >= gc.N {
				sum.viol("In", c, "In(%d) contains %d", v, u)
				continue
			}
			cnt[u]++
		}
		if !intsEq(cnt, gc.InBag[v]) {
			sum.viol("In", c, "In(%d)=%v: predecessor multiplicities %v want %v", v, bg.In(v), cnt, gc.InBag[v])
		}
	}
	if bg2 := graph.MakeBiGraph(bg); bg2 != bg {
		sum.viol("MakeBiGraph", c, "MakeBiGraph of a BiGraph is not the identity")
	}
	// --- Equal: multiset comparison of adjacency lists
	perm := variant(gc.Adj, rng, false)
	psnap := copyAdj(perm)
	sum.Checks++
	if !graph.Equal(g, graph.IntGraph(perm)) || !graph.Equal(graph.IntGraph(perm), g) {
		sum.viol("Equal", c, "Equal(g, permuted g) is false; permuted = %v", perm)
	}
	if !reflect.DeepEqual(perm, psnap) {
		sum.viol("Equal-modifies", c, "Equal modified its argument: %v -> %v", psnap, perm)
	}
	// change one target: equal iff the out-bags still agree
	for u := range gc.Adj {
		if len(gc.Adj[u]) == 0 || gc.N < 2 {
			continue
		}
		mut := copyAdj(perm)
		k := rng.Intn(len(mut[u]))
		mut[u][k] = (mut[u][k] + 1 + rng.Intn(gc.N-1)) % gc.N
		sum.Checks++
		want := intsEq(sortedCopy(mut[u]), sortedCopy(gc.Adj[u]))
		if got := graph.Equal(g, graph.IntGraph(mut)); got != want {
			sum.viol("Equal", c, "Equal(g, %v) = %v want %v", mut, got, want)
		}
	}
	if gc.N >= 1 {
		bigger := append(copyAdj(gc.Adj), []int{})
		if graph.Equal(g, graph.IntGraph(bigger)) {
			sum.viol("Equal", c, "Equal ignores an extra isolated node")
		}
	}
	// --- Dot document structure with default labels
	sum.Checks++
	if msg := dotDocCheck(graphout.Dot{}.Sprint(g), gc.Adj, func(i int) string { return fmt.Sprint(i) }); msg != "" {
		sum.viol("Dot", c, "%s", msg)
	}
	// --- SimplifyMulti with unit weights and with weights 2^i
	simplifyCheck(sum, c, gc, g, false)
	simplifyCheck(sum, c, gc, g, true)
	if !reflect.DeepEqual([][]int(g), snap) {
		sum.viol("argument-modified", c, "graph changed by a query: %v -> %v", snap, [][]int(g))
	}
}

type weighted struct {
	graph.IntGraph
}

func (w weighted) OutWeight(i, e int) float64 { return float64(int(1) << uint(e)) }

func simplifyCheck(sum *Summary, c json.RawMessage, gc *graphCase, g graph.IntGraph, w bool) {
	var in graph.Graph = g
	if w {
		in = weighted{g}
	}
	s := graphalg.SimplifyMulti(in)
	sum.Checks++
	if s.NumNodes() != gc.N {
		sum.viol("SimplifyMulti", c, "NumNodes %d want %d", s.NumNodes(), gc.N)
		return
	}
	for u := 0; u < gc.N; u++ {
		want := map[int]float64{}
		for i, v := range gc.Adj[u] {
			if w {
				want[v] += float64(int(1) << uint(i))
			} else {
				want[v]++
			}
		}
		got := map[int]float64{}
		for i, v := range s.Out(u) {
			if _, dup := got[v]; dup {
				sum.viol("SimplifyMulti", c, "node %d lists target %d twice: %v", u, v, s.Out(u))
			}
			got[v] = s.OutWeight(u, i)
		}
		if !reflect.DeepEqual(got, want) {
			sum.viol("SimplifyMulti", c, "node %d (weighted=%v): got %v want %v", u, w, got, want)
		}
	}
}

func sccCheck(sum *Summary, c json.RawMessage, gc *graphCase, g graph.IntGraph, tag string) {
	rep := make([]int, gc.N) // spec: least node of the component
	for u, comp := range gc.Comp {
		m := comp[0]
		for _, x := range comp {
			if x < m {
				m = x
			}
		}
		rep[u] = m
	}
	for _, flags := range []graphalg.SCCFlags{0, graphalg.SCCSubnodeComponent, graphalg.SCCEdges, graphalg.SCCEdges | graphalg.SCCSubnodeComponent} {
		sum.Checks++
		s := graphalg.SCC(g, flags)
		compOf := make([]int, gc.N)
		for i := range compOf {
			compOf[i] = -1
		}
		seen := 0
		for cid := 0; cid < s.NumNodes(); cid++ {
			sub := s.Subnodes(cid)
			if len(sub) == 0 {
				sum.viol("SCC", c, "%s flags %d: empty component %d", tag, flags, cid)
			}
			for _, x := range sub {
				if x < 0 || x >= gc.N || compOf[x] != -1 {
					sum.viol("SCC", c, "%s flags %d: node %d listed twice or out of range", tag, flags, x)
					return
				}
				compOf[x] = cid
				seen++
			}
		}
		if seen != gc.N {
			sum.viol("SCC", c, "%s flags %d: components cover %d of %d nodes", tag, flags, seen, gc.N)
			return
		}
		for u := 0; u < gc.N; u++ {
			for v := 0; v < gc.N; v++ {
				if (compOf[u] == compOf[v]) != (rep[u] == rep[v]) {
					sum.viol("SCC", c, "%s flags %d: nodes %d,%d same component = %v, mutual reachability says %v", tag, flags, u, v, compOf[u] == compOf[v], rep[u] == rep[v])
					return
				}
			}
		}
		// reverse topological numbering
		for u := range g {
			for _, v := range g[u] {
				if compOf[u] != compOf[v] && compOf[u] < compOf[v] {
					sum.viol("SCC-order", c, "%s flags %d: edge %d->%d goes from component %d to later component %d", tag, flags, u, v, compOf[u], compOf[v])
					return
				}
			}
		}
		if flags&(graphalg.SCCSubnodeComponent|graphalg.SCCEdges) != 0 {
			for u := 0; u < gc.N; u++ {
				if s.SubnodeComponent(u) != compOf[u] {
					sum.viol("SCC", c, "%s flags %d: SubnodeComponent(%d)=%d but Subnodes places it in %d", tag, flags, u, s.SubnodeComponent(u), compOf[u])
				}
			}
		}
		if flags&graphalg.SCCEdges != 0 {
			// expected: for component of rep a, the set of reps b with <<a,b>> in cedges
			cidOfRep := map[int]int{}
			for u := 0; u < gc.N; u++ {
				cidOfRep[rep[u]] = compOf[u]
			}
			want := map[int]map[int]bool{}
			for _, e := range gc.CEdges {
				a, b := cidOfRep[e[0]], cidOfRep[e[1]]
				if want[a] == nil {
					want[a] = map[int]bool{}
				}
				want[a][b] = true
			}
			for cid := 0; cid < s.NumNodes(); cid++ {
				got := map[int]bool{}
				for _, o := range s.Out(cid) {
					if got[o] {
						sum.viol("SCC-edges", c, "%s: Out(%d)=%v lists %d twice", tag, cid, s.Out(cid), o)
					}
					got[o] = true
				}
				w := want[cid]
				if w == nil {
					w = map[int]bool{}
				}
				if !reflect.DeepEqual(got, w) {
					sum.viol("SCC-edges", c, "%s: Out(%d)=%v want set %v", tag, cid, s.Out(cid), w)
				}
			}
		}
	}
}

func setEqExcept(got, want []int, dontcare int) bool {
	g, w := map[int]bool{}, map[int]bool{}
	for _, x := range got {
		if x != dontcare {
			g[x] = true
		}
	}
	for _, x := range want {
		if x != dontcare {
			w[x] = true
		}
	}
	return reflect.DeepEqual(g, w)
}

func domCheck(sum *Summary, c json.RawMessage, gc *graphCase, rng *rand.Rand, heavy bool) {
	type gv struct {
		name string
		adj  [][]int
	}
	vars := []gv{{"as-given", copyAdj(gc.Adj)}, {"permuted", variant(gc.Adj, rng, false)}, {"parallel", variant(gc.Adj, rng, true)}}
	for _, v := range vars {
		g := graph.IntGraph(v.adj)
		snap := copyAdj(v.adj)
		bg := graph.MakeBiGraph(g)
		for _, rr := range gc.Roots {
			sum.Checks++
			idom := graphalg.IDom(bg, rr.R)
			if !intsEq(idom, rr.IDom) {
				sum.viol("IDom", c, "%s root %d: got %v want %v (adj %v)", v.name, rr.R, idom, rr.IDom, v.adj)
				continue
			}
			// in-degree of the root in this variant, all predecessors and reachable ones only
			inAll, inReach := 0, 0
			reach := map[int]bool{}
			for _, x := range rr.Reach {
				reach[x] = true
			}
			for u, l := range v.adj {
				for _, t := range l {
					if t == rr.R {
						inAll++
						if reach[u] {
							inReach++
						}
					}
				}
			}
			dontcare := -1
			if inAll == 1 || inReach == 1 {
				dontcare = rr.R
			}
			for pass := 0; pass < 2; pass++ {
				var arg []int
				if pass == 1 {
					arg = append([]int{}, idom...)
				}
				df := graphalg.DomFrontier(bg, rr.R, arg)
				if len(df) != gc.N {
					sum.viol("DomFrontier", c, "%s root %d: %d entries for %d nodes", v.name, rr.R, len(df), gc.N)
					continue
				}
				for _, x := range rr.Reach {
					if !setEqExcept(df[x], rr.DF[x], dontcare) {
						sum.viol("DomFrontier", c, "%s root %d (idom supplied=%v): DF(%d)=%v want %v (root don't-care=%v) adj %v", v.name, rr.R, pass == 1, x, df[x], rr.DF[x], dontcare >= 0, v.adj)
					}
				}
				if pass == 1 && !intsEq(arg, idom) {
					sum.viol("argument-modified", c, "DomFrontier modified the supplied idom")
				}
			}
			// the same flow graph handed over as other concrete types: wrapped as a unit-weighted graph (not a BiGraph itself,
			// so MakeBiGraph has to build the predecessor lists), and as a BiGraph of the harness's own
			if v.name == "as-given" {
				for wi, og := range []graph.Graph{graph.WeightedUnit{Graph: g}, &ownBiGraph{g: g}, graph.WeightedUnit{Graph: &ownBiGraph{g: g}}} {
					ob := graph.MakeBiGraph(og)
					if id2 := graphalg.IDom(ob, rr.R); !intsEq(id2, rr.IDom) {
						sum.viol("IDom", c, "root %d, graph passed as %T (variant %d): got %v want %v (adj %v)", rr.R, og, wi, id2, rr.IDom, v.adj)
					}
					if df2 := graphalg.DomFrontier(ob, rr.R, nil); len(df2) == gc.N {
						for _, x := range rr.Reach {
							if !setEqExcept(df2[x], rr.DF[x], dontcare) {
								sum.viol("DomFrontier", c, "root %d, graph passed as %T: DF(%d)=%v want %v", rr.R, og, x, df2[x], rr.DF[x])
							}
						}
					} else {
						sum.viol("DomFrontier", c, "root %d, graph passed as %T: %d entries for %d nodes", rr.R, og, len(df2), gc.N)
					}
				}
			}
			// Dom: child lists invert IDom
			t := graphalg.Dom(idom)
			// the dominator tree is itself a flow graph (a BiGraph): from ANY root r2 the reachable nodes are r2's subtree, each
			// dominated immediately by its parent
			if v.name == "as-given" {
				kids := make([][]int, gc.N)
				for x, p := range rr.IDom {
					if p >= 0 {
						kids[p] = append(kids[p], x)
					}
				}
				for r2 := 0; r2 < gc.N; r2++ {
					want := make([]int, gc.N)
					for i := range want {
						want[i] = -1
					}
					stack := []int{r2}
					for len(stack) > 0 {
						p := stack[len(stack)-1]
						stack = stack[:len(stack)-1]
						for _, ch := range kids[p] {
							want[ch] = p
							stack = append(stack, ch)
						}
					}
					sum.Checks++
					if got := graphalg.IDom(t, r2); !intsEq(got, want) {
						sum.viol("IDom", c, "the dominator tree for root %d (idom %v) as a flow graph with root %d: IDom=%v want %v", rr.R, rr.IDom, r2, got, want)
					}
				}
			}
			if t.NumNodes() != gc.N {
				sum.viol("Dom", c, "NumNodes %d want %d", t.NumNodes(), gc.N)
			}
			childOf := map[int]int{}
			for p := 0; p < gc.N; p++ {
				for _, ch := range t.Out(p) {
					if _, dup := childOf[ch]; dup {
						sum.viol("Dom", c, "%s root %d: node %d is a child twice", v.name, rr.R, ch)
					}
					childOf[ch] = p
				}
			}
			for x := 0; x < gc.N; x++ {
				if t.IDom(x) != rr.IDom[x] {
					sum.viol("Dom", c, "%s root %d: tree IDom(%d)=%d want %d", v.name, rr.R, x, t.IDom(x), rr.IDom[x])
				}
				if in := t.In(x); len(in) != 1 || in[0] != rr.IDom[x] {
					sum.viol("Dom", c, "%s root %d: In(%d)=%v want [%d]", v.name, rr.R, x, in, rr.IDom[x])
				}
				p, has := childOf[x]
				if (rr.IDom[x] == -1) == has || (has && p != rr.IDom[x]) {
					sum.viol("Dom", c, "%s root %d: node %d child of %d (listed=%v) but idom is %d", v.name, rr.R, x, p, has, rr.IDom[x])
				}
			}
		}
		if !reflect.DeepEqual(v.adj, snap) {
			sum.viol("argument-modified", c, "graph changed by IDom/DomFrontier/Dom")
		}
	}
	// padded ids (IDom allocates per node, so only on a subset of cases)
	if heavy {
		for _, p := range [][]int{placements(gc.N, true)[2], placements(gc.N, true)[5]} {
			sg := place(gc, p)
			bg := graph.MakeBiGraph(sg)
			for _, rr := range gc.Roots {
				sum.Checks++
				idom := graphalg.IDom(bg, p[rr.R])
				for x := 0; x < gc.N; x++ {
					want := rr.IDom[x]
					if want >= 0 {
						want = p[want]
					}
					if idom[p[x]] != want {
						sum.viol("IDom", c, "placement %v root %d: idom[%d]=%d want %d", p, rr.R, p[x], idom[p[x]], want)
					}
				}
				// Dom: child lists invert IDom, each child once; same numbering
				func() {
					defer func() {
						if r := recover(); r != nil {
							sum.viol("Dom", c, "placement %v root %d: Dom(%v) panics: %v", p, rr.R, idom, r)
						}
					}()
					t := graphalg.Dom(append([]int{}, idom...))
					if t.NumNodes() != len(idom) {
						sum.viol("Dom", c, "NumNodes %d want %d", t.NumNodes(), len(idom))
						return
					}
					for x := range idom {
						var want []int
						for v, d := range idom {
							if d == x {
								want = append(want, v)
							}
						}
						got := append([]int{}, t.Out(x)...)
						sort.Ints(got)
						if !intsEq(got, want) || t.IDom(x) != idom[x] {
							sum.viol("Dom", c, "placement %v root %d: children of %d = %v want %v (idom %v); tree IDom(%d)=%d", p, rr.R, x, t.Out(x), want, idom, x, t.IDom(x))
						}
					}
				}()
				df := graphalg.DomFrontier(bg, p[rr.R], idom)
				dontcare := -1
				if rr.RootIn == 1 || rr.RootInReach == 1 {
					dontcare = p[rr.R]
				}
				for _, x := range rr.Reach {
					if !setEqExcept(df[p[x]], mapInts(rr.DF[x], p), dontcare) {
						sum.viol("DomFrontier", c, "placement %v root %d: DF(%d)=%v want %v", p, rr.R, p[x], df[p[x]], mapInts(rr.DF[x], p))
					}
				}
			}
		}
	}
}

// ---- subgraphs ----

type subOut struct {
	To  int `json:"to"`
	Old int `json:"old"`
}
type subNode struct {
	Old int      `json:"old"`
	Out []subOut `json:"out"`
}
type subReq struct {
	Nodes []int     `json:"nodes"`
	Edges [][]int   `json:"edges"`
	Res   []subNode `json:"res"`
}
type subCase struct {
	N      int      `json:"n"`
	Adj    [][]int  `json:"adj"`
	Remove []subReq `json:"remove"`
	Keep   []subReq `json:"keep"`
}

func subReplay(in io.Reader, raw bool, args []string) (*Summary, error) {
	sum := &Summary{Rule: "one case per digraph emitted by TLC with SubgraphRemove requests for every node subset and SubgraphKeep requests for every non-empty node subset (nodes listed descending, edges in reverse order); non-trivial = graph has >= 2 nodes and >= 1 edge"}
	err := forEachCase(in, raw, func(c json.RawMessage) {
		var sc subCase
		if e := json.Unmarshal(c, &sc); e != nil || sc.N == 0 {
			sum.viol("machinery", c, "bad case record: %v", e)
			return
		}
		sum.Cases++
		ne := 0
		for _, l := range sc.Adj {
			ne += len(l)
		}
		if sc.N >= 2 && ne >= 1 {
			sum.Nontrivial++
			if sum.Nontrivial%1009 == 1 {
				sum.sample(c)
			}
		}
		g := graph.IntGraph(copyAdj(sc.Adj))
		run := func(kind string, rq subReq) {
			defer func() {
				if r := recover(); r != nil {
					sum.viol("panic", c, "%s nodes %v edges %v: panic %v", kind, rq.Nodes, rq.Edges, r)
				}
			}()
			sum.Checks++
			edges := make([]graph.Edge, len(rq.Edges))
			for i, e := range rq.Edges {
				edges[i] = graph.Edge{Node: e[0], Edge: e[1]}
			}
			nodes := append([]int{}, rq.Nodes...)
			esnap := append([]graph.Edge{}, edges...)
			var s graph.Subgraph
			if kind == "remove" {
				s = graph.SubgraphRemove(g, nodes, edges)
			} else {
				s = graph.SubgraphKeep(g, nodes, edges)
			}
			if !intsEq(nodes, rq.Nodes) || !reflect.DeepEqual(edges, esnap) {
				sum.viol("argument-modified", c, "%s modified its request slices", kind)
			}
			if s.NumNodes() != len(rq.Res) {
				sum.viol("Subgraph", c, "%s nodes %v edges %v: NumNodes %d want %d", kind, rq.Nodes, rq.Edges, s.NumNodes(), len(rq.Res))
				return
			}
			if ug, ok := s.Underlying().(graph.IntGraph); !ok || !reflect.DeepEqual([][]int(ug), [][]int(g)) {
				sum.viol("Subgraph", c, "%s: Underlying is not the original graph", kind)
			}
			// the request slices belong to the caller, who may reuse them at once: from here on they hold other data
			for i := range nodes {
				nodes[i] = (nodes[i]*5 + 3) % (len(sc.Adj) + 1)
			}
			for i := range edges {
				edges[i] = graph.Edge{Node: -1 - i, Edge: 99}
			}
			nm := s.NodeMap(func(n int) interface{} { return n*7 + 1 })
			em := s.EdgeMap(func(n, e int) interface{} { return n*1000 + e })
			for i, rn := range rq.Res {
				want := make([]int, len(rn.Out))
				for j, o := range rn.Out {
					want[j] = o.To
				}
				if !intsEq(s.Out(i), want) {
					sum.viol("Subgraph", c, "%s nodes %v edges %v: Out(%d)=%v want %v", kind, rq.Nodes, rq.Edges, i, s.Out(i), want)
					continue
				}
				if got := nm(i); got != rn.Old*7+1 {
					sum.viol("NodeMap", c, "%s nodes %v: NodeMap(%d)=%v want original node %d", kind, rq.Nodes, i, got, rn.Old)
				}
				for j, o := range rn.Out {
					if got := em(i, j); got != rn.Old*1000+o.Old {
						sum.viol("EdgeMap", c, "%s nodes %v edges %v: EdgeMap(%d,%d)=%v want original edge (%d,%d)", kind, rq.Nodes, rq.Edges, i, j, got, rn.Old, o.Old)
					}
				}
			}
		}
		for _, rq := range sc.Remove {
			run("remove", rq)
			// the same set of nodes and edges named by a list with repetitions (first id again at the end, then the whole list
			// once more in reverse): "the given nodes" is a set however it is written down
			if len(rq.Nodes) > 0 || len(rq.Edges) > 0 {
				dup := rq
				dup.Nodes = append([]int{}, rq.Nodes...)
				if len(rq.Nodes) > 0 {
					dup.Nodes = append(dup.Nodes, rq.Nodes[0])
				}
				for i := len(rq.Nodes) - 1; i >= 0; i-- {
					dup.Nodes = append(dup.Nodes, rq.Nodes[i])
				}
				dup.Edges = append(append([][]int{}, rq.Edges...), rq.Edges...)
				run("remove", dup)
			}
		}
		for _, rq := range sc.Keep {
			run("keep", rq)
		}
		if !reflect.DeepEqual([][]int(g), sc.Adj) {
			sum.viol("argument-modified", c, "graph changed by Subgraph*")
		}
	})
	return sum, err
}

// ownBiGraph: a BiGraph implemented by the harness (predecessor lists computed on demand, no caching).
type ownBiGraph struct{ g graph.IntGraph }

func (o *ownBiGraph) NumNodes() int   { return o.g.NumNodes() }
func (o *ownBiGraph) Out(i int) []int { return o.g.Out(i) }
func (o *ownBiGraph) In(i int) []int {
	var in []int
	for u := range o.g {
		for _, t := range o.g[u] {
			if t == i {
				in = append(in, u)
			}
		}
	}
	return in
}
