package main

// Family fit (C15): fit.LinearLeastSquares, PolynomialRegression, LOESS against spec/fit/Fit.tla.

import (
	"encoding/json"
	"fmt"
	"io"
	"math"
	"math/big"
	"math/rand"
	"sort"
	"strings"

	"github.com/aclements/go-moremath/fit"
	"gonum.org/v1/gonum/mat"
)

func init() {
	families["fit"] = &family{replay: fitReplay}
}

type fitCase struct {
	Kind  string          `json:"kind"`
	Xs    []int64         `json:"xs"`
	Basis string          `json:"basis"`
	X     [][]int64       `json:"X"`
	W     []int64         `json:"w"`
	Y     []int64         `json:"y"`
	A     [][]SBig        `json:"A"`
	B     []SBig          `json:"b"`
	Num   json.RawMessage `json:"num"`
	Den   SBig            `json:"den"`
	Deg   int             `json:"deg"`
	Span  [2]int64        `json:"span"`
	Q0    int64           `json:"q0"`
	Q     int             `json:"q"`
}

func bigF(b SBig) float64 {
	f, _ := new(big.Float).SetInt(b.Int()).Float64()
	return f
}

// condA: 1-norm condition number of the (exact integer) normal matrix, in float64.
func condA(A [][]SBig) float64 {
	p := len(A)
	d := make([]float64, 0, p*p)
	for i := 0; i < p; i++ {
		for j := 0; j < p; j++ {
			d = append(d, bigF(A[i][j]))
		}
	}
	c := mat.Cond(mat.NewDense(p, p, d), 1)
	if math.IsNaN(c) || math.IsInf(c, 0) {
		return 1e300
	}
	return c
}

var fitWorst = map[string]float64{}

// results handed out earlier must stay what they were when later fits run (no recycled result storage)
var fitKept []struct {
	live, copy []float64
	f          func(float64) float64
	fAt, fVal  float64
}

func fitCheckKept(sum *Summary, c json.RawMessage) {
	for _, k := range fitKept {
		if !bitsEqual(k.live, k.copy) {
			sum.viol("result-overwritten", c, "coefficients returned by an earlier fit changed from %v to %v after later fits", k.copy, k.live)
		}
		if k.f != nil {
			if v := k.f(k.fAt); math.Float64bits(v) != math.Float64bits(k.fVal) {
				sum.viol("result-overwritten", c, "F of an earlier PolynomialRegression now gives %v at %v, it gave %v", v, k.fAt, k.fVal)
			}
		}
	}
	if len(fitKept) > 8 {
		fitKept = fitKept[len(fitKept)-8:]
	}
}

var fitBufX, fitBufY = make([]float64, 64), make([]float64, 64)
var fitPrev = map[int][2][]float64{}

func fitReplay(in io.Reader, raw bool, args []string) (*Summary, error) {
	sum := &Summary{Rule: "one case per (abscissae, basis or LOESS degree/span/query, generating polynomial, perturbation, weight pattern) emitted by TLC with the exact normal equations and their exact solution; non-trivial = more data points than parameters and non-polynomial (perturbed) data; tolerances are max(1e-9, 16 eps cond(A)) relative to the solution's magnitude (LOESS: 1e-9 of the data magnitude)"}
	rng := rand.New(rand.NewSource(baseSeed))
	err := forEachCase(in, raw, func(c json.RawMessage) {
		var fc fitCase
		if e := json.Unmarshal(c, &fc); e != nil || len(fc.Xs) == 0 {
			sum.viol("machinery", c, "bad case: %v", e)
			return
		}
		sum.Cases++
		defer func() {
			if r := recover(); r != nil {
				sum.viol("panic", c, "panic: %v", r)
			}
		}()
		xs := make([]float64, len(fc.Xs))
		ys := make([]float64, len(fc.Y))
		for i := range xs {
			xs[i], ys[i] = float64(fc.Xs[i]), float64(fc.Y[i])
		}
		den := fc.Den.Int()
		if fc.Kind == "lls" {
			var nums []SBig
			json.Unmarshal(fc.Num, &nums)
			p := len(nums)
			if len(xs) > p {
				sum.Nontrivial++
				if sum.Nontrivial%397 == 1 {
					sum.sample(c)
				}
			}
			exact := make([]*big.Rat, p)
			mag := 1.0
			for j := range nums {
				exact[j] = new(big.Rat).SetFrac(nums[j].Int(), den)
				mag = math.Max(mag, math.Abs(rf(exact[j])))
			}
			var w []float64
			if len(fc.W) > 0 {
				w = make([]float64, len(fc.W))
				for i := range w {
					w[i] = float64(fc.W[i])
				}
			}
			// scalings under which the minimiser transforms exactly: weights w -> k w leave it unchanged,
			// basis column j -> c_j * column j divides coefficient j by c_j (c_j = s^j: the design x -> s x for monomials)
			for _, sc := range []struct{ s, k float64 }{{1, 1}, {1, 1e-9}, {0.01, 1}, {100, 1e6}, {0.5, 1e-6}} {
				if sc.k != 1 && w == nil {
					continue
				}
				cs := make([]float64, p)
				for j := range cs {
					cs[j] = math.Pow(sc.s, float64(j))
				}
				// condition number of the scaled normal matrix A'_jk = k c_j c_k A_jk
				ad := make([]float64, 0, p*p)
				for i := 0; i < p; i++ {
					for j := 0; j < p; j++ {
						ad = append(ad, bigF(fc.A[i][j])*cs[i]*cs[j]*sc.k)
					}
				}
				cond := mat.Cond(mat.NewDense(p, p, ad), 1)
				if math.IsNaN(cond) || math.IsInf(cond, 0) {
					cond = 1e300
				}
				if cond > 1e11 {
					continue // outside "well-conditioned designs"
				}
				want := make([]float64, p)
				smag := 0.0
				for j := range want {
					want[j] = rf(exact[j]) / cs[j]
					smag = math.Max(smag, math.Abs(want[j]))
				}
				var sw2 []float64
				if w != nil {
					sw2 = make([]float64, len(w))
					for i := range w {
						sw2[i] = w[i] * sc.k
					}
				}
				terms := make([]func(xs, out []float64), p)
				for j := 0; j < p; j++ {
					j := j
					terms[j] = func(_, out []float64) {
						for i := range out {
							out[i] = float64(fc.X[i][j]) * cs[j]
						}
					}
				}
				sx, sy, sw := append([]float64{}, xs...), append([]float64{}, ys...), append([]float64{}, sw2...)
				sum.Checks++
				got := fit.LinearLeastSquares(xs, ys, sw2, terms...)
				fitCheckKept(sum, c)
				fitKept = append(fitKept, struct {
					live, copy []float64
					f          func(float64) float64
					fAt, fVal  float64
				}{got, append([]float64{}, got...), nil, 0, 0})
				if len(got) != p {
					sum.viol("LLS", c, "%d parameters, want %d", len(got), p)
					return
				}
				for j := range got {
					// each coefficient relative to its own scale: |beta_j| c_j compared on the common (unscaled) footing
					tolj := math.Max(1e-9, 16*eps*cond) * math.Max(mag, 1) / cs[j]
					if r := math.Abs(got[j]-want[j]) / tolj; r > fitWorst["lls"] {
						fitWorst["lls"] = r
					}
					if math.Abs(got[j]-want[j]) > tolj || math.IsNaN(got[j]) {
						sum.viol("LLS", c, "column scale %g weight scale %g: beta[%d]=%.12g want %.12g (tol %.3g, cond %.3g)", sc.s, sc.k, j, got[j], want[j], tolj, cond)
					}
				}
				// normal equations on the returned floats: |A' beta - b'|_j small relative to the terms
				for j := 0; j < p; j++ {
					s, scale := -bigF(fc.B[j])*cs[j]*sc.k, math.Abs(bigF(fc.B[j])*cs[j]*sc.k)
					for k := 0; k < p; k++ {
						akj := bigF(fc.A[j][k]) * cs[j] * cs[k] * sc.k
						s += akj * got[k]
						scale += math.Abs(akj) * math.Max(mag, 1) / cs[k]
					}
					if math.Abs(s) > math.Max(1e-9, 16*eps*cond)*scale {
						sum.viol("LLS-normal-equations", c, "column scale %g weight scale %g row %d: residual %.3g against scale %.3g", sc.s, sc.k, j, s, scale)
					}
				}
				if !bitsEqual(xs, sx) || !bitsEqual(ys, sy) || !bitsEqual(sw2, sw) {
					sum.viol("argument-modified", c, "LinearLeastSquares changed its inputs")
				}
			}
			cond := condA(fc.A)
			tol := math.Max(1e-9, 16*eps*cond) * mag
			sx, sy, sw := append([]float64{}, xs...), append([]float64{}, ys...), append([]float64{}, w...)
			if strings.HasPrefix(fc.Basis, "poly") {
				deg := p - 1
				pr := fit.PolynomialRegression(xs, ys, w, deg)
				fitCheckKept(sum, c)
				fitKept = append(fitKept, struct {
					live, copy []float64
					f          func(float64) float64
					fAt, fVal  float64
				}{pr.Coefficients, append([]float64{}, pr.Coefficients...), pr.F, 0.75, pr.F(0.75)})
				// the same two buffers refilled with each case's data, as a caller looping over data sets would do
				if len(xs) <= len(fitBufX) {
					bx, by := fitBufX[:len(xs)], fitBufY[:len(xs)]
					if prev, ok := fitPrev[len(xs)]; ok {
						// the previous data set of this size, fitted in the same buffers immediately before
						copy(bx, prev[0])
						copy(by, prev[1])
						fit.PolynomialRegression(bx, by, nil, deg)
					}
					fitPrev[len(xs)] = [2][]float64{append([]float64{}, xs...), append([]float64{}, ys...)}
					copy(bx, xs)
					copy(by, ys)
					pb := fit.PolynomialRegression(bx, by, w, deg)
					for j := range pb.Coefficients {
						if j < len(exact) && !closeRat(pb.Coefficients[j], exact[j], tol, 0) {
							sum.viol("PolynomialRegression-reused-buffer", c, "degree %d on refilled buffers: Coefficients[%d]=%.12g want %.12g", deg, j, pb.Coefficients[j], rf(exact[j]))
							break
						}
					}
				}
				sum.Checks++
				if len(pr.Coefficients) != p {
					sum.viol("PolynomialRegression", c, "%d coefficients, want %d", len(pr.Coefficients), p)
				} else {
					for j := range pr.Coefficients {
						if !closeRat(pr.Coefficients[j], exact[j], tol, 0) {
							sum.viol("PolynomialRegression", c, "degree %d: Coefficients[%d]=%.12g want %.12g (tol %.3g)", deg, j, pr.Coefficients[j], rf(exact[j]), tol)
						}
					}
					for _, x := range []float64{-2.5, 0, 0.75, 3, 7} {
						want := 0.0
						for j := p - 1; j >= 0; j-- {
							want = want*x + pr.Coefficients[j]
						}
						if got := pr.F(x); !closeF(got, want, 1e-9*mag, 1e-9) {
							sum.viol("PolynomialRegression-F", c, "F(%v)=%.12g but the returned Coefficients give %.12g", x, got, want)
						}
					}
				}
			}
			if !bitsEqual(xs, sx) || !bitsEqual(ys, sy) || !bitsEqual(w, sw) {
				sum.viol("argument-modified", c, "LinearLeastSquares/PolynomialRegression changed its inputs")
			}
			return
		}
		// LOESS
		var num SBig
		json.Unmarshal(fc.Num, &num)
		exact := new(big.Rat).SetFrac(num.Int(), den)
		if fc.Q > fc.Deg+1 {
			sum.Nontrivial++
			if sum.Nontrivial%397 == 2 {
				sum.sample(c)
			}
		}
		maxy := 1.0
		for _, y := range ys {
			maxy = math.Max(maxy, math.Abs(y))
		}
		span := float64(fc.Span[0]) / float64(fc.Span[1])
		x0 := float64(fc.Q0) / 2
		// tolerance: the local problem is solved through its normal equations with tricube weights that
		// may span many orders of magnitude; scale by the value's and the data's magnitude
		tol := 1e-9 * math.Max(maxy, math.Abs(rf(exact)))
		for pass := 0; pass < 2; pass++ {
			px, py := append([]float64{}, xs...), append([]float64{}, ys...)
			if pass == 1 {
				rng.Shuffle(len(px), func(i, j int) { px[i], px[j] = px[j], px[i]; py[i], py[j] = py[j], py[i] })
			}
			px, okx := guarded(px)
			py, oky := guarded(py)
			sum.Checks++
			f := fit.LOESS(px, py, fc.Deg, span)
			got := f(x0)
			fitCheckKept(sum, c)
			if r := math.Abs(got-rf(exact)) / tol; r > fitWorst["loess"] {
				fitWorst["loess"] = r
			}
			if !closeRat(got, exact, tol, 0) {
				sum.viol("LOESS", c, "pass %d: LOESS(deg %d, span %v)(%v)=%.12g want %.12g", pass, fc.Deg, span, x0, got, rf(exact))
			}
			if !okx() || !oky() {
				sum.viol("argument-modified", c, "LOESS changed its inputs (or the spare capacity behind them)")
			}
			// "depends only on the ceil(span*n) data points nearest the query": whatever the other points hold - huge values,
			// infinities, NaN - the value at x0 stays what it was (skipped when the window's edge is a tie in distance)
			if pass == 0 {
				n := len(xs)
				q := int(math.Ceil(span * float64(n)))
				if q >= 1 && q < n {
					ord := make([]int, n)
					for i := range ord {
						ord[i] = i
					}
					sort.Slice(ord, func(a, b int) bool { return math.Abs(xs[ord[a]]-x0) < math.Abs(xs[ord[b]]-x0) })
					if math.Abs(xs[ord[q-1]]-x0) < math.Abs(xs[ord[q]]-x0) {
						for _, junk := range []float64{-1e300, math.Inf(1), math.NaN()} {
							jy := append([]float64{}, ys...)
							for _, i := range ord[q:] {
								jy[i] = junk
							}
							sum.Checks++
							if g2 := fit.LOESS(append([]float64{}, xs...), jy, fc.Deg, span)(x0); !(math.Abs(g2-got) <= tol) {
								sum.viol("LOESS-window", c, "LOESS(deg %d, span %v)(%v)=%.12g, but %.12g once the %d points outside its window of %d hold %v", fc.Deg, span, x0, got, g2, n-q, q, junk)
							}
						}
					}
				}
			}
			// one smoother evaluated along a non-monotone query sequence (descending, a step back, far jumps): each value
			// must be what a freshly built smoother returns for that point (the specification's value at x0 among them)
			if pass == 0 {
				lo, hi := xs[0], xs[0]
				for _, x := range xs {
					lo, hi = math.Min(lo, x), math.Max(hi, x)
				}
				var qs []float64
				for k := 8; k >= 0; k-- {
					qs = append(qs, lo+(hi-lo)*float64(k)/8)
				}
				qs = append(qs, x0, hi, x0-0.25, lo, x0+0.25, (lo+hi)/2, x0)
				for _, q := range qs {
					if a, b := f(q), fit.LOESS(px, py, fc.Deg, span)(q); a != b && !(math.IsNaN(a) && math.IsNaN(b)) {
						sum.viol("LOESS-query-order", c, "LOESS(deg %d, span %v): the smoother returns %.15g at %v after earlier queries, a fresh one %.15g", fc.Deg, span, a, q, b)
						break
					}
				}
				// a long life: the curve drawn on a fine grid (several hundred distinct queries on ONE smoother), then the
				// first, some middle and the last points asked again - still what a fresh smoother returns
				fitLong++
				if fitLong%7 == 1 {
					g := fit.LOESS(px, py, fc.Deg, span)
					const grid = 400
					at := func(k int) float64 { return lo + (hi-lo)*float64(k)/(grid-1) }
					first := g(at(0))
					for k := 1; k < grid; k++ {
						g(at(k))
					}
					sum.Checks++
					for _, k := range []int{0, 1, 2, 57, 128, 129, 200, 271, 272, 398, 399} {
						a, b := g(at(k)), fit.LOESS(px, py, fc.Deg, span)(at(k))
						if a != b && !(math.IsNaN(a) && math.IsNaN(b)) {
							sum.viol("LOESS-query-order", c, "LOESS(deg %d, span %v): after %d distinct queries the smoother returns %.15g at grid point %d (%v), a fresh one %.15g (its own first answer there: %.15g)", fc.Deg, span, grid, a, k, at(k), b, first)
							break
						}
					}
				}
			}
		}
	})
	fitLarge(sum)
	sum.note("worst_error_over_tolerance", fitWorst)
	return sum, err
}

var fitLong int

// fitLarge: many observations in one call (sizes around and beyond 1024, 2048, 4096: past any block size of an accumulation
// loop).  The data lie exactly on 1 - 2x + x^2/2 over [-2,2] (every value a dyadic rational), so the fit must return these
// coefficients; with a deterministic disturbance added, the weighted residual must be orthogonal to every basis function.
func fitLarge(sum *Summary) {
	for _, n := range []int{257, 1023, 1024, 1025, 1500, 2047, 2049, 3000, 4097, 5000} {
		xs, ys, ws, yn := make([]float64, n), make([]float64, n), make([]float64, n), make([]float64, n)
		for i := range xs {
			x := -2 + 4*float64(i)/float64(n-1)
			xs[i] = x
			ys[i] = 1 - 2*x + 0.5*x*x
			ws[i] = 0.5 + float64((i*7919)%13)/8
			yn[i] = ys[i] + 0.25*math.Sin(float64(i)*0.7)
		}
		c := json.RawMessage(fmt.Sprintf(`{"large":%d}`, n))
		for wi, w := range [][]float64{nil, ws} {
			sum.Checks++
			func() {
				defer func() {
					if r := recover(); r != nil {
						sum.viol("panic", c, "n=%d: panic: %v", n, r)
					}
				}()
				pr := fit.PolynomialRegression(xs, ys, w, 2)
				want := []float64{1, -2, 0.5}
				for j := range want {
					if len(pr.Coefficients) != 3 || math.Abs(pr.Coefficients[j]-want[j]) > 1e-8 {
						sum.viol("PolynomialRegression-large", c, "%d observations on 1 - 2x + x^2/2 (weights: %v): coefficients %v", n, wi == 1, pr.Coefficients)
						break
					}
				}
				terms := []func(xs, termOut []float64){
					func(xs, out []float64) {
						for i := range xs {
							out[i] = 1
						}
					},
					func(xs, out []float64) { copy(out, xs) },
					func(xs, out []float64) {
						for i, x := range xs {
							out[i] = math.Cos(x)
						}
					},
				}
				co := fit.LinearLeastSquares(xs, yn, w, terms...)
				if len(co) != 3 {
					sum.viol("LinearLeastSquares-large", c, "%d observations: %d coefficients", n, len(co))
					return
				}
				out := make([]float64, n)
				for j, t := range terms {
					t(xs, out)
					dot, scale := 0.0, 0.0
					for i := range xs {
						r := yn[i] - (co[0] + co[1]*xs[i] + co[2]*math.Cos(xs[i]))
						wv := 1.0
						if w != nil {
							wv = w[i]
						}
						dot += wv * r * out[i]
						scale += wv * math.Abs(r*out[i])
					}
					if math.Abs(dot) > 1e-8*scale {
						sum.viol("LinearLeastSquares-large", c, "%d observations (weights: %v): the weighted residual is not orthogonal to basis function %d: sum w r phi = %.6g against %.6g", n, wi == 1, j, dot, scale)
					}
				}
			}()
		}
	}
}
