package main

// Recorder for spec/kde/KDETrace.tla (C12, trace direction): one mutable stats.KDE per history; field assignments
// alternate with PDF/CDF queries and Bounds calls.  Values are lattice integers v (the float is v * 2^sc).

import (
	"encoding/json"
	"io"
	"math"
	"math/big"
	"math/rand"
	"sort"

	"github.com/aclements/go-moremath/stats"
)

func init() {
	families["kde"].record = kdeRecord
}

type kdeImg struct {
	T  sbig `json:"t"`
	S  int  `json:"s"`
	Y  fdy  `json:"y"`
	YY fdy  `json:"Y"`
}
type kdeEvent struct {
	Op     string   `json:"op"`
	Sc     int      `json:"sc"`
	Xs     []sbig   `json:"xs"`
	Ws     []int    `json:"ws"`
	Kern   string   `json:"kern"`
	Hm     []int    `json:"hm"`
	He     int      `json:"he"`
	Kind   string   `json:"kind"`
	Lo     sbig     `json:"lo"`
	Hi     sbig     `json:"hi"`
	X      sbig     `json:"x"`
	Pdf    fdy      `json:"pdf"`
	Cdf    fdy      `json:"cdf"`
	HAfter fdy      `json:"hafter"`
	HRef   fdy      `json:"href"`
	N      int      `json:"N"`
	G      []kdeImg `json:"g"`
	BLo    fdy      `json:"blo"`
	BHi    fdy      `json:"bhi"`
	Mass   fdy      `json:"mass"`
	Intact int      `json:"intact"`
	Seed   int64    `json:"seed"`
	Idx    int      `json:"idx"`
}

// scottRef: 1.06 min(s, IQR/1.349) n^(-1/5) for unweighted integer data, s and the type-8 quartiles in 200-bit arithmetic.
func scottRef(iv []int64) float64 {
	n := len(iv)
	srt := append([]int64{}, iv...)
	sort.Slice(srt, func(i, j int) bool { return srt[i] < srt[j] })
	S, Q := new(big.Int), new(big.Int)
	for _, v := range iv {
		b := big.NewInt(v)
		S.Add(S, b)
		Q.Add(Q, new(big.Int).Mul(b, b))
	}
	num := new(big.Int).Sub(new(big.Int).Mul(big.NewInt(int64(n)), Q), new(big.Int).Mul(S, S))
	vr := new(big.Float).SetPrec(200).SetInt(num)
	vr.Quo(vr, new(big.Float).SetPrec(200).SetInt64(int64(n)*int64(n-1)))
	sd, _ := new(big.Float).SetPrec(200).Sqrt(vr).Float64()
	r8 := func(a int64) float64 { // level a/4: h = ((3n+1) a + 4) / 12
		hn := (3*int64(n)+1)*a + 4
		kk, fr := hn/12, hn%12
		if kk <= 0 {
			return float64(srt[0])
		}
		if kk >= int64(n) {
			return float64(srt[n-1])
		}
		r := new(big.Rat).SetFrac64(12*srt[kk-1]+fr*(srt[kk]-srt[kk-1]), 12)
		f, _ := r.Float64()
		return f
	}
	iqr := r8(3) - r8(1)
	return 1.06 * math.Min(sd, iqr/1.349) * math.Pow(float64(n), -0.2)
}

func kdeRecord(out io.Writer, args []string) error {
	rf := newRecFlags("kde", 40)
	maxN := rf.fs.Int("max", 40, "largest sample size")
	rf.fs.Parse(args)
	enc := json.NewEncoder(out)
	zero := mkfdy(0)
	for idx := 0; idx < *rf.n; idx++ {
		if !rf.mine(idx) {
			continue
		}
		rng := rand.New(rand.NewSource(*rf.seed*104729 + int64(idx)))
		blank := func(op string) kdeEvent {
			return kdeEvent{Op: op, Xs: []sbig{}, Ws: []int{}, Hm: []int{}, Lo: sbigI(0), Hi: sbigI(0), X: sbigI(0), Pdf: zero, Cdf: zero, HAfter: zero, HRef: zero,
				G: []kdeImg{}, BLo: zero, BHi: zero, Mass: zero, Seed: *rf.seed, Idx: idx}
		}
		sc := []int{-8, 0, 5, -20, -33}[rng.Intn(5)] // the scale of the data: 2^-33 (1e-10) .. 2^5
		ev := blank("Reset")
		ev.Sc = sc
		if err := enc.Encode(ev); err != nil {
			return err
		}
		real := func(v int64) float64 { return math.Ldexp(float64(v), sc) }
		// sample
		n := 1 + rng.Intn(*maxN)
		if rng.Intn(5) == 0 {
			n = 1 + rng.Intn(3)
		}
		spread := []int64{6, 40, 1000, 1 << 20}[rng.Intn(4)]
		off := []int64{0, 0, 5000, -(1 << 24)}[rng.Intn(4)]
		iv := make([]int64, n)
		for i := range iv {
			iv[i] = off + rng.Int63n(2*spread+1) - spread
			if rng.Intn(6) == 0 && i > 0 {
				iv[i] = iv[rng.Intn(i)] // ties
			}
		}
		var wi []int
		if rng.Intn(3) == 0 {
			wi = make([]int, n)
			for i := range wi {
				wi[i] = 1 + rng.Intn(9)
			}
		}
		if rng.Intn(8) == 0 {
			// a heavy centre and two far-out clusters carrying 1.05 % of the weight each, bandwidths small against the gaps:
			// the CDF has plateaus just above 1 % and just below 99 %, where a search for the 98 % interval that aims at
			// those levels (instead of inside them) comes to rest
			off, spread = 0, 16
			iv = []int64{-600, -7, 0, 9, 600}
			wi = []int{21, 600, 700, 658, 21}
			if rng.Intn(2) == 0 {
				iv = []int64{-600, -600, -598, 0, 4, 600, 601, 601}
				wi = []int{7, 7, 7, 1000, 958, 7, 7, 7}
			}
			n = len(iv)
		}
		var minx, maxx int64
		var xs, ws, gxs, gws []float64
		var okX, okW func() bool
		var wsum float64
		kde := &stats.KDE{}
		// every third history hands the sample over in ascending order with the Sorted flag set, as Sample.Sort leaves it (the
		// weights travel with their values): what the estimate is does not depend on how the sample was prepared
		sortedFlag := rng.Intn(3) == 0
		setSample := func() { // (re)build the float slices handed to the library from iv / wi
			if sortedFlag {
				ord := make([]int, len(iv))
				for i := range ord {
					ord[i] = i
				}
				sort.SliceStable(ord, func(a, b int) bool { return iv[ord[a]] < iv[ord[b]] })
				niv := make([]int64, len(iv))
				var nwi []int
				if wi != nil {
					nwi = make([]int, len(iv))
				}
				for k, i := range ord {
					niv[k] = iv[i]
					if wi != nil {
						nwi[k] = wi[i]
					}
				}
				iv, wi = niv, nwi
			}
			minx, maxx = iv[0], iv[0]
			for _, v := range iv {
				if v < minx {
					minx = v
				}
				if v > maxx {
					maxx = v
				}
			}
			n = len(iv)
			xs = make([]float64, n)
			for i, v := range iv {
				xs[i] = real(v)
			}
			ws = nil
			if wi != nil {
				ws = make([]float64, n)
				for i, w := range wi {
					ws[i] = float64(w)
				}
			}
			gxs, okX = guarded(xs)
			gws, okW = nil, func() bool { return true }
			if ws != nil {
				gws, okW = guarded(ws)
			}
			wsum = 0
			for i := range iv {
				if wi == nil {
					wsum++
				} else {
					wsum += float64(wi[i])
				}
			}
			kde.Sample = stats.Sample{Xs: gxs, Weights: gws, Sorted: sortedFlag}
		}
		setSample()
		// configuration mirrored by the spec
		type cfg struct {
			kern   string
			h      float64 // lattice units; 0 = auto
			kind   string
			lo, hi int64
		}
		kernels := []string{"ep", "ga", "de"}
		kk := map[string]stats.KDEKernel{"ep": stats.EpanechnikovKernel, "ga": stats.GaussianKernel, "de": stats.DeltaKernel}
		// Scott's rule goes through StdDev, whose rounding error grows with offset/spread; the 2^-36 tolerance of the trace
		// spec is meant for well-conditioned data, so the lazily filled bandwidth is exercised on those profiles only
		absOff := off
		if absOff < 0 {
			absOff = -absOff
		}
		canAuto := func() bool { return wi == nil && len(iv) >= 4 && absOff <= 512*spread && scottRef(iv) > 0 }
		pickH := func() float64 {
			if canAuto() && rng.Intn(4) == 0 {
				return 0
			}
			base := float64(spread) * []float64{0.05, 0.25, 1, 3}[rng.Intn(4)]
			hn := math.Max(1, math.Round(base*8))
			return hn / 8 * []float64{1, 1, 0.5, 4}[rng.Intn(4)] // multiples of 1/16
		}
		pickB := func(h float64, kern string) (string, int64, int64) {
			hh := h
			if hh == 0 {
				hh = scottRef(iv)
			}
			gap := func() int64 {
				switch rng.Intn(4) {
				case 0:
					return 0
				case 1:
					return 1 + rng.Int63n(3)
				case 2:
					return int64(hh) + 1
				}
				return 10*int64(hh) + 5
			}
			switch rng.Intn(4) {
			case 0:
				return "none", 0, 0
			case 1:
				return "lo", minx - gap(), 0
			case 2:
				return "hi", 0, maxx + int64(rng.Intn(2)) + gap() // possibly exactly the largest value
			}
			lo, hi := minx-gap(), maxx+int64(rng.Intn(2))+gap()
			if hi <= lo {
				hi = lo + 1
			}
			for float64(hi-lo)*4 < hh { // keep the image count moderate
				lo -= int64(hh/8) + 1
				hi += int64(hh/8) + 1
			}
			return "both", lo, hi
		}
		c := cfg{kern: kernels[rng.Intn(3)]}
		c.h = pickH()
		c.kind, c.lo, c.hi = pickB(c.h, c.kern)
		noneInf := rng.Intn(2) == 0
		apply := func() {
			kde.Kernel = kk[c.kern]
			kde.Bandwidth = math.Ldexp(c.h, sc)
			switch c.kind {
			case "none":
				kde.BoundaryMin, kde.BoundaryMax = 0, 0
				if noneInf { // "no boundary" written out: the support is the whole line
					kde.BoundaryMin, kde.BoundaryMax = math.Inf(-1), math.Inf(1)
				}
			case "lo":
				kde.BoundaryMin, kde.BoundaryMax = real(c.lo), math.Inf(1)
			case "hi":
				kde.BoundaryMin, kde.BoundaryMax = math.Inf(-1), real(c.hi)
			case "both":
				kde.BoundaryMin, kde.BoundaryMax = real(c.lo), real(c.hi)
			}
		}
		fillCfg := func(ev *kdeEvent) {
			ev.Kern, ev.Kind, ev.Lo, ev.Hi = c.kern, c.kind, sbigI(c.lo), sbigI(c.hi)
			if c.h != 0 {
				d := dy(c.h)
				ev.Hm, ev.He = d.M, d.E
			}
		}
		apply()
		ev = blank("New")
		for _, v := range iv {
			ev.Xs = append(ev.Xs, sbigI(v))
		}
		if wi != nil {
			ev.Ws = wi
		}
		fillCfg(&ev)
		if err := enc.Encode(ev); err != nil {
			return err
		}
		weight := func(i int) float64 {
			if wi == nil {
				return 1
			}
			return float64(wi[i])
		}
		// harness-evaluated Gaussian kernel averages at the real point t with real bandwidth h
		gy := func(t, h float64) float64 {
			s := 0.0
			for i, xi := range xs {
				u := (t - xi) / h
				s += weight(i) * math.Exp(-u*u/2) / (h * math.Sqrt(2*math.Pi))
			}
			return s / wsum
		}
		gY := func(t, h float64) float64 {
			s := 0.0
			for i, xi := range xs {
				s += weight(i) * 0.5 * math.Erfc(-(t-xi)/(h*math.Sqrt2))
			}
			return s / wsum
		}
		imageN := func(hl float64, reach float64) int {
			if c.kind != "both" {
				return 0
			}
			d := 2 * float64(c.hi-c.lo)
			return int(math.Ceil((float64(maxx-minx)+reach*hl+float64(c.hi-c.lo))/d)) + 1
		}
		// reference Gaussian CDF at a real point (for the mass between Bounds)
		refCDF := func(t, hreal float64, N int) float64 {
			switch c.kind {
			case "none":
				return gY(t, hreal)
			case "lo":
				if t < real(c.lo) {
					return 0
				}
				return gY(t, hreal) - gY(2*real(c.lo)-t, hreal)
			case "hi":
				if t >= real(c.hi) {
					return 1
				}
				return gY(t, hreal) + 1 - gY(2*real(c.hi)-t, hreal)
			}
			if t < real(c.lo) {
				return 0
			}
			if t >= real(c.hi) {
				return 1
			}
			d := 2 * (real(c.hi) - real(c.lo))
			s := 0.0
			for k := -N; k <= N; k++ {
				s += gY(t+float64(k)*d, hreal) - gY(2*real(c.lo)-t+float64(k)*d, hreal)
			}
			return s
		}
		after := func(ev *kdeEvent) float64 { // bandwidth bookkeeping shared by Query and Bounds; returns h in lattice units
			ev.HAfter = mkfdy(kde.Bandwidth)
			if c.h == 0 {
				ev.HRef = mkfdy(math.Ldexp(scottRef(iv), sc))
				c.h = math.Ldexp(kde.Bandwidth, -sc) // the object now behaves as if this had been assigned
			}
			if okX() && okW() {
				ev.Intact = 1
			}
			return c.h
		}
		segs := 2 + rng.Intn(4)
		for s := 0; s < segs; s++ {
			if s > 0 {
				op := rng.Intn(5)
				if c.h == 0 && op >= 3 {
					op = 0 // a pending Scott bandwidth is tied to the unweighted sample it will be computed from
				}
				switch op {
				case 3: // new weights on the same values (same length, so nothing about the shape of the sample changes)
					if wi != nil && rng.Intn(4) == 0 {
						wi = nil
					} else {
						wi = make([]int, len(iv))
						for i := range wi {
							wi[i] = 1 + rng.Intn(9)
						}
					}
					setSample()
					apply()
					ev = blank("SetWeights")
					if wi != nil {
						ev.Ws = wi
					}
				case 4: // new values: same length (only the contents change) or one value more / fewer
					switch rng.Intn(3) {
					case 0:
						iv = append([]int64{}, iv...)
						for i := range iv {
							iv[i] = off + rng.Int63n(2*spread+1) - spread
						}
					case 1:
						iv = append(append([]int64{}, iv...), off+rng.Int63n(2*spread+1)-spread)
						if wi != nil {
							wi = append(append([]int{}, wi...), 1+rng.Intn(9))
						}
					case 2:
						if len(iv) > 1 {
							iv = append([]int64{}, iv[:len(iv)-1]...)
							if wi != nil {
								wi = append([]int{}, wi[:len(iv)]...)
							}
						}
					}
					setSample()
					if c.kind != "none" { // keep the data inside the boundaries
						c.kind, c.lo, c.hi = pickB(c.h, c.kern)
					}
					apply()
					ev = blank("SetXs")
					for _, v := range iv {
						ev.Xs = append(ev.Xs, sbigI(v))
					}
					if wi != nil {
						ev.Ws = wi
					}
					fillCfg(&ev)
					if err := enc.Encode(ev); err != nil {
						return err
					}
					ev = blank("SetBounds")
					fillCfg(&ev)
				case 0:
					c.kern = kernels[rng.Intn(3)]
					apply()
					ev = blank("SetKernel")
					fillCfg(&ev)
				case 1:
					c.h = pickH()
					if c.kind == "both" {
						hh := c.h
						if hh == 0 {
							hh = scottRef(iv)
						}
						if float64(c.hi-c.lo)*4 < hh {
							c.h = float64(c.hi-c.lo) * 2
						}
					}
					apply()
					ev = blank("SetBandwidth")
					fillCfg(&ev)
				case 2:
					c.kind, c.lo, c.hi = pickB(c.h, c.kern)
					apply()
					ev = blank("SetBounds")
					fillCfg(&ev)
				}
				if err := enc.Encode(ev); err != nil {
					return err
				}
			}
			nq := 4 + rng.Intn(8)
			for q := 0; q < nq; q++ {
				hguess := c.h
				if hguess == 0 {
					hguess = scottRef(iv)
				}
				var x int64
				switch rng.Intn(7) {
				case 0:
					x = iv[rng.Intn(n)]
				case 1:
					x = iv[rng.Intn(n)] + int64(math.Round(hguess))*int64(rng.Intn(3)-1)
				case 2:
					if c.kind == "lo" || c.kind == "both" {
						x = c.lo + int64(rng.Intn(3)-1)
					} else {
						x = minx - int64(2*hguess) - 1
					}
				case 3:
					if c.kind == "hi" || c.kind == "both" {
						x = c.hi + int64(rng.Intn(3)-1)
					} else {
						x = maxx + int64(2*hguess) + 1
					}
				default:
					lo, hi := minx-int64(1.5*hguess)-2, maxx+int64(1.5*hguess)+2
					x = lo + rng.Int63n(hi-lo+1)
				}
				ev = blank("Query")
				ev.X = sbigI(x)
				var p, cd float64
				if rng.Intn(2) == 0 { // either order: the first call fills a zero bandwidth
					p = kde.PDF(real(x))
					cd = kde.CDF(real(x))
				} else {
					cd = kde.CDF(real(x))
					p = kde.PDF(real(x))
				}
				ev.Pdf, ev.Cdf = mkfdy(p), mkfdy(cd)
				hl := after(&ev)
				reach := 1.0
				if c.kern == "ga" {
					reach = 10
				} else if c.kern == "de" {
					reach = 0
				}
				ev.N = imageN(hl, reach)
				inside := (c.kind == "none" || c.kind == "hi" || x >= c.lo) && (c.kind == "none" || c.kind == "lo" || x < c.hi)
				if c.kern == "ga" && inside {
					hreal := math.Ldexp(hl, sc)
					add := func(t int64, sgn int) {
						ev.G = append(ev.G, kdeImg{T: sbigI(t), S: sgn, Y: mkfdy(gy(real(t), hreal)), YY: mkfdy(gY(real(t), hreal))})
					}
					switch c.kind {
					case "none":
						add(x, 1)
					case "lo":
						add(x, 1)
						add(2*c.lo-x, -1)
					case "hi":
						add(x, 1)
						add(2*c.hi-x, -1)
					case "both":
						d := 2 * (c.hi - c.lo)
						for k := -ev.N; k <= ev.N; k++ {
							add(x+int64(k)*d, 1)
						}
						for k := -ev.N; k <= ev.N; k++ {
							add(2*c.lo-x+int64(k)*d, -1)
						}
					}
				}
				if err := enc.Encode(ev); err != nil {
					return err
				}
			}
			if rng.Intn(2) == 0 || sc < -10 {
				ev = blank("Bounds")
				lo, hi := kde.Bounds()
				ev.BLo, ev.BHi = mkfdy(lo), mkfdy(hi)
				hl := after(&ev)
				reach := 1.0
				if c.kern == "ga" {
					reach = 10
				}
				ev.N = imageN(hl, reach)
				if c.kern == "ga" && ev.BLo.C == "fin" && ev.BHi.C == "fin" {
					hreal := math.Ldexp(hl, sc)
					ev.Mass = mkfdy(refCDF(hi, hreal, ev.N) - refCDF(lo, hreal, ev.N))
				}
				if err := enc.Encode(ev); err != nil {
					return err
				}
			}
		}
	}
	return nil
}
