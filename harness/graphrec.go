package main

// Recorder for spec/graph/GraphTrace.tla: random multigraphs (tree-like to dense, reducible and irreducible,
// unreachable nodes feeding reachable joins, self-loops, parallel edges) with the results of PreOrder, PostOrder,
// SCC, IDom and DomFrontier.

import (
	"encoding/json"
	"io"
	"math/rand"
	"time"

	"github.com/aclements/go-moremath/graph"
	"github.com/aclements/go-moremath/graph/graphalg"
)

func init() {
	families["graphrec"] = &family{record: graphRecord}
}

type gEvent struct {
	Op       string  `json:"op"`
	N        int     `json:"n"`
	Adj      [][]int `json:"adj"`
	Root     int     `json:"root"`
	Pre      []int   `json:"pre"`
	Post     []int   `json:"post"`
	NComp    int     `json:"ncomp"`
	Comp     []int   `json:"comp"`
	Outs     [][]int `json:"outs"`
	IDom     []int   `json:"idom"`
	Kids     [][]int `json:"kids"`  // Dom(idom).Out(x) for every node
	TIDom    []int   `json:"tidom"` // Dom(idom).IDom(x)
	TN       int     `json:"tn"`    // Dom(idom).NumNodes()
	DF       [][]int `json:"df"`
	Panicked int     `json:"panicked"`
	Seed     int64   `json:"seed"`
	Idx      int     `json:"idx"`
}

func graphRecord(out io.Writer, args []string) error {
	rf := newRecFlags("graphrec", 60)
	maxN := rf.fs.Int("max", 24, "largest graph")
	what := rf.fs.String("ops", "orders,scc,dom", "which results to record")
	rf.fs.Parse(args)
	enc := json.NewEncoder(out)
	has := func(s string) bool {
		for _, p := range splitComma(*what) {
			if p == s {
				return true
			}
		}
		return false
	}
	blank := func(op string, idx int) gEvent {
		return gEvent{Op: op, Adj: [][]int{}, Pre: []int{}, Post: []int{}, Comp: []int{}, Outs: [][]int{}, IDom: []int{}, Kids: [][]int{}, TIDom: []int{}, DF: [][]int{}, Seed: *rf.seed, Idx: idx}
	}
	for idx := 0; idx < *rf.n; idx++ {
		if !rf.mine(idx) {
			continue
		}
		rng := rand.New(rand.NewSource(*rf.seed*1000003 + int64(idx)))
		enc.Encode(blank("Reset", idx))
		n := 2 + rng.Intn(*maxN-1)
		g := make(graph.IntGraph, n)
		for i := range g {
			g[i] = []int{}
		}
		shape := rng.Intn(6)
		if shape == 5 && *maxN >= 16 { // long enough for information to travel far against the edges' direction
			n = 14 + rng.Intn(*maxN-13)
			g = make(graph.IntGraph, n)
			for i := range g {
				g[i] = []int{}
			}
		}
		switch shape {
		case 5: // a two-way chain 1 <-> 2 <-> ... <-> n-1 entered from the root at both ends (and sometimes in the middle): an
			// irreducible region in which dominator information has to travel backwards over many consecutive retreating
			// edges - iterative algorithms need about as many sweeps as the chain is long
			for i := 1; i+1 < n; i++ {
				g[i] = append(g[i], i+1)
				g[i+1] = append(g[i+1], i)
			}
			g[0] = append(g[0], 1, n-1)
			if rng.Intn(3) == 0 {
				g[0] = append(g[0], 1+rng.Intn(n-1))
			}
		case 0: // tree-like with a few back and cross edges
			for v := 1; v < n; v++ {
				p := rng.Intn(v)
				g[p] = append(g[p], v)
			}
			for k := rng.Intn(n/2 + 1); k > 0; k-- {
				g[rng.Intn(n)] = append(g[rng.Intn(n)], rng.Intn(n))
			}
		case 1: // sparse random
			for k := n + rng.Intn(n); k > 0; k-- {
				u := rng.Intn(n)
				g[u] = append(g[u], rng.Intn(n))
			}
		case 2: // dense
			for u := 0; u < n; u++ {
				for v := 0; v < n; v++ {
					if rng.Intn(3) == 0 {
						g[u] = append(g[u], v)
					}
				}
			}
		case 3: // layered DAG plus loops entered at two points (irreducible)
			for u := 0; u < n; u++ {
				for k := rng.Intn(3); k > 0 && u+1 < n; k-- {
					g[u] = append(g[u], u+1+rng.Intn(n-u-1))
				}
			}
			for k := 1 + rng.Intn(3); k > 0; k-- {
				a, b := rng.Intn(n), rng.Intn(n)
				g[a] = append(g[a], b)
				g[b] = append(g[b], a)
			}
		default: // reachable core plus unreachable nodes feeding into it, parallel edges and self-loops
			core := 1 + n/2
			for k := 2 * core; k > 0; k-- {
				u := rng.Intn(core)
				g[u] = append(g[u], rng.Intn(core))
			}
			for u := core; u < n; u++ {
				g[u] = append(g[u], rng.Intn(core), rng.Intn(n))
			}
			u := rng.Intn(n)
			g[u] = append(g[u], u, u)
		}
		for i := range g {
			rng.Shuffle(len(g[i]), func(a, b int) { g[i][a], g[i][b] = g[i][b], g[i][a] })
		}
		ld := blank("Load", idx)
		ld.N, ld.Adj = n, copyAdj(g)
		enc.Encode(ld)
		roots := []int{0, rng.Intn(n)}
		hung := false
		protect := func(ev *gEvent, f func()) {
			done := make(chan struct{})
			go func() {
				defer close(done)
				defer func() {
					if r := recover(); r != nil {
						ev.Panicked = 1
					}
				}()
				f()
			}()
			select {
			case <-done:
			case <-time.After(10 * time.Second):
				ev.Panicked = 2 // did not return
				hung = true
			}
		}
		if has("orders") {
			for _, r := range roots {
				ev := blank("Orders", idx)
				ev.Root = r
				protect(&ev, func() { ev.Pre, ev.Post = graphalg.PreOrder(g, r), graphalg.PostOrder(g, r) })
				if hung {
					ev.Pre, ev.Post = []int{}, []int{}
				}
				enc.Encode(ev)
				if hung {
					return nil
				}
			}
		}
		if has("scc") {
			ev := blank("SCC", idx)
			protect(&ev, func() {
				s := graphalg.SCC(g, graphalg.SCCEdges)
				ev.NComp = s.NumNodes()
				ev.Comp = make([]int, n)
				for u := 0; u < n; u++ {
					ev.Comp[u] = s.SubnodeComponent(u)
				}
				for c := 0; c < s.NumNodes(); c++ {
					ev.Outs = append(ev.Outs, append([]int{}, s.Out(c)...))
					for _, u := range s.Subnodes(c) {
						if ev.Comp[u] != c {
							ev.Comp[u] = -1 // Subnodes and SubnodeComponent disagree: no action explains it
						}
					}
				}
			})
			enc.Encode(ev)
		}
		if has("dom") {
			for _, r := range roots {
				ev := blank("Dom", idx)
				ev.Root = r
				protect(&ev, func() {
					bg := graph.MakeBiGraph(g)
					ev.IDom = graphalg.IDom(bg, r)
					df := graphalg.DomFrontier(bg, r, nil)
					dfc := make([][]int, n)
					for i := range df {
						dfc[i] = append([]int{}, df[i]...)
					}
					ev.DF = dfc
					t := graphalg.Dom(append([]int{}, ev.IDom...))
					ev.TN = t.NumNodes()
					kids, tid := make([][]int, n), make([]int, n)
					for i := 0; i < n && i < ev.TN; i++ {
						kids[i] = append([]int{}, t.Out(i)...)
						tid[i] = t.IDom(i)
					}
					ev.Kids, ev.TIDom = kids, tid
				})
				if hung || ev.Panicked != 0 {
					if ev.IDom == nil || hung {
						ev.IDom = []int{}
					}
					if ev.DF == nil || hung {
						ev.DF = [][]int{}
					}
					if ev.Kids == nil || hung {
						ev.Kids, ev.TIDom = [][]int{}, []int{}
					}
				}
				enc.Encode(ev)
				if hung {
					return nil
				}
			}
		}
	}
	return nil
}

func splitComma(s string) []string {
	var out []string
	cur := ""
	for _, ch := range s {
		if ch == ',' {
			out = append(out, cur)
			cur = ""
		} else {
			cur += string(ch)
		}
	}
	return append(out, cur)
}
