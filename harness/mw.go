package main

// Families mw (C01, C03) and udist (C02): stats.MannWhitneyUTest and stats.UDist against
// spec/mw/MannWhitney.tla.

import (
	"encoding/json"
	"errors"
	"io"
	"math"
	"math/big"
	"math/rand"

	"github.com/aclements/go-moremath/stats"
)

func init() {
	families["mw"] = &family{replay: mwReplay, record: mwRecord}
	families["udist"] = &family{replay: udistReplay}
}

const sigMWDiffers = "stats/utest.go:LocationDiffers/exact"

type mwAlloc struct {
	R    []int `json:"r"`
	TwoU int   `json:"twoU"`
}
type mwCase struct {
	T      []int     `json:"T"`
	N1     int       `json:"n1"`
	N2     int       `json:"n2"`
	E      int       `json:"e"`
	Tl     int       `json:"t"`
	Method string    `json:"method"`
	Den    int64     `json:"den"`
	Cnt    []int64   `json:"cnt"`
	LE     []int64   `json:"le"`
	GE     []int64   `json:"ge"`
	PD     []int64   `json:"pd"`
	KW     []int64   `json:"kw"`
	VarN   int64     `json:"varn"`
	VarD   int64     `json:"vard"`
	Al     []mwAlloc `json:"al"`
}

func phi(z float64) float64 { return 0.5 * math.Erfc(-z/math.Sqrt2) }

// value maps applied to ranks 1..K (strictly increasing, so the test must not notice)
var mwMaps = []func(k int) float64{
	func(k int) float64 { return float64(k) },
	func(k int) float64 { return math.Exp(float64(k) / 4) },
	func(k int) float64 { return -7 + 3*float64(k) },
	func(k int) float64 { return float64(k)*1e-9 + 1e6 },
	// the last two put the value 0 on rank 1 or 2; the occurrences of 0 are then written alternately as +0 and -0 (signedZeros):
	// the two are the same number, so they tie with each other and order like one value
	func(k int) float64 { return float64(k) - 1 },
	func(k int) float64 { return float64(k) - 2 },
}

const mwZeroMaps = 4 // index of the first signed-zero map

// signedZeros writes every other occurrence of 0 in the two samples as -0 (starting with the first in x1, the second in x2).
func signedZeros(x1, x2 []float64) {
	n := 0
	for _, x := range [][]float64{x1, x2} {
		for i, v := range x {
			if v == 0 {
				if n%2 == 0 {
					x[i] = math.Copysign(0, -1)
				}
				n++
			}
		}
		n++
	}
}

func materialize(T, r []int, f func(int) float64) (x1, x2 []float64) {
	for k := range T {
		for i := 0; i < r[k]; i++ {
			x1 = append(x1, f(k+1))
		}
		for i := 0; i < T[k]-r[k]; i++ {
			x2 = append(x2, f(k+1))
		}
	}
	return
}

var mwAlts = []stats.LocationHypothesis{stats.LocationLess, stats.LocationDiffers, stats.LocationGreater}

func mwReplay(in io.Reader, raw bool, args []string) (*Summary, error) {
	sum := &Summary{Rule: "one case per (tie vector, n1, limit configuration) emitted by TLC with the exact count vector, cumulative tails and every allocation of tied values to the two samples; each allocation is materialised under strictly increasing value maps and shuffles and MannWhitneyUTest is called for the three alternatives, plus the swapped call; non-trivial = both samples non-empty and at least two distinct values"}
	rng := rand.New(rand.NewSource(baseSeed))
	saveE, saveT := stats.MannWhitneyExactLimit, stats.MannWhitneyTiesExactLimit
	defer func() { stats.MannWhitneyExactLimit, stats.MannWhitneyTiesExactLimit = saveE, saveT }()
	methods := map[string]int{}
	err := forEachCase(in, raw, func(c json.RawMessage) {
		var mc mwCase
		if e := json.Unmarshal(c, &mc); e != nil || len(mc.T) == 0 {
			sum.viol("machinery", c, "bad case: %v", e)
			return
		}
		sum.Cases++
		stats.MannWhitneyExactLimit, stats.MannWhitneyTiesExactLimit = mc.E, mc.Tl
		if mc.E >= 1000 && mc.Tl >= 1000 && sum.Cases%2 == 0 {
			// "always exact" is also said with the largest int: any limit at or above the sample sizes means the same
			stats.MannWhitneyExactLimit, stats.MannWhitneyTiesExactLimit = math.MaxInt, math.MaxInt
		}
		defer func() {
			if r := recover(); r != nil {
				sum.viol("panic", c, "panic: %v", r)
			}
		}()
		methods[mc.Method]++
		switch mc.Method {
		case "errsize", "errequal":
			// every split of the pool with these sizes: take the first n1 pooled values as sample 1
			var pool []float64
			for k, t := range mc.T {
				for i := 0; i < t; i++ {
					pool = append(pool, float64(k+1))
				}
			}
			x1, x2 := append([]float64{}, pool[:mc.N1]...), append([]float64{}, pool[mc.N1:]...)
			for _, alt := range mwAlts {
				sum.Checks++
				res, err := stats.MannWhitneyUTest(x1, x2, alt)
				want := stats.ErrSampleSize
				if mc.Method == "errequal" {
					want = stats.ErrSamplesEqual
				}
				if res != nil || !errors.Is(err, want) {
					sum.viol("error", c, "alt %v: got (%v, %v) want error %v", alt, res, err, want)
				}
			}
			if mc.Method == "errequal" && len(mc.T) == 1 { // all values equal also when they are a mixture of +0 and -0
				z1, z2 := make([]float64, mc.N1), make([]float64, mc.N2)
				signedZeros(z1, z2)
				sum.Checks++
				if res, err := stats.MannWhitneyUTest(z1, z2, stats.LocationDiffers); res != nil || !errors.Is(err, stats.ErrSamplesEqual) {
					sum.viol("error", c, "samples %v and %v (zeros of both signs): got (%v, %v) want ErrSamplesEqual", z1, z2, res, err)
				}
			}
			return
		}
		sum.Nontrivial++
		if sum.Nontrivial%499 == 1 {
			small := mc
			if len(small.Al) > 3 {
				small.Al = small.Al[:3]
			}
			b, _ := json.Marshal(small)
			sum.sample(b)
		}
		den := big.NewInt(mc.Den)
		top := 2 * mc.N1 * mc.N2
		sd := math.Sqrt(float64(mc.VarN) / float64(mc.VarD))
		want := func(twoU int, alt stats.LocationHypothesis) (p *big.Rat, pf float64) {
			if mc.Method == "exact" {
				var num int64
				switch alt {
				case stats.LocationLess:
					num = mc.LE[twoU]
				case stats.LocationGreater:
					num = mc.GE[twoU]
				default:
					num = mc.PD[twoU]
				}
				p = new(big.Rat).SetFrac(big.NewInt(num), den)
				return p, rf(p)
			}
			d := float64(twoU - mc.N1*mc.N2)
			switch alt {
			case stats.LocationLess:
				return nil, phi((d + 1) / (2 * sd))
			case stats.LocationGreater:
				return nil, 1 - phi((d-1)/(2*sd))
			default:
				a := math.Abs(d) - 1
				if a < 0 {
					a = 0
				}
				return nil, 2 * (1 - phi(a/(2*sd)))
			}
		}
		okP := func(got float64, p *big.Rat, pf float64) bool {
			if p != nil {
				return closeRat(got, p, 1e-12, 1e-9)
			}
			return closeF(got, pf, 1e-10, 0)
		}
		for ai, al := range mc.Al {
			for mi, f := range mwMaps {
				if mi > 0 && (ai+mi)%3 != 0 { // identity map always, the others on a rotating third
					continue
				}
				if mi == mwZeroMaps+1 && len(mc.T) >= 2 && ai%2 == 0 {
					// instead: the ranks spread over the whole float range, -1.7e308 .. +1.7e308 - finite values whose sums
					// overflow to -Inf in one sample and +Inf in the other (ranks are about order, never about sums)
					K := float64(len(mc.T))
					f = func(k int) float64 { return (2*float64(k) - K - 1) / (K - 1) * 1.7e308 }
				}
				x1, x2 := materialize(mc.T, al.R, f)
				if mi >= mwZeroMaps {
					signedZeros(x1, x2)
				}
				rng.Shuffle(len(x1), func(i, j int) { x1[i], x1[j] = x1[j], x1[i] })
				rng.Shuffle(len(x2), func(i, j int) { x2[i], x2[j] = x2[j], x2[i] })
				x1, ok1 := guarded(x1)
				x2, ok2 := guarded(x2)
				for _, alt := range mwAlts {
					sum.Checks++
					res, err := stats.MannWhitneyUTest(x1, x2, alt)
					if err != nil || res == nil {
						sum.viol("error", c, "alloc %v map %d alt %v: unexpected error %v", al.R, mi, alt, err)
						continue
					}
					if res.N1 != mc.N1 || res.N2 != mc.N2 || res.AltHypothesis != alt {
						sum.viol("N", c, "alloc %v: N1,N2,alt=%d,%d,%v want %d,%d,%v", al.R, res.N1, res.N2, res.AltHypothesis, mc.N1, mc.N2, alt)
					}
					if res.U != float64(al.TwoU)/2 {
						sum.viol("U", c, "alloc %v map %d: U=%v want %v", al.R, mi, res.U, float64(al.TwoU)/2)
						continue
					}
					p, pf := want(al.TwoU, alt)
					if !okP(res.P, p, pf) {
						if mc.Method == "exact" && alt == stats.LocationDiffers &&
							closeRat(res.P, new(big.Rat).SetFrac(big.NewInt(mc.KW[al.TwoU]), den), 1e-12, 1e-9) {
							sum.known(sigMWDiffers)
						} else {
							sum.viol("P", c, "alloc %v map %d alt %v method %s limits (%d,%d): P=%.12g want %.12g (U=%v)", al.R, mi, alt, mc.Method, mc.E, mc.Tl, res.P, pf, res.U)
						}
					} else if !(res.P >= -1e-12 && res.P <= 1+1e-12) { // rounding-level excursions (2*0.5000000000000001, 1 - 1.0000000000000002) are not violations
						sum.viol("P-range", c, "alloc %v alt %v: P=%v outside [0,1]", al.R, alt, res.P)
					}
					// swapping the samples: U -> n1 n2 - U, Less <-> Greater, Differs preserved
					if mi == 0 {
						sw, err2 := stats.MannWhitneyUTest(x2, x1, -alt)
						if err2 != nil || sw == nil {
							sum.viol("swap", c, "alloc %v: swapped call failed: %v", al.R, err2)
						} else {
							if sw.U != float64(top-al.TwoU)/2 || sw.N1 != mc.N2 || sw.N2 != mc.N1 {
								sum.viol("swap", c, "alloc %v: swapped U=%v want %v", al.R, sw.U, float64(top-al.TwoU)/2)
							}
							if math.Abs(sw.P-res.P) > 1e-12+1e-9*math.Abs(res.P) {
								kwS := new(big.Rat).SetFrac(big.NewInt(mc.KW[top-al.TwoU]), den)
								kwO := new(big.Rat).SetFrac(big.NewInt(mc.KW[al.TwoU]), den)
								if mc.Method == "exact" && alt == stats.LocationDiffers && closeRat(sw.P, mirrorKW(&mc, top-al.TwoU), 1e-12, 1e-9) && closeRat(res.P, kwO, 1e-12, 1e-9) {
									_ = kwS
									sum.known(sigMWDiffers)
								} else {
									sum.viol("swap-P", c, "alloc %v alt %v: P=%v but swapped call with alt %v gives %v", al.R, alt, res.P, -alt, sw.P)
								}
							}
						}
					}
				}
				if !ok1() || !ok2() {
					sum.viol("argument-modified", c, "alloc %v: MannWhitneyUTest changed its arguments (or the spare capacity behind them)", al.R)
				}
			}
		}
	})
	sum.note("methods", methods)
	return sum, err
}

// mirrorKW: the known-wrong two-sided value for the swapped samples (tie vector unchanged, n1 <-> n2):
// 2*CDF_{n2,n1,T}(min(U', n1 n2-U')) where CDF_{n2,n1,T}(u) = Pr_{n1,n2,T}[U >= n1 n2 - u].
func mirrorKW(mc *mwCase, twoUs int) *big.Rat {
	top := 2 * mc.N1 * mc.N2
	if 2*twoUs == top {
		return big.NewRat(1, 1)
	}
	m := twoUs
	if top-twoUs < m {
		m = top - twoUs
	}
	// Pr_swapped[U' <= m/2] = Pr_orig[U >= (top-m)/2] = GE[top-m]/den
	return new(big.Rat).SetFrac(big.NewInt(2*mc.GE[top-m]), big.NewInt(mc.Den))
}

// ---- UDist ----

var (
	udistPrevT = map[[3]int][]int{}
	udistBuf   = make([]int, 1024)
)

func udistReplay(in io.Reader, raw bool, args []string) (*Summary, error) {
	sum := &Summary{Rule: "one case per (tie vector, N1) emitted by TLC with the exact count vector; UDist{N1,N2,T}.PMF and CDF are evaluated at every half-integer from -1 to N1*N2+1 (PMF at integers only when there are no ties) and CDF at off-grid points, against the exact rationals; T=nil is used as well when all counts are 1; non-trivial = both N1,N2 >= 1 and at least two ranks"}
	err := forEachCase(in, raw, func(c json.RawMessage) {
		var mc mwCase
		if e := json.Unmarshal(c, &mc); e != nil || len(mc.T) == 0 {
			sum.viol("machinery", c, "bad case: %v", e)
			return
		}
		sum.Cases++
		if mc.Method != "exact" && mc.Method != "approx" {
			return
		}
		sum.Nontrivial++
		if sum.Nontrivial%499 == 1 {
			small := mc
			small.Al = nil
			b, _ := json.Marshal(small)
			sum.sample(b)
		}
		defer func() {
			if r := recover(); r != nil {
				sum.viol("panic", c, "panic: %v", r)
			}
		}()
		den := big.NewInt(mc.Den)
		top := 2 * mc.N1 * mc.N2
		ties := false
		for _, t := range mc.T {
			if t > 1 {
				ties = true
			}
		}
		// one tie-vector buffer reused for successive distributions, as a caller sweeping over tie vectors would: evaluate with
		// the previous vector of the same shape in the buffer, overwrite the buffer in place, evaluate again at the same U
		if ties {
			key := [3]int{mc.N1, mc.N2, len(mc.T)}
			if prev, ok := udistPrevT[key]; ok && !intsEq(prev, mc.T) {
				buf := udistBuf[:len(mc.T)]
				for _, tu := range []int{top / 2, top / 3, top - 1} {
					if tu < 0 || tu > top {
						continue
					}
					u := float64(tu) / 2
					copy(buf, prev)
					d := stats.UDist{N1: mc.N1, N2: mc.N2, T: buf}
					_, _ = d.CDF(u), d.PMF(u)
					copy(buf, mc.T)
					sum.Checks++
					gotC, gotP := d.CDF(u), d.PMF(u)
					wantC := new(big.Rat).SetFrac(big.NewInt(mc.LE[tu]), den)
					wantP := new(big.Rat).SetFrac(big.NewInt(mc.Cnt[tu]), den)
					if !closeRat(gotC, wantC, 1e-12, 1e-9) || !closeRat(gotP, wantP, 1e-12, 1e-9) {
						sum.viol("CDF-reused-buffer", c, "T=%v written over %v in the same slice: CDF(%v)=%.12g PMF=%.12g want %.12g %.12g", mc.T, prev, u, gotC, gotP, rf(wantC), rf(wantP))
					}
				}
			}
			udistPrevT[key] = append([]int{}, mc.T...)
		}
		dists := []stats.UDist{{N1: mc.N1, N2: mc.N2, T: append([]int{}, mc.T...)}}
		if !ties {
			dists = append(dists, stats.UDist{N1: mc.N1, N2: mc.N2, T: nil})
		}
		for _, d := range dists {
			if lo, hi := d.Bounds(); lo != 0 || hi != float64(mc.N1*mc.N2) {
				sum.viol("Bounds", c, "Bounds=(%v,%v) want (0,%d)", lo, hi, mc.N1*mc.N2)
			}
			if d.Step() != 0.5 {
				sum.viol("Step", c, "Step=%v", d.Step())
			}
			prev := 0.0
			for tu := -2; tu <= top+2; tu++ {
				u := float64(tu) / 2
				var wantC, wantP *big.Rat
				switch {
				case tu < 0:
					wantC, wantP = new(big.Rat), new(big.Rat)
				case tu > top:
					wantC, wantP = big.NewRat(1, 1), new(big.Rat)
				default:
					wantC = new(big.Rat).SetFrac(big.NewInt(mc.LE[tu]), den)
					wantP = new(big.Rat).SetFrac(big.NewInt(mc.Cnt[tu]), den)
				}
				sum.Checks++
				// just below the grid point (one float, 1e-12, 1e-10): still the value of the previous grid point
				if tu >= 0 && tu <= top+1 {
					wantB := new(big.Rat)
					if tu-1 >= 0 && tu-1 <= top {
						wantB.SetFrac(big.NewInt(mc.LE[tu-1]), den)
					} else if tu-1 > top {
						wantB.SetInt64(1)
					}
					for _, x := range []float64{math.Nextafter(u, math.Inf(-1)), u - 1e-10} {
						if got := d.CDF(x); !closeRat(got, wantB, 1e-12, 1e-9) {
							sum.viol("CDF-below-grid", c, "T=%v: CDF(%.17g)=%.12g want %.12g (the value below the grid point %v)", d.T, x, got, rf(wantB), u)
						}
					}
				}
				if tu == 0 { // -0 is the number 0
					nz := math.Copysign(0, -1)
					if gc, gp := d.CDF(nz), d.PMF(nz); !closeRat(gc, wantC, 1e-12, 1e-9) || !closeRat(gp, wantP, 1e-12, 1e-9) {
						sum.viol("negative-zero", c, "T=%v: CDF(-0)=%.12g PMF(-0)=%.12g want %.12g %.12g", d.T, gc, gp, rf(wantC), rf(wantP))
					}
				}
				for _, off := range []float64{0, 0.25, 0.49} {
					got := d.CDF(u + off)
					if !closeRat(got, wantC, 1e-12, 1e-9) {
						sum.viol("CDF", c, "T=%v: CDF(%v)=%.12g want %.12g", d.T, u+off, got, rf(wantC))
					}
					if got < prev-1e-12 {
						sum.viol("CDF-monotone", c, "T=%v: CDF(%v)=%v below %v", d.T, u+off, got, prev)
					}
					if got > prev {
						prev = got
					}
				}
				if ties || tu%2 == 0 {
					if got := d.PMF(u); !closeRat(got, wantP, 1e-12, 1e-9) {
						sum.viol("PMF", c, "T=%v: PMF(%v)=%.12g want %.12g", d.T, u, got, rf(wantP))
					}
				}
			}
			// far outside the range, up to the largest floats and the infinities: CDF is 0 below and 1 above, PMF is 0
			for _, u := range []float64{1e6, 4.5e18, math.Ldexp(1, 62), math.Ldexp(1, 63), 1e19, 1e30, 1e300, math.MaxFloat64, math.Inf(1)} {
				sum.Checks++
				if float64(mc.N1*mc.N2) < u {
					if g := d.CDF(u); g != 1 {
						sum.viol("CDF-far", c, "T=%v: CDF(%v)=%v want 1", d.T, u, g)
					}
					if g := d.PMF(u); g != 0 {
						sum.viol("PMF-far", c, "T=%v: PMF(%v)=%v want 0", d.T, u, g)
					}
				}
				if g := d.CDF(-u); g != 0 {
					sum.viol("CDF-far", c, "T=%v: CDF(%v)=%v want 0", d.T, -u, g)
				}
				if g := d.PMF(-u); g != 0 {
					sum.viol("PMF-far", c, "T=%v: PMF(%v)=%v want 0", d.T, -u, g)
				}
			}
			if !intsEq(d.T, mc.T) && d.T != nil {
				sum.viol("argument-modified", c, "UDist.T changed")
			}
		}
	})
	return sum, err
}

type mwEvent struct {
	Op     string  `json:"op"`
	E      int     `json:"e"`
	T      int     `json:"t"`
	X1     []int64 `json:"x1"`
	X2     []int64 `json:"x2"`
	Alt    int     `json:"alt"`
	RAlt   int     `json:"ralt"`
	Err    string  `json:"err"`
	N1     int     `json:"n1"`
	N2     int     `json:"n2"`
	TwoU   int64   `json:"twoU"`
	P      sbig    `json:"p"`
	ArgsOK int     `json:"argsok"`
	Pd     fdy     `json:"pd"`  // P as an exact float image (the 18-digit fixed-point P cannot carry small tails)
	Z      fdy     `json:"z"`   // continuity-corrected standard score of the normal approximation for this alternative
	Phi    fdy     `json:"phi"` // Phi(z), evaluated here through Erfc
	Seed   int64   `json:"seed"`
	Idx    int     `json:"idx"`
}

func p18(p float64) sbig {
	if math.IsNaN(p) || math.IsInf(p, 0) {
		return sbig{-1, []int{9999}} // never in range
	}
	f := new(big.Float).SetPrec(200).SetFloat64(p)
	f.Mul(f, new(big.Float).SetPrec(200).SetFloat64(1e18))
	f.Add(f, new(big.Float).SetFloat64(math.Copysign(0.5, p)))
	bi, _ := f.Int(nil)
	s := bi.Sign()
	bi.Abs(bi)
	return sbig{s, limbs(bi)}
}

// mwReuse, when set, is the pair of buffers every call of the current history writes its samples into.
var mwReuse *[2][]float64

func mwCall(ev *mwEvent, x1, x2 []int64, f func(int64) float64, alt int, rng *rand.Rand) {
	a, b := make([]float64, len(x1)), make([]float64, len(x2))
	for i, v := range x1 {
		a[i] = f(v)
	}
	for i, v := range x2 {
		b[i] = f(v)
	}
	if rng != nil {
		rng.Shuffle(len(a), func(i, j int) { a[i], a[j] = a[j], a[i] })
		rng.Shuffle(len(b), func(i, j int) { b[i], b[j] = b[j], b[i] })
	}
	oka, okb := func() bool { return true }, func() bool { return true }
	if mwReuse != nil && len(a) <= len(mwReuse[0]) && len(b) <= len(mwReuse[1]) {
		// the caller's two measurement buffers, refilled for every call (same addresses, same lengths now and then)
		ka, kb := append([]float64{}, a...), append([]float64{}, b...)
		copy(mwReuse[0], a)
		copy(mwReuse[1], b)
		a, b = mwReuse[0][:len(a)], mwReuse[1][:len(b)]
		oka = func() bool { return bitsEqual(a, ka) }
		okb = func() bool { return bitsEqual(b, kb) }
	} else {
		a, oka = guarded(a)
		b, okb = guarded(b)
	}
	res, err := stats.MannWhitneyUTest(a, b, stats.LocationHypothesis(alt))
	ev.X1, ev.X2, ev.Alt = x1, x2, alt
	ev.P = sbig{0, []int{}}
	ev.Pd, ev.Z, ev.Phi = mkfdy(0), mkfdy(0), mkfdy(0)
	if oka() && okb() {
		ev.ArgsOK = 1
	}
	switch {
	case errors.Is(err, stats.ErrSampleSize):
		ev.Err = "size"
	case errors.Is(err, stats.ErrSamplesEqual):
		ev.Err = "equal"
	case err != nil || res == nil:
		ev.Err = "other"
	default:
		ev.Err = "none"
		ev.N1, ev.N2, ev.RAlt = res.N1, res.N2, int(res.AltHypothesis)
		ev.TwoU = int64(math.Round(res.U * 2))
		if float64(ev.TwoU) != res.U*2 {
			ev.TwoU = -1 // U is not a half-integer: no action explains it
		}
		ev.P = p18(res.P)
		ev.Pd = mkfdy(res.P)
		// the normal approximation's standard score from exact integers: in units of 2U,
		// less: num = 2U + 1 - n1 n2, greater: 2U - 1 - n1 n2, two-sided: -max(|2U - n1 n2| - 1, 0);  z = num / (2 sigma)
		n1, n2 := int64(res.N1), int64(res.N2)
		N := n1 + n2
		cnt := map[int64]int64{}
		for _, v := range x1 {
			cnt[v]++
		}
		for _, v := range x2 {
			cnt[v]++
		}
		var ts int64
		for _, t := range cnt {
			ts += t*t*t - t
		}
		d := ev.TwoU - n1*n2
		var num int64
		switch alt {
		case -1:
			num = d + 1
		case 1:
			num = d - 1
		default:
			if d < 0 {
				d = -d
			}
			num = -(d - 1)
			if num > 0 {
				num = 0
			}
		}
		// 4 sigma^2 = n1 n2 ((N+1) N (N-1) - ts) / (3 N (N-1))
		four := new(big.Rat).SetFrac(new(big.Int).Mul(big.NewInt(n1*n2), big.NewInt((N+1)*N*(N-1)-ts)), big.NewInt(3*N*(N-1)))
		if four.Sign() > 0 {
			f4, _ := four.Float64()
			z := float64(num) / math.Sqrt(f4)
			ev.Z, ev.Phi = mkfdy(z), mkfdy(0.5*math.Erfc(-z/math.Sqrt2))
		}
	}
}

func mwRecord(out io.Writer, args []string) error {
	rf := newRecFlags("mw", 40)
	maxSize := rf.fs.Int("max", 60, "largest sample size")
	calls := rf.fs.Int("calls", 6, "base calls per history")
	rf.fs.Parse(args)
	enc := json.NewEncoder(out)
	saveE, saveT := stats.MannWhitneyExactLimit, stats.MannWhitneyTiesExactLimit
	defer func() { stats.MannWhitneyExactLimit, stats.MannWhitneyTiesExactLimit = saveE, saveT }()
	limitCfgs := [][2]int{{50, 25}, {0, 0}, {3, 2}, {1000, 1000}, {8, 8}, {5, 12}}
	for idx := 0; idx < *rf.n; idx++ {
		if !rf.mine(idx) {
			continue
		}
		rng := rand.New(rand.NewSource(*rf.seed*1000003 + int64(idx)))
		stats.MannWhitneyExactLimit, stats.MannWhitneyTiesExactLimit = 50, 25
		mwReuse = nil
		if idx%2 == 1 {
			mwReuse = &[2][]float64{make([]float64, 400), make([]float64, 400)}
		}
		enc.Encode(mwEvent{Op: "Reset", Seed: *rf.seed, Idx: idx, P: sbig{0, []int{}}, X1: []int64{}, X2: []int64{}, Pd: mkfdy(0), Z: mkfdy(0), Phi: mkfdy(0)})
		for k := 0; k < *calls; k++ {
			if rng.Intn(3) == 0 {
				c := limitCfgs[rng.Intn(len(limitCfgs))]
				stats.MannWhitneyExactLimit, stats.MannWhitneyTiesExactLimit = c[0], c[1]
				enc.Encode(mwEvent{Op: "SetLimits", E: c[0], T: c[1], Seed: *rf.seed, Idx: idx, P: sbig{0, []int{}}, X1: []int64{}, X2: []int64{}, Pd: mkfdy(0), Z: mkfdy(0), Phi: mkfdy(0)})
			}
			// sizes: mostly small (exactly checkable), sometimes around the limits, sometimes large
			var n1, n2 int
			switch r := rng.Intn(12); {
			case r >= 10:
				// one sample exactly at (or one beyond) an exact-method limit, the other tiny: the exact tail is still
				// cheap to count, so the method switch-over is decided exactly on both sides
				lim := []int{stats.MannWhitneyExactLimit, stats.MannWhitneyTiesExactLimit}[rng.Intn(2)]
				big := lim + rng.Intn(3) - 1
				if big < 1 || big > 60 {
					big = 1 + rng.Intn(60)
				}
				n1, n2 = big, 1+rng.Intn(3)
				if rng.Intn(2) == 0 {
					n1, n2 = n2, n1
				}
			case r < 5:
				n1, n2 = rng.Intn(8), rng.Intn(8)
			case r < 8:
				n1, n2 = 1+rng.Intn(14), 1+rng.Intn(14)
			default:
				n1, n2 = 1+rng.Intn(*maxSize), 1+rng.Intn(*maxSize)
			}
			heavy := k == 1 && idx%4 == 2 // one call per such history: a tie group of 255..300 values in the first sample
			if heavy {
				n1, n2 = []int{255, 256, 257, 300}[rng.Intn(4)]+rng.Intn(3), 5+rng.Intn(20)
				// (the exact tied distribution of 300 values would take hours: this call is for the approximate method)
				if stats.MannWhitneyExactLimit != 50 || stats.MannWhitneyTiesExactLimit != 25 {
					stats.MannWhitneyExactLimit, stats.MannWhitneyTiesExactLimit = 50, 25
					enc.Encode(mwEvent{Op: "SetLimits", E: 50, T: 25, Seed: *rf.seed, Idx: idx, P: sbig{0, []int{}}, X1: []int64{}, X2: []int64{}, Pd: mkfdy(0), Z: mkfdy(0), Phi: mkfdy(0)})
				}
			}
			var span int64
			spanKind := rng.Intn(4)
			if n1+n2 > 20 && (n1 <= 3 || n2 <= 3) {
				spanKind = []int{1, 2, 2}[rng.Intn(3)] // boundary sizes: light ties or none
			}
			switch spanKind {
			case 0:
				span = 3 // heavy ties
			case 1:
				span = int64(n1+n2)/2 + 1
			case 2:
				span = 1000000 // essentially untied
			default:
				span = 1 // all equal
				if rng.Intn(3) > 0 {
					span = 2
				}
			}
			x1, x2 := make([]int64, n1), make([]int64, n2)
			for i := range x1 {
				x1[i] = rng.Int63n(span) - span/2
			}
			var shift int64 // sometimes clearly separated samples: the small tails of the approximation
			switch rng.Intn(6) {
			case 0:
				shift = span
			case 1:
				shift = span/2 + 1
			case 2:
				shift = -span
			}
			for i := range x2 {
				x2[i] = rng.Int63n(span) - span/2 + int64(rng.Intn(2)) + shift
			}
			if heavy {
				for i := range x1 {
					x1[i] = 5
					if i < 3 {
						x1[i] = int64(3 + 2*i)
					}
				}
				for i := range x2 {
					x2[i] = 3 + rng.Int63n(5)
				}
			}
			alt := rng.Intn(3) - 1
			ev := mwEvent{Op: "Test", Seed: *rf.seed, Idx: idx}
			mwCall(&ev, x1, x2, func(v int64) float64 { return float64(v) }, alt, nil)
			enc.Encode(ev)
			if ev.Err != "none" {
				continue
			}
			tw := mwEvent{Op: "TwinSame", Seed: *rf.seed, Idx: idx}
			mwCall(&tw, x1, x2, func(v int64) float64 { return math.Exp(float64(v)/1e6)*3 - 7 }, alt, rng)
			if span < 1000 {
				mwCall(&tw, x1, x2, func(v int64) float64 { return float64(v*v*v) + 0.5 }, alt, rng)
			}
			enc.Encode(tw)
			sw := mwEvent{Op: "TwinSwap", Seed: *rf.seed, Idx: idx}
			mwCall(&sw, x2, x1, func(v int64) float64 { return float64(v) }, -alt, rng)
			enc.Encode(sw)
		}
	}
	return nil
}
