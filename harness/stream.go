package main

// Family stream (C13): stats.StreamStats against spec/stream/Stream.tla (replay) and
// spec/stream/StreamTrace.tla (trace validation).

import (
	"encoding/json"
	"fmt"
	"io"
	"math"
	"math/big"
	"math/rand"
	"strconv"
	"strings"

	"github.com/aclements/go-moremath/stats"
)

func init() {
	families["stream"] = &family{replay: streamReplay, record: streamRecord}
}

type streamOp struct {
	Op string `json:"op"`
	A  int    `json:"a"`
	B  int    `json:"b"`
	V  int64  `json:"v"`
}
type streamObs struct {
	N  int64 `json:"n"`
	S  int64 `json:"S"`
	Q  int64 `json:"Q"`
	Mn int64 `json:"mn"`
	Mx int64 `json:"mx"`
}
type streamCase struct {
	H []streamOp  `json:"h"`
	O []streamObs `json:"o"`
}

// exact dyadic affine value maps x -> s*x + o
var streamMaps = []struct{ s, o float64 }{
	{1, 0}, {3, -7}, {1.0 / 1024, 0}, {1, 1 << 20}, {4096, 1 << 30}, {-1, 0.5},
}

func streamReplay(in io.Reader, raw bool, args []string) (*Summary, error) {
	sum := &Summary{Rule: "one case per distinct Add/Combine history emitted by TLC; non-trivial = at least one Combine and at least two values overall; each case is run under 6 exact affine value maps and all accumulators are compared after the last step (every prefix is a case of its own)"}
	seen := map[string]bool{}
	err := forEachCase(in, raw, func(c json.RawMessage) {
		var sc streamCase
		if e := json.Unmarshal(c, &sc); e != nil || len(sc.O) == 0 {
			sum.viol("machinery", c, "bad case record: %v", e)
			return
		}
		sum.Cases++
		nAdd, nComb := 0, 0
		for _, op := range sc.H {
			if op.Op == "Add" {
				nAdd++
			} else {
				nComb++
			}
		}
		if nComb >= 1 && nAdd >= 2 && !seen[string(c)] {
			seen[string(c)] = true
			sum.Nontrivial++
			if sum.Nontrivial%997 == 1 {
				sum.sample(c)
			}
		}
		for _, m := range streamMaps {
			streamRunCase(sum, c, &sc, m.s, m.o)
		}
	})
	return sum, err
}

func streamRunCase(sum *Summary, c json.RawMessage, sc *streamCase, s, o float64) {
	defer func() {
		if r := recover(); r != nil {
			sum.viol("panic", c, "map (%g,%g): panic: %v", s, o, r)
		}
	}()
	acc := make([]stats.StreamStats, len(sc.O)+1) // zero values, 1-based
	for _, op := range sc.H {
		switch op.Op {
		case "Add":
			acc[op.A].Add(s*float64(op.V) + o)
		case "Combine":
			before := acc[op.B]
			acc[op.A].Combine(&acc[op.B])
			if acc[op.B] != before && !(before.Mean() != before.Mean()) {
				sum.viol("combine-arg-modified", c, "map (%g,%g): Combine(%d,%d) changed its argument", s, o, op.A, op.B)
			}
		}
	}
	rs, ro := ratF(s), ratF(o)
	for i, e := range sc.O {
		a := &acc[i+1]
		sum.Checks++
		if int64(a.Count) != e.N {
			sum.viol("Count", c, "map (%g,%g) acc %d: Count=%d want %d", s, o, i+1, a.Count, e.N)
			continue
		}
		if e.N == 0 {
			continue
		}
		n := big.NewRat(e.N, 1)
		// moments of the mapped bag: S' = s S + o n, Q' = s^2 Q + 2 s o S + o^2 n
		S := new(big.Rat).Add(new(big.Rat).Mul(rs, big.NewRat(e.S, 1)), new(big.Rat).Mul(ro, n))
		Q := new(big.Rat).Mul(new(big.Rat).Mul(rs, rs), big.NewRat(e.Q, 1))
		Q.Add(Q, new(big.Rat).Mul(new(big.Rat).Mul(big.NewRat(2, 1), new(big.Rat).Mul(rs, ro)), big.NewRat(e.S, 1)))
		Q.Add(Q, new(big.Rat).Mul(new(big.Rat).Mul(ro, ro), n))
		lo, hi := s*float64(e.Mn)+o, s*float64(e.Mx)+o
		if s < 0 {
			lo, hi = hi, lo
		}
		maxabs := math.Max(math.Abs(lo), math.Abs(hi))
		if ratF(a.Total).Cmp(S) != 0 {
			sum.viol("Total", c, "map (%g,%g) acc %d: Total=%v want %v", s, o, i+1, a.Total, rf(S))
		}
		if a.Min != lo || a.Max != hi {
			sum.viol("MinMax", c, "map (%g,%g) acc %d: Min,Max=%v,%v want %v,%v", s, o, i+1, a.Min, a.Max, lo, hi)
		}
		fn := float64(e.N)
		mean := new(big.Rat).Quo(S, n)
		if !closeRat(a.Mean(), mean, math.Max(1e-12, 1024*fn*eps)*maxabs, 0) {
			sum.viol("Mean", c, "map (%g,%g) acc %d: Mean=%v want %v", s, o, i+1, a.Mean(), rf(mean))
		}
		msq := new(big.Rat).Quo(Q, n)
		if r := a.RMS(); !closeRat(r*r, msq, 0, math.Max(1e-11, 4096*fn*eps)) {
			sum.viol("RMS", c, "map (%g,%g) acc %d: RMS=%v want sqrt(%v)", s, o, i+1, r, rf(msq))
		}
		if e.N >= 2 {
			vr := new(big.Rat).Sub(new(big.Rat).Mul(n, Q), new(big.Rat).Mul(S, S))
			vr.Quo(vr, big.NewRat(e.N*(e.N-1), 1))
			v := rf(vr)
			kappa := 1.0
			if v > 0 {
				kappa = math.Max(1, maxabs/math.Sqrt(v))
			}
			rtol := math.Max(1e-9, 1024*fn*eps*kappa)
			atol := 1024 * fn * eps * eps * maxabs * maxabs
			if !closeRat(a.Variance(), vr, atol, rtol) {
				sum.viol("Variance", c, "map (%g,%g) acc %d: Variance=%v want %v (rtol %g)", s, o, i+1, a.Variance(), v, rtol)
			}
			if sd := a.StdDev(); !closeRat(sd*sd, vr, 4*atol, 2*rtol) {
				sum.viol("StdDev", c, "map (%g,%g) acc %d: StdDev=%v want sqrt(%v)", s, o, i+1, sd, v)
			}
		}
	}
}

// ---- recording ----

type fdy struct {
	C string `json:"c"` // class
	D Dy     `json:"d"`
}

func mkfdy(x float64) fdy {
	c := fcls(x)
	if c != "fin" {
		return fdy{c, Dy{0, []int{}, 0}}
	}
	return fdy{c, dy(x)}
}

type sbig struct {
	S int   `json:"s"`
	M []int `json:"m"`
}

// sbigF encodes an integer-valued float exactly; ok=false if x is not an integer.
func sbigF(x float64) (sbig, bool) {
	if math.IsNaN(x) || math.IsInf(x, 0) || x != math.Trunc(x) {
		return sbig{0, []int{}}, false
	}
	bf := new(big.Float).SetFloat64(x)
	bi, _ := bf.Int(nil)
	s := bi.Sign()
	bi.Abs(bi)
	return sbig{s, limbs(bi)}, true
}

type streamEvent struct {
	Op   string    `json:"op"`
	A    int       `json:"a"`
	B    int       `json:"b"`
	V    int64     `json:"v"`
	N    int64     `json:"n"`
	Ok   int       `json:"ok"` // 1: tot/mn/mx are integer valued as expected for integer data
	Tot  sbig      `json:"tot"`
	Mn   sbig      `json:"mn"`
	Mx   sbig      `json:"mx"`
	Mean fdy       `json:"mean"`
	Var  fdy       `json:"var"`
	Sd   fdy       `json:"sd"`
	Rms  fdy       `json:"rms"`
	Rep  []repItem `json:"rep"`  // String() split into name=value items (names lower-cased)
	Barg int       `json:"barg"` // Combine: 1 iff the argument accumulator is bit-identical afterwards
	Seed int64     `json:"seed"`
	Idx  int       `json:"idx"`
}

func streamRecord(out io.Writer, args []string) error {
	rf := newRecFlags("stream", 100)
	maxOps := rf.fs.Int("ops", 60, "max operations per history")
	rf.fs.Parse(args)
	seed, n := rf.seed, rf.n
	enc := json.NewEncoder(out)
	for idx := 0; idx < *n; idx++ {
		if !rf.mine(idx) {
			continue
		}
		rng := rand.New(rand.NewSource(*seed*1000003 + int64(idx)))
		if err := enc.Encode(streamEvent{Op: "Reset", Seed: *seed, Idx: idx, Tot: sbig{0, []int{}}, Mn: sbig{0, []int{}}, Mx: sbig{0, []int{}},
			Mean: mkfdy(math.NaN()), Var: mkfdy(math.NaN()), Sd: mkfdy(math.NaN()), Rms: mkfdy(math.NaN()), Rep: []repItem{}}); err != nil {
			return err
		}
		const nacc = 6
		var acc [nacc]stats.StreamStats
		// value profile
		var off, spread int64
		switch rng.Intn(7) {
		case 5:
			off, spread = 1<<30, 15 // a common offset 2^26 times the spread (values stay within TLC integers)
		case 6:
			off, spread = -1000000000, 2
		case 0:
			off, spread = 0, 5
		case 1:
			off, spread = 0, 1000
		case 2:
			off, spread = 1000000, 50
		case 3:
			off, spread = -30000000, 3000
		case 4:
			off, spread = 7, 2
		}
		nops := 3 + rng.Intn(*maxOps)
		pComb := []float64{0.1, 0.3, 0.6}[rng.Intn(3)]
		for k := 0; k < nops; k++ {
			var ev streamEvent
			ev.Seed, ev.Idx = *seed, idx
			if rng.Float64() < pComb {
				a, b := rng.Intn(nacc), rng.Intn(nacc)
				if a == b && rng.Intn(3) != 0 { // now and then an accumulator is combined with itself: both parts are the same stream
					b = (a + 1) % nacc
				}
				if acc[a].Count+acc[b].Count > 1<<30 {
					// repeated merging doubles the counts; keep them inside the trace spec's 32-bit integers
					acc[a] = stats.StreamStats{}
					enc.Encode(streamEvent{Op: "Clear", A: a, Seed: *seed, Idx: idx, Tot: sbig{0, []int{}}, Mn: sbig{0, []int{}}, Mx: sbig{0, []int{}},
						Mean: mkfdy(math.NaN()), Var: mkfdy(math.NaN()), Sd: mkfdy(math.NaN()), Rms: mkfdy(math.NaN()), Rep: []repItem{}})
				}
				before := acc[b]
				acc[a].Combine(&acc[b])
				ev.Op, ev.A, ev.B = "Combine", a, b
				if acc[b] == before || (before.Count == 0 && acc[b].Count == 0 && acc[b].Total == before.Total) {
					ev.Barg = 1
				}
				streamFill(&ev, &acc[a])
			} else {
				a := rng.Intn(nacc)
				if rng.Intn(4) == 0 {
					a = rng.Intn(2) // concentrate so some accumulators stay empty for long
				}
				v := off + rng.Int63n(2*spread+1) - spread
				acc[a].Add(float64(v))
				ev.Op, ev.A, ev.V = "Add", a, v
				streamFill(&ev, &acc[a])
			}
			if err := enc.Encode(ev); err != nil {
				return err
			}
		}
	}
	return nil
}

type repItem struct {
	K string `json:"k"`
	V fdy    `json:"v"`
}

// streamReport splits the textual report into its name=value items.
func streamReport(txt string) []repItem {
	out := []repItem{}
	for _, f := range strings.Fields(txt) {
		k, v, ok := strings.Cut(f, "=")
		if !ok {
			continue
		}
		x, err := strconv.ParseFloat(strings.TrimRight(v, ",;"), 64)
		if err != nil {
			continue
		}
		k = strings.ToLower(k)
		if k == "sum" {
			k = "total"
		}
		out = append(out, repItem{k, mkfdy(x)})
	}
	return out
}

func streamFill(ev *streamEvent, s *stats.StreamStats) {
	ev.Rep = streamReport(s.String())
	ev.N = int64(s.Count)
	ok1, ok2, ok3 := false, false, false
	ev.Tot, ok1 = sbigF(s.Total)
	ev.Mn, ok2 = sbigF(s.Min)
	ev.Mx, ok3 = sbigF(s.Max)
	if ok1 && ok2 && ok3 {
		ev.Ok = 1
	}
	ev.Mean = mkfdy(s.Mean())
	ev.Var = mkfdy(s.Variance())
	ev.Sd = mkfdy(s.StdDev())
	ev.Rms = mkfdy(s.RMS())
	_ = fmt.Sprint
}
