package main

// Recorder for spec/scale/ScaleTrace.tla: random Linear / Log / QQ scales and points.

import (
	"encoding/json"
	"io"
	"math"
	"math/rand"

	"github.com/aclements/go-moremath/scale"
)

func init() {
	families["scalerec"] = &family{record: scaleRecord}
}

type scEvent struct {
	Op         string `json:"op"`
	Kind       string `json:"kind"`
	Min        fdy    `json:"min"`
	Max        fdy    `json:"max"`
	Clamp      int    `json:"clamp"`
	After      int    `json:"after"`
	First      int    `json:"first"`
	X          fdy    `json:"x"`
	Y          fdy    `json:"y"`
	Y0         fdy    `json:"y0"`
	Y1         fdy    `json:"y1"`
	Ya         fdy    `json:"ya"`
	Ym         fdy    `json:"ym"`
	Yb         fdy    `json:"yb"`
	X2         fdy    `json:"x2"`
	Yc         fdy    `json:"yc"`
	Yu         fdy    `json:"yu"`
	Z          fdy    `json:"z"`
	Zc         fdy    `json:"zc"`
	W          fdy    `json:"w"`
	Invertible int    `json:"invertible"`
	Seed       int64  `json:"seed"`
	Idx        int    `json:"idx"`
}

func scaleRecord(out io.Writer, args []string) error {
	rf := newRecFlags("scalerec", 60)
	pts := rf.fs.Int("pts", 20, "points per sweep")
	rf.fs.Parse(args)
	enc := json.NewEncoder(out)
	z := mkfdy(0)
	blank := scEvent{Min: z, Max: z, X: z, Y: z, Y0: z, Y1: z, Ya: z, Ym: z, Yb: z, X2: z, Yc: z, Yu: z, Z: z, Zc: z, W: z}
	for idx := 0; idx < *rf.n; idx++ {
		if !rf.mine(idx) {
			continue
		}
		rng := rand.New(rand.NewSource(*rf.seed*1000003 + int64(idx)))
		mk := func(op string) scEvent {
			e := blank
			e.Op, e.Seed, e.Idx = op, *rf.seed, idx
			return e
		}
		enc.Encode(mk("Reset"))
		mag := func() float64 { return logUniform(rng, 1e-12, 1e12) }
		newScale := func() (scale.Quantitative, string, float64, float64) {
			if rng.Intn(2) == 0 {
				a, b := mag(), mag()
				if rng.Intn(2) == 0 {
					a = -a
				}
				if rng.Intn(2) == 0 {
					b = -b
				}
				if rng.Intn(3) == 0 { // narrow domain far from the origin
					b = a * (1 + (rng.Float64()-0.5)*1e-3)
				}
				if rng.Intn(8) == 0 { // a very narrow domain very far from the origin: |Min| / width = 2^24 .. 2^38
					a = math.Copysign(logUniform(rng, 1e6, 1e12), a)
					b = a + a*math.Ldexp(1+rng.Float64(), -(24+rng.Intn(15)))*[]float64{1, -1}[rng.Intn(2)]
				}
				if rng.Intn(12) == 0 {
					b = a
				}
				return &scale.Linear{Min: a, Max: b}, "lin", a, b
			}
			a, b := mag(), mag()
			if rng.Intn(12) == 0 {
				b = a
			}
			if rng.Intn(2) == 0 {
				a, b = -a, -b
			}
			lg, err := scale.NewLog(a, b, []int{2, 3, 10, 16}[rng.Intn(4)])
			if err != nil {
				lg, _ = scale.NewLog(1, 10, 10)
				a, b = 1, 10
			}
			lg.Min, lg.Max = a, b // both orders
			return &lg, "log", a, b
		}
		s, kind, mn, mx := newScale()
		se := mk("SetScale")
		se.Kind, se.Min, se.Max = kind, mkfdy(mn), mkfdy(mx)
		enc.Encode(se)
		width := math.Abs(mx - mn)
		point := func() float64 {
			if kind == "lin" {
				return mn + (mx-mn)*(rng.Float64()*3-1) + []float64{0, 0, 100 * width, -100 * width}[rng.Intn(4)]*rng.Float64()
			}
			lo, hi := math.Log(math.Abs(mn)), math.Log(math.Abs(mx))
			return math.Copysign(math.Exp(lo+(hi-lo)*(rng.Float64()*3-1)), mn)
		}
		for _, clamp := range []bool{false, true, false} {
			ce := mk("SetClamp")
			ce.Clamp = b2i(clamp)
			s.SetClamp(clamp)
			switch t := s.(type) {
			case *scale.Linear:
				ce.After = b2i(t.Clamp)
			case *scale.Log:
				ce.After = b2i(t.Clamp)
			}
			enc.Encode(ce)
			if !clamp {
				e := mk("Ends")
				e.Y0, e.Y1 = mkfdy(s.Map(mn)), mkfdy(s.Map(mx))
				enc.Encode(e)
			}
			xs := []float64{mn, mx}
			for k := 0; k < *pts; k++ {
				xs = append(xs, point())
			}
			sortFloats(xs)
			first := 1
			prev := math.NaN()
			for _, x := range xs {
				if x == prev {
					continue
				}
				prev = x
				e := mk("Sweep")
				e.X, e.Y, e.First = mkfdy(x), mkfdy(s.Map(x)), first
				first = 0
				enc.Encode(e)
			}
			for k := 0; k < 6; k++ {
				x := point()
				if !clamp {
					e := mk("Inv")
					e.X, e.X2 = mkfdy(x), mkfdy(s.Unmap(s.Map(x)))
					if mn != mx {
						enc.Encode(e)
					}
					m := mk("Mid")
					if kind == "lin" {
						a, b := point(), point()
						mid := (a + b) / 2
						if mid-a == b-mid {
							m.Ya, m.Ym, m.Yb = mkfdy(s.Map(a)), mkfdy(s.Map(mid)), mkfdy(s.Map(b))
							enc.Encode(m)
						}
					} else {
						m.Ya, m.Ym, m.Yb = mkfdy(s.Map(x)), mkfdy(s.Map(2*x)), mkfdy(s.Map(4*x))
						enc.Encode(m)
					}
				}
			}
		}
		// clamp law on fresh copies of the same domain: random points, and points strictly inside the domain but within
		// 1e-11 .. 1e-15 of its width from an end
		for k := 0; k < 12; k++ {
			x := point()
			if k >= 6 {
				d := []float64{1e-11, 1e-13, 1e-15, 1 - 1e-11, 1 - 1e-13, 3e-12}[k-6]
				if kind == "lin" {
					x = mn + (mx-mn)*d
				} else {
					x = math.Copysign(math.Exp(math.Log(math.Abs(mn))+(math.Log(math.Abs(mx))-math.Log(math.Abs(mn)))*d), mn)
				}
			}
			var yu, yc float64
			switch t := s.(type) {
			case *scale.Linear:
				u, c := *t, *t
				u.Clamp, c.Clamp = false, true
				yu, yc = u.Map(x), c.Map(x)
			case *scale.Log:
				u, c := *t, *t
				u.Clamp, c.Clamp = false, true
				yu, yc = u.Map(x), c.Map(x)
			}
			e := mk("Clamp")
			e.X, e.Yu, e.Yc = mkfdy(x), mkfdy(yu), mkfdy(yc)
			enc.Encode(e)
		}
		if kind == "log" {
			for _, x := range []float64{0, -mn, -mx, math.Copysign(1e-300, -mn)} {
				e := mk("Bad")
				e.X, e.Y = mkfdy(x), mkfdy(s.Map(x))
				enc.Encode(e)
			}
		}
		// QQ with a second random scale
		d, _, dmn, dmx := newScale()
		qq := scale.QQ{Src: s, Dest: d}
		for k := 0; k < 8; k++ {
			x := point()
			e := mk("QQ")
			zv := qq.Map(x)
			e.X, e.Z, e.Zc, e.W = mkfdy(x), mkfdy(zv), mkfdy(d.Unmap(s.Map(x))), mkfdy(width)
			e.X2 = mkfdy(qq.Unmap(zv))
			if mn != mx && dmn != dmx && !math.IsNaN(zv) && math.Abs(zv) > 1e-280 && math.Abs(zv) < 1e280 { // not where the image under- or overflows
				// a map through a very long or very short destination loses precision legitimately; require invertibility
				// only when the intermediate position is moderate
				// ... and when neither domain is so narrow relative to its distance from the origin that positions in it
				// cannot be resolved to 1e-7 (a Linear domain at |Min| / width = 2^30 resolves positions to 2^-22 only)
				resolvable := func(lo, hi float64) bool {
					return math.Max(math.Abs(lo), math.Abs(hi)) < 1e6*math.Abs(hi-lo)
				}
				if y := s.Map(x); math.Abs(y) < 50 && resolvable(mn, mx) && resolvable(dmn, dmx) {
					e.Invertible = 1
				}
			}
			enc.Encode(e)
		}
		// the ticks API in between (clamping is off here): Ticks reads the scale, and what it read is still there
		// afterwards - Min maps to 0 and Max to 1 as configured, also for a decreasing domain
		func() {
			defer func() { recover() }() // ticks of exotic domains are C17's business; here only the scale matters
			switch t := s.(type) {
			case *scale.Linear:
				t.Ticks(scale.TickOptions{Max: 5})
			case *scale.Log:
				t.Ticks(scale.TickOptions{Max: 5})
			}
		}()
		{
			e := mk("Ends")
			e.Y0, e.Y1 = mkfdy(s.Map(mn)), mkfdy(s.Map(mx))
			enc.Encode(e)
		}
		// QQ with ONE scale object at both ends, clamped: still the composition Unmap(Map(x)) - out-of-domain points are pinned
		// to a bound, a degenerate domain sends everything to Min, a Log scale gives NaN for zero and the wrong sign
		ce := mk("SetClamp")
		ce.Clamp = 1
		s.SetClamp(true)
		switch t := s.(type) {
		case *scale.Linear:
			ce.After = b2i(t.Clamp)
		case *scale.Log:
			ce.After = b2i(t.Clamp)
		}
		enc.Encode(ce)
		same := scale.QQ{Src: s, Dest: s}
		for _, x := range []float64{point(), point(), point(), mn, mx, -mn, 0, mn + 3*(mx-mn)} {
			e := mk("QQ")
			zv := same.Map(x)
			e.X, e.Z, e.Zc, e.W = mkfdy(x), mkfdy(zv), mkfdy(s.Unmap(s.Map(x))), mkfdy(width)
			e.X2 = mkfdy(same.Unmap(zv))
			enc.Encode(e)
		}
		// Nice (clamping is on): it may widen the domain, and that is all it changes - the scale is still clamped.  The
		// model takes the new end points from the object and expects clamping as it was set
		if mn != mx {
			ok := true
			func() {
				defer func() {
					if recover() != nil {
						ok = false
					}
				}()
				switch t := s.(type) {
				case *scale.Linear:
					t.Nice(scale.TickOptions{Max: 6})
					mn, mx = t.Min, t.Max
				case *scale.Log:
					t.Nice(scale.TickOptions{Max: 6})
					mn, mx = t.Min, t.Max
				}
			}()
			if ok && mn != mx && !math.IsInf(mn, 0) && !math.IsInf(mx, 0) && !math.IsNaN(mn) && !math.IsNaN(mx) {
				se := mk("SetScale")
				se.Kind, se.Min, se.Max, se.Clamp = kind, mkfdy(mn), mkfdy(mx), 1
				enc.Encode(se)
				xs := []float64{mn, mx}
				if kind == "lin" {
					xs = append(xs, mn-3*(mx-mn), mx+2*(mx-mn), (mn+mx)/2)
				} else {
					xs = append(xs, mn/1000, mx*1000, mn*1000, mx/1000, math.Copysign(math.Sqrt(math.Abs(mn)*math.Abs(mx)), mn))
				}
				sortFloats(xs)
				first, prev := 1, math.NaN()
				for _, x := range xs {
					if x == prev || math.IsInf(x, 0) || x == 0 {
						continue
					}
					prev = x
					e := mk("Sweep")
					e.X, e.Y, e.First = mkfdy(x), mkfdy(s.Map(x)), first
					first = 0
					enc.Encode(e)
				}
			}
		}
	}
	return nil
}
