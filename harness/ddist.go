package main

// Family ddist (C06): stats.BinomialDist, stats.HypergeometicDist against spec/ddist/DiscDist.tla.

import (
	"encoding/json"
	"fmt"
	"io"
	"math"
	"math/big"

	"github.com/aclements/go-moremath/stats"
)

func init() {
	families["ddist"] = &family{replay: ddistReplay}
}

type ddCase struct {
	Kind  string  `json:"kind"`
	N     int     `json:"N"`
	K     int     `json:"K"`
	Draws int     `json:"n"`
	A     []int   `json:"a"`
	B     []int   `json:"b"`
	Lo    int     `json:"lo"`
	Hi    int     `json:"hi"`
	Den   []int   `json:"den"`
	Mass  [][]int `json:"mass"`
	MeanN int64   `json:"meann"`
	MeanD int64   `json:"meand"`
	VarN  int64   `json:"varn"`
	VarD  int64   `json:"vard"`
}

type discDist interface {
	PMF(float64) float64
	CDF(float64) float64
	Bounds() (float64, float64)
	Step() float64
	Mean() float64
	Variance() float64
}

func ddistReplay(in io.Reader, raw bool, args []string) (*Summary, error) {
	sum := &Summary{Rule: "one case per distribution (binomial N, P=a/b; hypergeometric N, K, Draws) emitted by TLC with the exact BigInt mass vector; PMF and CDF are evaluated at every integer from 3 below to 3 above the support and at k+0.5, k-0.5 (non-integer arguments are floored); non-trivial = support of at least 3 points"}
	worst := 0.0
	ddistColdStart(sum)
	err := forEachCase(in, raw, func(c json.RawMessage) {
		var dc ddCase
		if e := json.Unmarshal(c, &dc); e != nil || len(dc.Mass) == 0 {
			sum.viol("machinery", c, "bad case: %v", e)
			return
		}
		sum.Cases++
		if dc.Hi-dc.Lo >= 2 {
			sum.Nontrivial++
			if sum.Nontrivial%331 == 1 {
				sum.sample(c)
			}
		}
		defer func() {
			if r := recover(); r != nil {
				sum.viol("panic", c, "panic: %v", r)
			}
		}()
		den := fromLimbs(dc.Den)
		var d discDist
		var mean, variance *big.Rat
		var p float64
		if dc.Kind == "binomial" {
			pr := new(big.Rat).SetFrac(fromLimbs(dc.A), fromLimbs(dc.B))
			p = rf(pr)
			bd := stats.BinomialDist{N: dc.N, P: p}
			d = bd
			// moments for the float P actually passed (the exact value a/b differs from it by < 1 ulp)
			pf := ratF(p)
			mean = new(big.Rat).Mul(big.NewRat(int64(dc.N), 1), pf)
			variance = new(big.Rat).Mul(mean, new(big.Rat).Sub(big.NewRat(1, 1), pf))
			na := bd.NormalApprox()
			if !closeRat(na.Mu, mean, 1e-300, 1e-12) || !closeF(na.Sigma, math.Sqrt(rf(variance)), 1e-300, 1e-12) {
				sum.viol("NormalApprox", c, "NormalApprox=%+v want mean %v sd %v", na, rf(mean), math.Sqrt(rf(variance)))
			}
		} else {
			d = stats.HypergeometicDist{N: dc.N, K: dc.K, Draws: dc.Draws}
			mean = big.NewRat(dc.MeanN, dc.MeanD)
			if dc.VarD != 0 {
				variance = big.NewRat(dc.VarN, dc.VarD)
			}
		}
		// far outside the support, up to the largest floats and the infinities: zero mass; CDF 0 below and 1 above
		for _, x := range []float64{1e6 + 0.5, 4.5e18, math.Ldexp(1, 62), math.Ldexp(1, 63), 1e19, 1e300, math.MaxFloat64, math.Inf(1)} {
			sum.Checks++
			if gp, gc := d.PMF(x), d.CDF(x); gp != 0 || gc != 1 {
				sum.viol("support", c, "far above the support at %v: PMF=%v CDF=%v", x, gp, gc)
			}
			if gp, gc := d.PMF(-x), d.CDF(-x); gp != 0 || gc != 0 {
				sum.viol("support", c, "far below the support at %v: PMF=%v CDF=%v", -x, gp, gc)
			}
		}
		sum.Checks++
		if lo, hi := d.Bounds(); lo != float64(dc.Lo) || hi != float64(dc.Hi) {
			sum.viol("Bounds", c, "Bounds=(%v,%v) want (%d,%d)", lo, hi, dc.Lo, dc.Hi)
		}
		if d.Step() != 1 {
			sum.viol("Step", c, "Step=%v", d.Step())
		}
		if !closeRat(d.Mean(), mean, 1e-300, 1e-12) {
			sum.viol("Mean", c, "Mean=%v want %v", d.Mean(), rf(mean))
		}
		if variance != nil && !closeRat(d.Variance(), variance, 1e-300, 1e-12) {
			sum.viol("Variance", c, "Variance=%v want %v", d.Variance(), rf(variance))
		}
		cum := new(big.Int)
		for k := dc.Lo - 3; k <= dc.Hi+3; k++ {
			wantP := new(big.Rat)
			if k >= dc.Lo && k <= dc.Hi {
				m := fromLimbs(dc.Mass[k-dc.Lo])
				cum.Add(cum, m)
				wantP.SetFrac(m, den)
			}
			wantC := new(big.Rat).SetFrac(cum, den)
			for oi, off := range []float64{0, 0.5, -0.5, -1e-10, -1e-13, 0} {
				x := float64(k) + off
				if oi == 5 {
					if k != 0 {
						continue
					}
					x = math.Copysign(0, -1) // -0 is the number 0, however it was produced
				}
				if off < 0 && off > -0.5 && x == float64(k) {
					continue // not representable below k at this magnitude
				}
				wp, wc := wantP, wantC
				if off < 0 { // floors to k-1
					wp, wc = new(big.Rat), new(big.Rat)
					if k-1 >= dc.Lo && k-1 <= dc.Hi {
						wp.SetFrac(fromLimbs(dc.Mass[k-1-dc.Lo]), den)
					}
					prev := new(big.Int).Set(cum)
					if k >= dc.Lo && k <= dc.Hi {
						prev.Sub(prev, fromLimbs(dc.Mass[k-dc.Lo]))
					}
					wc.SetFrac(prev, den)
				}
				sum.Checks++
				gp, gc := d.PMF(x), d.CDF(x)
				if !closeRat(gp, wp, 1e-10, 0) {
					sum.viol("PMF", c, "PMF(%v)=%.15g want %.15g", x, gp, rf(wp))
				}
				if !closeRat(gc, wc, 1e-10, 0) {
					sum.viol("CDF", c, "CDF(%v)=%.15g want %.15g", x, gc, rf(wc))
				}
				if e := math.Abs(gc - rf(wc)); e > worst && !math.IsNaN(e) {
					worst = e
				}
				fl := int(math.Floor(x))
				if fl < dc.Lo && (gp != 0 || gc != 0) {
					sum.viol("support", c, "below the support at %v: PMF=%v CDF=%v", x, gp, gc)
				}
				if fl > dc.Hi && (gp != 0 || gc != 1) {
					sum.viol("support", c, "above the support at %v: PMF=%v CDF=%v", x, gp, gc)
				}
			}
		}
	})
	sum.note("worst_cdf_abs_error", worst)
	return sum, err
}

// ddistColdStart: the discrete distributions as the first calls of the process, concurrently and with differing sizes.
func ddistColdStart(sum *Summary) {
	var names []string
	var calls []func() float64
	add := func(name string, f func() float64) { names, calls = append(names, name), append(calls, f) }
	var sizes []int
	for n := 21; n <= 1000; n = n + 1 + n/9 {
		sizes = append(sizes, n)
	}
	// one function at a time over growing sizes, so that the calls released together differ in size
	for _, n := range sizes {
		n := n
		b := stats.BinomialDist{N: n, P: 0.3}
		add(fmt.Sprintf("%+v.PMF(%d)", b, n/3), func() float64 { return b.PMF(float64(n / 3)) })
	}
	for _, n := range sizes {
		n := n
		h := stats.HypergeometicDist{N: n + 3, K: n / 2, Draws: n / 3}
		add(fmt.Sprintf("%+v.PMF(%d)", h, n/6), func() float64 { return h.PMF(float64(n / 6)) })
	}
	for _, n := range sizes {
		n := n
		b := stats.BinomialDist{N: n + 1, P: 0.3}
		add(fmt.Sprintf("%+v.CDF(%d)", b, n/3), func() float64 { return b.CDF(float64(n / 3)) })
		h := stats.HypergeometicDist{N: n + 2, K: n / 2, Draws: n / 3}
		add(fmt.Sprintf("%+v.CDF(%d)", h, n/6), func() float64 { return h.CDF(float64(n / 6)) })
	}
	concurrentFirst(sum, "discrete distributions", names, calls)
}
