package main

// Family special (C08): mathx against spec/special/Special.tla (replay) and SpecialTrace.tla (recorded laws).

import (
	"encoding/json"
	"fmt"
	"io"
	"math"
	"math/big"
	"math/rand"

	"github.com/aclements/go-moremath/mathx"
	"gonum.org/v1/gonum/mathext"
)

func init() {
	families["special"] = &family{replay: specialReplay, record: specialRecord}
}

type spGridB struct {
	A  [2]int64   `json:"a"`
	B  [2]int64   `json:"b"`
	Xs [][2]int64 `json:"xs"`
}
type spGridG struct {
	A  [2]int64   `json:"a"`
	Xs [][2]int64 `json:"xs"`
}
type spCase struct {
	Kind  string    `json:"kind"`
	N     int       `json:"n"`
	Row   [][]int   `json:"row"`
	A     int       `json:"a"`
	B     int       `json:"b"`
	P     int64     `json:"p"`
	Q     int64     `json:"q"`
	Num   []int     `json:"num"`
	Den   []int     `json:"den"`
	BNum  []int     `json:"bnum"`
	BDen  []int     `json:"bden"`
	Beta  []spGridB `json:"beta"`
	Gamma []spGridG `json:"gamma"`
}

func bigLog(x *big.Int) float64 {
	// ln of a (possibly huge) positive integer
	f := new(big.Float).SetInt(x)
	mant := new(big.Float)
	exp := f.MantExp(mant)
	m, _ := mant.Float64()
	return math.Log(m) + float64(exp)*math.Ln2
}

func specialReplay(in io.Reader, raw bool, args []string) (*Summary, error) {
	sum := &Summary{Rule: "one case per Pascal row n (all k from -1 to n+1), per integer-parameter BetaInc lattice point (a, b, x = p/q) with the exact rational value and Beta(a,b), and one parameter-grid case for the off-lattice comparison with gonum/mathext; non-trivial = row n >= 2 / 0 < x < 1"}
	worst := map[string]float64{}
	note := func(k string, e float64) {
		if e > worst[k] && !math.IsNaN(e) {
			worst[k] = e
		}
	}
	err := forEachCase(in, raw, func(c json.RawMessage) {
		var sc spCase
		if e := json.Unmarshal(c, &sc); e != nil {
			sum.viol("machinery", c, "bad case: %v", e)
			return
		}
		sum.Cases++
		defer func() {
			if r := recover(); r != nil {
				sum.viol("panic", c, "panic: %v", r)
			}
		}()
		switch sc.Kind {
		case "choose":
			n := sc.N
			if n >= 2 {
				sum.Nontrivial++
				if n == 7 || n == 64 {
					sum.sample(c)
				}
			}
			small := json.RawMessage([]byte(`{"kind":"choose","n":` + itoa(n) + `}`))
			for k := -2; k <= n+2; k++ {
				sum.Checks++
				got := mathx.Choose(n, k)
				lg := mathx.Lchoose(n, k)
				if k < 0 || k > n {
					if got != 0 {
						sum.viol("Choose", small, "Choose(%d,%d)=%v want 0", n, k, got)
					}
					if !math.IsNaN(lg) {
						sum.viol("Lchoose", small, "Lchoose(%d,%d)=%v want NaN", n, k, lg)
					}
					continue
				}
				want := fromLimbs(sc.Row[k])
				wf, _ := new(big.Float).SetInt(want).Float64()
				if n <= 20 {
					if got != wf {
						sum.viol("Choose", small, "Choose(%d,%d)=%v want exactly %v", n, k, got, wf)
					}
				} else if !closeF(got, wf, 0, 1e-10) {
					sum.viol("Choose", small, "Choose(%d,%d)=%.17g want %.17g", n, k, got, wf)
				}
				if wf != 0 && !math.IsInf(wf, 0) {
					note("choose-rel", math.Abs(got-wf)/wf)
				}
				if o := mathx.Choose(n, n-k); !closeF(got, o, 0, 2e-10) {
					sum.viol("Choose-symmetry", small, "Choose(%d,%d) != Choose(%d,%d)", n, k, n, n-k)
				}
				wl := bigLog(want)
				if !closeF(lg, wl, 1e-10, 1e-10) {
					sum.viol("Lchoose", small, "Lchoose(%d,%d)=%.15g want %.15g", n, k, lg, wl)
				}
			}
		case "betainc":
			x := float64(sc.P) / float64(sc.Q)
			if sc.P > 0 && sc.P < sc.Q {
				sum.Nontrivial++
				if sum.Nontrivial%997 == 1 {
					sum.sample(c)
				}
			}
			want := new(big.Rat).SetFrac(fromLimbs(sc.Num), fromLimbs(sc.Den))
			sum.Checks++
			got := mathx.BetaInc(x, float64(sc.A), float64(sc.B))
			// the float x differs from p/q by <= 1 ulp: dI/dx <= 1/B(a,b) max density; allow for it
			if !closeRat(got, want, 1e-9, 0) {
				sum.viol("BetaInc", c, "BetaInc(%d/%d,%d,%d)=%.15g want %.15g", sc.P, sc.Q, sc.A, sc.B, got, rf(want))
			}
			note("betainc-lattice", math.Abs(got-rf(want)))
			if got < 0 || got > 1 {
				sum.viol("BetaInc-range", c, "BetaInc=%v", got)
			}
			if sc.P == 0 && got != 0 || sc.P == sc.Q && got != 1 {
				sum.viol("BetaInc-ends", c, "BetaInc(%v,%d,%d)=%v", x, sc.A, sc.B, got)
			}
			if sc.P == 1 && sc.Q == 2 {
				wb := new(big.Rat).SetFrac(fromLimbs(sc.BNum), fromLimbs(sc.BDen))
				if gb := mathx.Beta(float64(sc.A), float64(sc.B)); !closeRat(gb, wb, 0, 1e-9) {
					sum.viol("Beta", c, "Beta(%d,%d)=%.15g want %.15g", sc.A, sc.B, gb, rf(wb))
				}
			}
		case "grid":
			sum.Nontrivial++
			sum.sample(json.RawMessage(`{"kind":"grid","note":"parameter grid, see spec/special/Special.tla ABGrid/XBase/GammaAs"}`))
			for _, g := range sc.Beta {
				a, b := float64(g.A[0])/float64(g.A[1]), float64(g.B[0])/float64(g.B[1])
				for _, xr := range g.Xs {
					x := float64(xr[0]) / float64(xr[1])
					for _, dx := range []float64{0, 1e-3, -1e-3, 1e-9} {
						xx := x + dx
						if xx < 0 || xx > 1 {
							continue
						}
						sum.Checks++
						got, want := mathx.BetaInc(xx, a, b), mathext.RegIncBeta(a, b, xx)
						if !closeF(got, want, 1e-9, 0) {
							sum.viol("BetaInc-accuracy", c, "BetaInc(%v,%v,%v)=%.15g, independent value %.15g", xx, a, b, got, want)
						}
						note("betainc-grid", math.Abs(got-want))
						if s := got + mathx.BetaInc(1-xx, b, a); math.Abs(s-1) > 1e-9 {
							sum.viol("BetaInc-symmetry", c, "BetaInc(%v,%v,%v)+BetaInc(1-x,b,a)=%.15g", xx, a, b, s)
						}
					}
				}
				// small x between the grid's 1e-6 and the end point (a window where a series or a shortcut may take over)
				for _, xx := range []float64{3e-7, 1e-8, 3e-10, 9.9e-11, 5e-11, math.Ldexp(1, -34), math.Ldexp(1, -35), 1e-11, 1e-13} {
					sum.Checks++
					got, want := mathx.BetaInc(xx, a, b), mathext.RegIncBeta(a, b, xx)
					if !closeF(got, want, 1e-9, 0) {
						sum.viol("BetaInc-accuracy", c, "BetaInc(%v,%v,%v)=%.15g, independent value %.15g (small x)", xx, a, b, got, want)
					}
					// the reflection identity only where 1-x is exact (the float 1-x of a decimal x is another point)
					if 1-(1-xx) == xx {
						if s := got + mathx.BetaInc(1-xx, b, a); math.Abs(s-1) > 1e-9 {
							sum.viol("BetaInc-symmetry", c, "BetaInc(%v,%v,%v)+BetaInc(1-x,b,a)=%.15g", xx, a, b, s)
						}
					}
				}
				// x within a float spacing of 0 and of 1, down to the smallest floats, where closed forms exist:
				// I_x(a, 1) = x^a and I_x(1, b) = 1 - (1 - x)^b
				if a == 1 || b == 1 {
					for _, xx := range []float64{5e-324, 1e-300, 1e-100, 1e-17, math.Ldexp(1, -53), math.Ldexp(1, -52), 1e-9, 1 - 1e-9, 1 - math.Ldexp(1, -52), 1 - math.Ldexp(1, -53)} {
						var want float64
						if b == 1 {
							want = math.Pow(xx, a)
						} else {
							want = -math.Expm1(b * math.Log1p(-xx))
						}
						sum.Checks++
						if got := mathx.BetaInc(xx, a, b); !closeF(got, want, 1e-9, 0) {
							sum.viol("BetaInc-accuracy", c, "BetaInc(%v,%v,%v)=%.15g, closed form %.15g (next to an end point)", xx, a, b, got, want)
						}
					}
				}
				// the neighbourhood of x = (a+1)/(a+b+2), where implementations of the continued fraction switch to the
				// reflected form 1 - I_{1-x}(b, a): both sides of the switch, float by float
				t := (a + 1) / (a + b + 2)
				for _, t0 := range []float64{t, 1 - (b+1)/(a+b+2)} {
					up, dn := t0, t0
					for k := 0; k < 4; k++ {
						for _, xx := range []float64{up, dn} {
							if xx <= 0 || xx >= 1 {
								continue
							}
							sum.Checks++
							got, want := mathx.BetaInc(xx, a, b), mathext.RegIncBeta(a, b, xx)
							if !closeF(got, want, 1e-9, 0) {
								sum.viol("BetaInc-accuracy", c, "BetaInc(%v,%v,%v)=%.15g, independent value %.15g (next to the symmetry switch)", xx, a, b, got, want)
							}
							if s := got + mathx.BetaInc(1-xx, b, a); math.Abs(s-1) > 1e-9 {
								sum.viol("BetaInc-symmetry", c, "BetaInc(%v,%v,%v)+BetaInc(1-x,b,a)=%.15g", xx, a, b, s)
							}
						}
						up, dn = math.Nextafter(up, 2), math.Nextafter(dn, -1)
					}
				}
				for _, bad := range []float64{-1e-9, 1 + 1e-9, -3, 7, math.Inf(1), math.NaN()} {
					if v := mathx.BetaInc(bad, a, b); !math.IsNaN(v) {
						sum.viol("BetaInc-domain", c, "BetaInc(%v,%v,%v)=%v want NaN", bad, a, b, v)
					}
				}
			}
			for _, g := range sc.Gamma {
				a := float64(g.A[0]) / float64(g.A[1])
				for _, xr := range g.Xs {
					x := float64(xr[0]) / float64(xr[1])
					sum.Checks++
					p, q := mathx.GammaInc(a, x), mathx.GammaIncComp(a, x)
					wp, wq := mathext.GammaIncReg(a, x), mathext.GammaIncRegComp(a, x)
					if x > 20*(a+10) { // far in the upper tail the values are 1 and 0 to within 1e-30 whatever a library says
						wp, wq = 1, 0
					}
					if !closeF(p, wp, 1e-9, 0) || !closeF(q, wq, 1e-9, 0) {
						sum.viol("GammaInc-accuracy", c, "GammaInc(%v,%v)=%.15g GammaIncComp=%.15g, independent values %.15g %.15g", a, x, p, q, wp, wq)
					}
					note("gammainc-grid", math.Max(math.Abs(p-wp), math.Abs(q-wq)))
				}
				nz := math.Copysign(0, -1)
				for _, bad := range [][2]float64{{0, 1}, {-1, 1}, {a, -1e-9}, {math.NaN(), 1}, {a, math.NaN()},
					// an invalid shape stays invalid at x = 0 (where a valid one gives exactly 0 and 1)
					{0, 0}, {-1, 0}, {nz, nz}, {-2.5, nz}, {math.Inf(-1), 0}, {math.NaN(), 0}, {0, math.Inf(1)}, {-1, math.Inf(1)}} {
					if v, w := mathx.GammaInc(bad[0], bad[1]), mathx.GammaIncComp(bad[0], bad[1]); !math.IsNaN(v) || !math.IsNaN(w) {
						sum.viol("GammaInc-domain", c, "GammaInc(%v,%v)=%v, Comp=%v want NaN", bad[0], bad[1], v, w)
					}
				}
			}
			// Beta(a,b) = Gamma(a) Gamma(b) / Gamma(a+b) over the parameter range, including sums around the overflow point of Gamma (171.62)
			for _, a := range []float64{0.05, 0.5, 1, 2.5, 10.5, 75.25, 100.25, 171.25, 171.55, 300} {
				for _, b := range []float64{0.05, 0.5, 1, 0.45, 71.5, 100, 300} {
					la, _ := math.Lgamma(a)
					lb, _ := math.Lgamma(b)
					lab, _ := math.Lgamma(a + b)
					want := math.Exp(la + lb - lab)
					sum.Checks++
					if got := mathx.Beta(a, b); !closeF(got, want, 0, 1e-9) {
						sum.viol("Beta", c, "Beta(%v,%v)=%.15g want %.15g", a, b, got, want)
					}
					if got, sw := mathx.Beta(a, b), mathx.Beta(b, a); !closeF(got, sw, 0, 1e-12) {
						sum.viol("Beta", c, "Beta(%v,%v)=%v but Beta(%v,%v)=%v", a, b, got, b, a, sw)
					}
				}
			}
			for _, t := range []struct{ x, w float64 }{{-3, -1}, {math.Inf(-1), -1}, {0, 0}, {math.Copysign(0, -1), 0}, {5e-324, 1}, {math.Inf(1), 1}} {
				if g := mathx.Sign(t.x); g != t.w {
					sum.viol("Sign", c, "Sign(%v)=%v want %v", t.x, g, t.w)
				}
			}
			if g := mathx.Sign(math.NaN()); !math.IsNaN(g) {
				sum.viol("Sign", c, "Sign(NaN)=%v", g)
			}
		}
	})
	gammaMonotoneHunt(sum)
	specialConcurrent(sum)
	sum.note("worst_abs_or_rel_error", worst)
	return sum, err
}

// specialConcurrent: the special functions evaluated by many goroutines at once, every goroutine with other parameters.
func specialConcurrent(sum *Summary) {
	var names []string
	var calls []func() float64
	add := func(name string, f func() float64) { names, calls = append(names, name), append(calls, f) }
	shapes := []float64{0.5, 0.75, 1, 1.5, 2, 2.5, 3, 4.25, 7, 8, 16, 33.5, 100}
	for _, a := range shapes {
		for _, b := range shapes {
			a, b := a, b
			add(fmt.Sprintf("Beta(%v,%v)", a, b), func() float64 { return mathx.Beta(a, b) })
			for _, x := range []float64{0.05, 0.3, 0.5, 0.8, 0.97} {
				x := x
				add(fmt.Sprintf("BetaInc(%v,%v,%v)", x, a, b), func() float64 { return mathx.BetaInc(x, a, b) })
			}
		}
		for _, x := range []float64{0.1, 0.9, 2, 5.5, 20, 120} {
			a, x := a, x
			add(fmt.Sprintf("GammaInc(%v,%v)", a, x), func() float64 { return mathx.GammaInc(a, x) })
			add(fmt.Sprintf("GammaIncComp(%v,%v)", a, x), func() float64 { return mathx.GammaIncComp(a, x) })
		}
	}
	for n := 3; n <= 180; n += 7 {
		for _, k := range []int{1, n / 3, n / 2} {
			n, k := n, k
			add(fmt.Sprintf("Choose(%d,%d)", n, k), func() float64 { return mathx.Choose(n, k) })
		}
	}
	concurrentSame(sum, "mathx special functions", names, calls)
}

func itoa(n int) string {
	b, _ := json.Marshal(n)
	return string(b)
}

type spEvent struct {
	Op    string `json:"op"`
	F     string `json:"f"`
	First int    `json:"first"`
	A     fdy    `json:"a"`
	B     fdy    `json:"b"`
	X     fdy    `json:"x"`
	Y     fdy    `json:"y"`
	Y1    fdy    `json:"y1"`
	Y2    fdy    `json:"y2"`
	P     fdy    `json:"p"`
	Q     fdy    `json:"q"`
	Q1    fdy    `json:"q1"`
	Q2    fdy    `json:"q2"`
	Q12   fdy    `json:"q12"`
	P0    fdy    `json:"p0"`
	P1    fdy    `json:"p1"`
	P2    fdy    `json:"p2"`
	R     fdy    `json:"r"`
	Seed  int64  `json:"seed"`
	Idx   int    `json:"idx"`
}

// logUniform draws from [lo, hi] log-uniformly and rounds to 20 significant bits (so sums like 1-x, x+y stay exact).
func logUniform(rng *rand.Rand, lo, hi float64) float64 {
	v := math.Exp(math.Log(lo) + rng.Float64()*(math.Log(hi)-math.Log(lo)))
	fr, e := math.Frexp(v)
	return math.Ldexp(math.Round(fr*(1<<20))/(1<<20), e)
}

func specialRecord(out io.Writer, args []string) error {
	rf := newRecFlags("special", 60)
	pts := rf.fs.Int("pts", 40, "points per sweep")
	rf.fs.Parse(args)
	enc := json.NewEncoder(out)
	z := mkfdy(0)
	blank := spEvent{A: z, B: z, X: z, Y: z, Y1: z, Y2: z, P: z, Q: z, Q1: z, Q2: z, Q12: z, P0: z, P1: z, P2: z, R: z}
	for idx := 0; idx < *rf.n; idx++ {
		if !rf.mine(idx) {
			continue
		}
		rng := rand.New(rand.NewSource(*rf.seed*1000003 + int64(idx)))
		ev := blank
		ev.Op, ev.Seed, ev.Idx = "Reset", *rf.seed, idx
		enc.Encode(ev)
		mk := func(op string) spEvent {
			e := blank
			e.Op, e.Seed, e.Idx = op, *rf.seed, idx
			return e
		}
		// BetaInc sweep
		a, b := logUniform(rng, 0.05, 300), logUniform(rng, 0.05, 300)
		xs := []float64{0, 1}
		mean, sw := a/(a+b), (a+1)/(a+b+2)
		for k := 0; k < *pts; k++ {
			var x float64
			switch rng.Intn(5) {
			case 0:
				x = logUniform(rng, 1e-12, 1)
			case 1:
				x = 1 - logUniform(rng, 1e-12, 1)
			case 2:
				x = mean + (rng.Float64()-0.5)*0.2*math.Min(mean, 1-mean)
			case 3:
				x = sw + (rng.Float64()-0.5)*1e-3
			default:
				x = rng.Float64()
			}
			if x >= 0 && x <= 1 {
				xs = append(xs, math.Round(x*(1<<40))/(1<<40))
			}
		}
		sortFloats(xs)
		for k, x := range xs {
			e := mk("BetaPt")
			e.A, e.B, e.X, e.Y = mkfdy(a), mkfdy(b), mkfdy(x), mkfdy(mathx.BetaInc(x, a, b))
			if k == 0 {
				e.First = 1
			}
			enc.Encode(e)
		}
		for k := 0; k < 6; k++ {
			x := math.Round(rng.Float64()*(1<<30)) / (1 << 30)
			e := mk("BetaSym")
			e.A, e.B, e.X = mkfdy(a), mkfdy(b), mkfdy(x)
			e.Y1, e.Y2 = mkfdy(mathx.BetaInc(x, a, b)), mkfdy(mathx.BetaInc(1-x, b, a))
			enc.Encode(e)
		}
		// GammaInc sweep
		ga := logUniform(rng, 0.05, 300)
		gx := []float64{0}
		for k := 0; k < *pts; k++ {
			var x float64
			switch rng.Intn(4) {
			case 0:
				x = logUniform(rng, 1e-9, 2000)
				if rng.Intn(4) == 0 {
					x = logUniform(rng, 2000, 1e15) // far upper tail
				}
			case 1:
				x = ga + 1 + (rng.Float64()-0.5)*1e-2 // the series / continued-fraction switch-over
			case 2:
				x = ga * (0.5 + rng.Float64())
			default:
				x = ga + (rng.Float64()-0.5)*6*math.Sqrt(ga)
			}
			if x >= 0 {
				gx = append(gx, x)
			}
		}
		sortFloats(gx)
		for k, x := range gx {
			e := mk("GammaPt")
			e.A, e.X, e.P, e.Q = mkfdy(ga), mkfdy(x), mkfdy(mathx.GammaInc(ga, x)), mkfdy(mathx.GammaIncComp(ga, x))
			if k == 0 {
				e.First = 1
			}
			enc.Encode(e)
		}
		for k := 0; k < 6; k++ {
			x, y := logUniform(rng, 1e-3, 30), logUniform(rng, 1e-3, 30)
			if (x+y)-x != y {
				continue
			}
			e := mk("GammaMul")
			e.Q1, e.Q2, e.Q12 = mkfdy(mathx.GammaIncComp(1, x)), mkfdy(mathx.GammaIncComp(1, y)), mkfdy(mathx.GammaIncComp(1, x+y))
			enc.Encode(e)
			ra, rx := logUniform(rng, 0.05, 298), logUniform(rng, 1e-3, 400)
			if (ra+1)-1 != ra || (ra+2)-2 != ra {
				continue
			}
			r := mk("GammaRec")
			r.A, r.X = mkfdy(ra), mkfdy(rx)
			r.P0, r.P1, r.P2 = mkfdy(mathx.GammaInc(ra, rx)), mkfdy(mathx.GammaInc(ra+1, rx)), mkfdy(mathx.GammaInc(ra+2, rx))
			enc.Encode(r)
		}
		for _, bad := range []struct {
			f       string
			x, a, b float64
		}{{"BetaInc", -1e-9, a, b}, {"BetaInc", 1 + 1e-9, a, b}, {"BetaInc", math.NaN(), a, b}, {"GammaInc", -1e-9, ga, 0}, {"GammaInc", 1, 0, 0}, {"GammaInc", 1, -2, 0},
			{"GammaInc", math.NaN(), ga, 0}, {"GammaInc", 1, math.NaN(), 0}, {"GammaIncComp", -1, ga, 0}, {"GammaIncComp", 1, 0, 0}, {"GammaIncComp", math.NaN(), ga, 0}} {
			e := mk("NaNDom")
			e.F = bad.f
			switch bad.f {
			case "BetaInc":
				e.R = mkfdy(mathx.BetaInc(bad.x, bad.a, bad.b))
			case "GammaInc":
				e.R = mkfdy(mathx.GammaInc(bad.a, bad.x))
			default:
				e.R = mkfdy(mathx.GammaIncComp(bad.a, bad.x))
			}
			enc.Encode(e)
		}
	}
	return nil
}

func sortFloats(x []float64) {
	for i := 1; i < len(x); i++ {
		for j := i; j > 0 && x[j] < x[j-1]; j-- {
			x[j], x[j-1] = x[j-1], x[j]
		}
	}
}

// gammaMonotoneHunt: "monotone in x" where a tolerance of 1e-9 cannot see - an evaluation whose accuracy changes in steps
// (a series or continued fraction cut off after a varying number of terms) is accurate everywhere and still steps BACK
// between two neighbouring floats.  Two searches: (1) the floats on both sides of the switch-over x = a + 1 for many
// shapes; (2) along a grid beyond it, the deviation from an independent evaluation - wherever it changes by more than 3e-11
// between two grid points the jump is chased by bisection down to two neighbouring floats, and there monotonicity is
// demanded exactly (1e-13).  On an implementation that is accurate to ~1e-14 the second search never starts.
func gammaMonotoneHunt(sum *Summary) {
	c := json.RawMessage(`{"gamma-monotone":1}`)
	const slack = 1e-13
	pair := func(a, lo, hi float64, how string) {
		sum.Checks++
		p1, p2 := mathx.GammaInc(a, lo), mathx.GammaInc(a, hi)
		q1, q2 := mathx.GammaIncComp(a, lo), mathx.GammaIncComp(a, hi)
		if !(p2 >= p1-slack) || !(q2 <= q1+slack) {
			sum.viol("GammaInc-monotone", c, "a=%v (%s): GammaInc(%.17g)=%.17g > GammaInc(%.17g)=%.17g or GammaIncComp %.17g < %.17g - neighbouring floats out of order", a, how, lo, p1, hi, p2, q1, q2)
		}
	}
	for i := 0; i < 240; i++ {
		a := 0.05 + float64(i)*0.4171
		x := a + 1
		pair(a, math.Nextafter(x, 0), x, "switch-over")
		pair(a, x, math.Nextafter(x, math.Inf(1)), "switch-over")
	}
	reported := 0
	for _, a := range []float64{0.3, 0.5, 1, 1.75, 2.5, 4, 7, 10.5, 17.25, 33, 60, 100} {
		top := a + 1 + 14*math.Sqrt(a) + 12
		const N = 600
		dev := func(x float64) float64 { return mathx.GammaInc(a, x) - mathext.GammaIncReg(a, x) }
		prevX, prevD := a+1.0000001, dev(a+1.0000001)
		for k := 1; k <= N && reported < 3; k++ {
			x := a + 1.0000001 + (top-a-1)*float64(k)/N
			d := dev(x)
			if math.Abs(d-prevD) > 3e-11 {
				lo, hi, dlo, dhi := prevX, x, prevD, d
				for it := 0; it < 80 && math.Nextafter(lo, hi) < hi; it++ {
					mid := lo + (hi-lo)/2
					dm := dev(mid)
					if math.Abs(dm-dlo) >= math.Abs(dhi-dm) {
						hi, dhi = mid, dm
					} else {
						lo, dlo = mid, dm
					}
				}
				before := len(sum.Violations)
				pair(a, lo, hi, "jump in the deviation from an independent evaluation")
				if len(sum.Violations) > before {
					reported++
				}
			}
			prevX, prevD = x, d
		}
	}
}
