package main

// Family scale (C16): scale.Linear, scale.Log, scale.QQ, NewLog against spec/scale/Scale.tla.

import (
	"encoding/json"
	"errors"
	"io"
	"math"
	"math/big"

	"github.com/aclements/go-moremath/scale"
)

func init() {
	families["scale"] = &family{replay: scaleReplay}
}

type scSpec struct {
	Kind  string `json:"kind"`
	Min   int64  `json:"min"`
	Max   int64  `json:"max"`
	Clamp bool   `json:"clamp"`
	Base  int    `json:"base"`
	Sign  int    `json:"sign"`
	KMin  int    `json:"kmin"`
	KMax  int    `json:"kmax"`
}
type scVal struct {
	NaN bool     `json:"nan"`
	V   [2]int64 `json:"v"`
}
type scDesc struct {
	Kind string   `json:"kind"`
	V    [2]int64 `json:"v"`
	Sign int      `json:"sign"`
	Base int      `json:"base"`
	E    [2]int64 `json:"e"`
}
type scCase struct {
	Src scSpec `json:"src"`
	Dst scSpec `json:"dst"`
	Pts []struct {
		P  json.RawMessage `json:"p"`
		Y  scVal           `json:"y"`
		QQ scDesc          `json:"qq"`
	} `json:"pts"`
	Ys []struct {
		Y [2]int64 `json:"y"`
		X scDesc   `json:"x"`
	} `json:"ys"`
	NewLog []struct {
		Mn   int64 `json:"mn"`
		Mx   int64 `json:"mx"`
		Base int   `json:"base"`
		OK   bool  `json:"ok"`
	} `json:"newlog"`
}

func mkScale(sp scSpec, k float64) (scale.Quantitative, float64, float64, error) {
	if sp.Kind == "lin" {
		s := &scale.Linear{Min: float64(sp.Min) * k, Max: float64(sp.Max) * k}
		s.SetClamp(sp.Clamp)
		if s.Clamp != sp.Clamp {
			return nil, 0, 0, errors.New("SetClamp did not set Clamp")
		}
		return s, s.Min, s.Max, nil
	}
	mn := float64(sp.Sign) * math.Pow(float64(sp.Base), float64(sp.KMin))
	mx := float64(sp.Sign) * math.Pow(float64(sp.Base), float64(sp.KMax))
	s, err := scale.NewLog(mn, mx, sp.Base)
	if err != nil {
		return nil, 0, 0, err
	}
	s.Min, s.Max = mn, mx // NewLog orders its arguments; decreasing domains are set through the exported fields
	s.SetClamp(sp.Clamp)
	if s.Clamp != sp.Clamp {
		return nil, 0, 0, errors.New("SetClamp did not set Clamp")
	}
	return &s, mn, mx, nil
}

func descVal(d scDesc, k float64) float64 {
	switch d.Kind {
	case "nan":
		return math.NaN()
	case "lin":
		return float64(d.V[0]) / float64(d.V[1]) * k
	}
	return float64(d.Sign) * math.Pow(float64(d.Base), float64(d.E[0])/float64(d.E[1]))
}

func scaleReplay(in io.Reader, raw bool, args []string) (*Summary, error) {
	sum := &Summary{Rule: "one case per (source scale incl. clamp setting reached through SetClamp, destination scale) emitted by TLC with the exact Map of every lattice point (domain ends, neighbours, far outside, wrong sign, zero), the exact Unmap of six levels and the QQ composition; Linear domains are rescaled by 2^-40, 1, 2^13, 2^40; non-trivial = non-degenerate source domain"}
	err := forEachCase(in, raw, func(c json.RawMessage) {
		var sc scCase
		if e := json.Unmarshal(c, &sc); e != nil {
			sum.viol("machinery", c, "bad case: %v", e)
			return
		}
		sum.Cases++
		defer func() {
			if r := recover(); r != nil {
				sum.viol("panic", c, "panic: %v", r)
			}
		}()
		if len(sc.NewLog) > 0 {
			for _, nl := range sc.NewLog {
				for _, k := range []float64{1, 1e-12, 1e12} {
					sum.Checks++
					s, err := scale.NewLog(float64(nl.Mn)*k, float64(nl.Mx)*k, nl.Base)
					if (err == nil) != nl.OK {
						sum.viol("NewLog", c, "NewLog(%v,%v,%d): err=%v want accepted=%v", float64(nl.Mn)*k, float64(nl.Mx)*k, nl.Base, err, nl.OK)
						continue
					}
					// "returns a RangeErr": the error value itself, also when several arguments are wrong at once
					if _, isRE := err.(scale.RangeErr); err != nil && !isRE {
						sum.viol("NewLog", c, "NewLog(%v,%v,%d): the error returned is a %T, not a RangeErr", float64(nl.Mn)*k, float64(nl.Mx)*k, nl.Base, err)
					}
					if err == nil && (s.Min > s.Max || s.Base != nl.Base) {
						sum.viol("NewLog", c, "NewLog(%v,%v) = %+v", nl.Mn, nl.Mx, s)
					}
				}
			}
			return
		}
		if (sc.Src.Kind == "lin" && sc.Src.Min != sc.Src.Max) || (sc.Src.Kind == "log" && sc.Src.KMin != sc.Src.KMax) {
			sum.Nontrivial++
			if sum.Nontrivial%97 == 1 {
				sum.sample(c)
			}
		}
		ks := []float64{1}
		if sc.Src.Kind == "lin" {
			ks = []float64{1, math.Pow(2, -40), 8192, math.Pow(2, 40)}
		}
		for _, k := range ks {
			src, smin, smax, err := mkScale(sc.Src, k)
			if err != nil {
				sum.viol("construct", c, "source: %v", err)
				return
			}
			dst, _, _, err := mkScale(sc.Dst, 1)
			if err != nil {
				sum.viol("construct", c, "destination: %v", err)
				return
			}
			width := math.Abs(smax - smin)
			qq := scale.QQ{Src: src, Dest: dst}
			for _, p := range sc.Pts {
				var x float64
				if sc.Src.Kind == "lin" {
					var xi int64
					json.Unmarshal(p.P, &xi)
					x = float64(xi) * k
				} else {
					var lp struct {
						Sign int `json:"sign"`
						K    int `json:"k"`
					}
					json.Unmarshal(p.P, &lp)
					x = float64(lp.Sign) * math.Pow(float64(sc.Src.Base), float64(lp.K))
				}
				sum.Checks++
				got := src.Map(x)
				if p.Y.NaN {
					if !math.IsNaN(got) {
						sum.viol("Map", c, "scale %g: Map(%v)=%v want NaN", k, x, got)
					}
				} else if !closeRat(got, big.NewRat(p.Y.V[0], p.Y.V[1]), 1e-12, 1e-12) {
					sum.viol("Map", c, "scale %g: Map(%v)=%.15g want %d/%d", k, x, got, p.Y.V[0], p.Y.V[1])
				}
				want := descVal(p.QQ, 1)
				gq := qq.Map(x)
				if !closeF(gq, want, 1e-11, 1e-9) {
					sum.viol("QQ.Map", c, "scale %g: QQ.Map(%v)=%.15g want %.15g", k, x, gq, want)
				}
				// QQ.Unmap inverts QQ.Map wherever the source map is defined and not clamped away
				if !p.Y.NaN && !math.IsNaN(gq) && !(sc.Src.Clamp && (p.Y.V[0] <= 0 || p.Y.V[0] >= p.Y.V[1])) &&
					!(sc.Src.Kind == "lin" && sc.Src.Min == sc.Src.Max) && !(sc.Src.Kind == "log" && sc.Src.KMin == sc.Src.KMax) &&
					!(sc.Dst.Kind == "log" && false) {
					back := qq.Unmap(gq)
					tol := 1e-9 * math.Max(width, math.Abs(x))
					if sc.Src.Kind == "log" {
						tol = 1e-8 * math.Abs(x)
					}
					if math.Abs(back-x) > tol {
						sum.viol("QQ.Unmap", c, "scale %g: QQ.Unmap(QQ.Map(%v))=%.15g", k, x, back)
					}
				}
			}
			for _, yy := range sc.Ys {
				y := float64(yy.Y[0]) / float64(yy.Y[1])
				sum.Checks++
				got, want := src.Unmap(y), descVal(yy.X, k)
				atol := 1e-12 * math.Max(width, math.Max(math.Abs(smin), math.Abs(smax)))
				if sc.Src.Kind == "log" {
					atol = 0
				}
				if !closeF(got, want, atol, 1e-9) {
					sum.viol("Unmap", c, "scale %g: Unmap(%v)=%.15g want %.15g", k, y, got, want)
				}
			}
		}
	})
	scaleAdjacent(sum)
	return sum, err
}

// scaleAdjacent: "strictly monotone" looked at through the finest lens - runs of five neighbouring floats around simple
// multiples of Min (1.25, 1.5, 2, 3, 5, 10 ... times Min, where an implementation might switch formulas).  Between neighbouring
// floats Map may stay equal (the log of two neighbours can round to one float) but must not step back by more than rounding
// (4 ulps of the value); Unmap(Map(x)) stays within 1e-9 relative.
func scaleAdjacent(sum *Summary) {
	c := json.RawMessage(`{"adjacent":1}`)
	type dom struct{ mn, mx float64 }
	doms := []dom{{1e12, 1e15}, {1e-12, 1e-9}, {3, 3000}, {123.456, 9e5}, {0.7, 1.9}, {-1e15, -1e12}, {1e15, 1e12}, {5e-324 * (1 << 20), 1}}
	mults := []float64{1.0625, 1.25, 1.5, 2, 2.5, 3, math.E, 4, 5, 7, 10, 16, 100, 1000}
	for _, d := range doms {
		for _, base := range []int{2, 10} {
			lg, err := scale.NewLog(d.mn, d.mx, base)
			if err != nil {
				continue
			}
			lg.Min, lg.Max = d.mn, d.mx
			up := math.Abs(d.mx) > math.Abs(d.mn) // Map increases with |x| iff the domain does
			for _, m := range mults {
				x := d.mn * m
				run := []float64{x}
				for k := 0; k < 2; k++ {
					run = append([]float64{math.Nextafter(run[0], 0)}, run...)
					run = append(run, math.Nextafter(run[len(run)-1], math.Inf(int(math.Copysign(1, x)))))
				}
				// run is ordered by growing |x|
				sum.Checks++
				for k := 1; k < len(run); k++ {
					a, b := lg.Map(run[k-1]), lg.Map(run[k])
					if !up {
						a, b = b, a
					}
					slack := 4 * (math.Nextafter(math.Abs(b), math.Inf(1)) - math.Abs(b))
					if !(b >= a-slack) {
						sum.viol("Log-monotone-adjacent", c, "Log[%v,%v] base %d: Map(%.17g)=%.17g and Map(%.17g)=%.17g are out of order by more than rounding", d.mn, d.mx, base, run[k-1], lg.Map(run[k-1]), run[k], lg.Map(run[k]))
						break
					}
				}
			}
		}
	}
}
