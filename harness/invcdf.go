package main

// Family invcdf (C07): stats.InvCDF / stats.Rand on user-defined distributions against
// spec/invcdf/Quantile.tla.

import (
	"encoding/json"
	"io"
	"math"
	"math/big"
	"math/rand"
	"sort"

	"github.com/aclements/go-moremath/stats"
)

func init() {
	families["invcdf"] = &family{replay: invcdfReplay}
}

type bpRec struct {
	X  int64 `json:"x"`
	Lo int64 `json:"lo"`
	Hi int64 `json:"hi"`
}
type invCase struct {
	BP     []bpRec `json:"bp"`
	Unit   int64   `json:"unit"`
	Bounds string  `json:"bounds"`
	LoB    int64   `json:"lob"`
	HiB    int64   `json:"hib"`
	Inv0   struct {
		Kind string `json:"kind"`
		V    int64  `json:"v"`
	} `json:"inv0"`
	Inv1 struct {
		Kind string `json:"kind"`
		V    int64  `json:"v"`
	} `json:"inv1"`
	Q [][2]int64 `json:"q"`
}

// pwDist is a user-defined distribution: only CDF and Bounds (stats.DistCommon).
type pwDist struct {
	bp       []bpRec
	unit     float64
	off      float64
	lob, hib float64
	scale    float64 // 0 or 1: none; otherwise the whole distribution is stretched by this power of two (exactly)
	calls    int
}

func (d *pwDist) CDF(x float64) float64 {
	d.calls++
	x -= d.off
	if d.scale != 0 {
		x /= d.scale
	}
	n := len(d.bp)
	if x < float64(d.bp[0].X) {
		return 0
	}
	if x >= float64(d.bp[n-1].X) {
		return 1
	}
	i := sort.Search(n, func(j int) bool { return float64(d.bp[j].X) > x }) - 1
	a, b := d.bp[i], d.bp[i+1]
	return float64(a.Hi)/d.unit + float64(b.Lo-a.Hi)/d.unit*((x-float64(a.X))/float64(b.X-a.X))
}
func (d *pwDist) Bounds() (float64, float64) {
	if d.scale != 0 {
		return d.lob * d.scale, d.hib * d.scale
	}
	return d.lob + d.off, d.hib + d.off
}

// discDistW offers a pure-jump piecewise CDF as a stats.DiscreteDist (unit lattice).
type discDistW struct{ pwDist }

func (d *discDistW) Step() float64 { return 1 }
func (d *discDistW) PMF(x float64) float64 {
	if x != math.Floor(x) {
		return 0
	}
	return d.CDF(x) - d.CDF(x-1)
}

// ownDist provides its own quantile function and sampler: the generic routines must dispatch to them.
type ownDist struct{ pwDist }

func (d *ownDist) InvCDF(y float64) float64  { return -777 + y }
func (d *ownDist) Rand(r *rand.Rand) float64 { return -888 }

func invcdfReplay(in io.Reader, raw bool, args []string) (*Summary, error) {
	sum := &Summary{Rule: "one case per piecewise CDF (breakpoints with jumps, ramps and flat stretches; tight, padded or short Bounds) emitted by TLC with the exact smallest x reaching every level k/Unit and the end-point rule; the distribution is implemented as a Go DistCommon shifted by 0, +-1e6 and 12345.678; non-trivial = at least one jump and one ramp"}
	nCase := 0
	err := forEachCase(in, raw, func(c json.RawMessage) {
		var ic invCase
		if e := json.Unmarshal(c, &ic); e != nil || len(ic.BP) < 2 {
			sum.viol("machinery", c, "bad case: %v", e)
			return
		}
		sum.Cases++
		nCase++
		jump, ramp := false, false
		for i, b := range ic.BP {
			if b.Hi > b.Lo {
				jump = true
			}
			if i > 0 && b.Lo > ic.BP[i-1].Hi {
				ramp = true
			}
		}
		if jump && ramp {
			sum.Nontrivial++
			if sum.Nontrivial%301 == 1 {
				sum.sample(c)
			}
		}
		defer func() {
			if r := recover(); r != nil {
				sum.viol("panic", c, "panic: %v", r)
			}
		}()
		// the same distribution stretched by 2^400: its quantiles are finite numbers beyond 1e100, which the bracket search
		// reaches by doubling just as it reaches 1e6 (the search gives up only at the infinities)
		if nCase%3 == 1 {
			sc := math.Ldexp(1, 400)
			d := &pwDist{bp: ic.BP, unit: float64(ic.Unit), lob: float64(ic.LoB), hib: float64(ic.HiB), scale: sc}
			inv := stats.InvCDF(d)
			for yi, q := range ic.Q {
				y := float64(yi+1) / float64(ic.Unit)
				want := new(big.Rat).Mul(big.NewRat(q[0], q[1]), ratF(sc))
				got := inv(y)
				sum.Checks++
				// (tolerance relative to the stretch: the stretched CDF itself resolves x only to 2^-52 of 2^400)
				if math.IsInf(got, 0) || math.IsNaN(got) || !closeRat(got, want, 1e-9*sc, 1e-9) {
					sum.viol("InvCDF-huge", c, "distribution stretched by 2^400: InvCDF(%v)=%.15g want %.15g", y, got, rf(want))
				}
			}
		}
		for _, off := range []float64{0, 1e6, -1e6, 12345.678} {
			d := &pwDist{bp: ic.BP, unit: float64(ic.Unit), off: off, lob: float64(ic.LoB), hib: float64(ic.HiB)}
			inv := stats.InvCDF(d)
			prev := math.Inf(-1)
			for yi, q := range ic.Q {
				y := float64(yi+1) / float64(ic.Unit)
				want := new(big.Rat).Add(big.NewRat(q[0], q[1]), ratF(off))
				got := inv(y)
				sum.Checks++
				if !closeRat(got, want, 1e-12, 1e-9) {
					sum.viol("InvCDF", c, "offset %v: InvCDF(%v)=%.15g want %.15g", off, y, got, rf(want))
				}
				if got < prev {
					sum.viol("InvCDF-monotone", c, "offset %v: InvCDF(%v)=%v below previous %v", off, y, got, prev)
				}
				prev = got
				// just above / below an exact level
				if g2 := inv(math.Nextafter(y, 2)); g2 < got-1e-9*math.Max(1, math.Abs(got)) {
					sum.viol("InvCDF-monotone", c, "offset %v: InvCDF(%v+ulp)=%v < %v", off, y, g2, got)
				}
			}
			want0, want1 := math.Inf(-1), math.Inf(1)
			if ic.Inv0.Kind == "fin" {
				want0 = float64(ic.Inv0.V) + off
			}
			if ic.Inv1.Kind == "fin" {
				want1 = float64(ic.Inv1.V) + off
			}
			if g := inv(0); g != want0 {
				sum.viol("InvCDF-0", c, "offset %v: InvCDF(0)=%v want %v", off, g, want0)
			}
			if g := inv(1); g != want1 {
				sum.viol("InvCDF-1", c, "offset %v: InvCDF(1)=%v want %v", off, g, want1)
			}
			// outside [0,1] by any amount: the float neighbours of 0 and 1, subnormals, ordinary and infinite values
			for _, y := range []float64{-0.25, 1.5, math.NaN(), math.Inf(1), math.Inf(-1), math.Nextafter(1, 2), 1 + 1e-15, -5e-324, -1e-300, -1e-16, -1e-15, -1e-9, 1 + 1e-9} {
				if g := inv(y); !math.IsNaN(g) {
					sum.viol("InvCDF-nan", c, "InvCDF(%v)=%v want NaN", y, g)
				}
			}
			if d.calls > 400*(len(ic.Q)+8)*3 {
				sum.viol("InvCDF-cost", c, "%d CDF evaluations", d.calls)
			}
		}
		// a pure-jump distribution on integers, offered to the library as a DiscreteDist (PMF, Step): same quantiles
		pure := true
		for i, b := range ic.BP {
			if i > 0 && b.Lo != ic.BP[i-1].Hi {
				pure = false
			}
		}
		if pure {
			dd := &discDistW{pwDist{bp: ic.BP, unit: float64(ic.Unit), lob: float64(ic.LoB), hib: float64(ic.HiB)}}
			inv := stats.InvCDF(dd)
			for yi, q := range ic.Q {
				y := float64(yi+1) / float64(ic.Unit)
				sum.Checks++
				if got := inv(y); !closeRat(got, big.NewRat(q[0], q[1]), 1e-12, 1e-9) {
					sum.viol("InvCDF-discrete", c, "DiscreteDist wrapper: InvCDF(%v)=%.15g want %d/%d", y, got, q[0], q[1])
				}
			}
		}
		// the same pure-jump distribution as a library type: a KDE with the delta kernel over the jump points weighted by the
		// jump heights is exactly this step function (weighted empirical CDF), so its quantiles are the same
		if pure && len(ic.BP) >= 2 {
			var xs, ws []float64
			for _, b := range ic.BP {
				if b.Hi > b.Lo {
					xs, ws = append(xs, float64(b.X)), append(ws, float64(b.Hi-b.Lo))
				}
			}
			if len(xs) >= 1 {
				for variant := 0; variant < 2; variant++ {
					smp := stats.Sample{Xs: append([]float64{}, xs...), Weights: append([]float64{}, ws...)}
					if variant == 1 { // unweighted, every point repeated as often as its weight says, in reverse order
						smp = stats.Sample{}
						for i := len(xs) - 1; i >= 0; i-- {
							for k := 0; k < int(ws[i]); k++ {
								smp.Xs = append(smp.Xs, xs[i])
							}
						}
					}
					kd := &stats.KDE{Sample: smp, Kernel: stats.DeltaKernel, Bandwidth: 1}
					inv := stats.InvCDF(kd)
					for yi, q := range ic.Q {
						if yi+1 >= int(ic.Unit) {
							continue
						}
						y := float64(yi+1) / float64(ic.Unit)
						sum.Checks++
						if got := inv(y); !closeRat(got, big.NewRat(q[0], q[1]), 1e-12, 1e-9) {
							sum.viol("InvCDF-KDE", c, "delta-kernel KDE over %v weights %v (variant %d): InvCDF(%v)=%.15g want %d/%d (its CDF there is %v)", xs, ws, variant, y, got, q[0], q[1], kd.CDF(got))
						}
					}
				}
			}
		}
		// one quantile function used thousands of times must keep giving what a fresh one gives (no state carried between calls)
		if nCase%41 == 1 {
			dl := &pwDist{bp: ic.BP, unit: float64(ic.Unit), lob: float64(ic.LoB), hib: float64(ic.HiB)}
			long := stats.InvCDF(dl)
			lr := rand.New(rand.NewSource(baseSeed + int64(nCase)))
			for k := 0; k < 2500; k++ {
				y := lr.Float64()
				if y == 0 {
					continue
				}
				a := long(y)
				if k%50 == 0 || k > 2400 {
					if b := stats.InvCDF(dl)(y); math.Float64bits(a) != math.Float64bits(b) {
						sum.viol("InvCDF-stateful", c, "call %d on one quantile function: InvCDF(%v)=%v, a fresh function gives %v", k, y, a, b)
						break
					}
				}
			}
			sum.Checks++
		}
		// dispatch to the distribution's own methods
		od := &ownDist{pwDist{bp: ic.BP, unit: float64(ic.Unit), lob: float64(ic.LoB), hib: float64(ic.HiB)}}
		// "returns exactly that method": at every argument, including the end points, out-of-range levels and NaN, where the
		// generic routine has rules of its own
		for _, y := range []float64{0.25, 0, 1, 0.999, -0.5, 1.5, math.NaN(), math.Inf(1)} {
			g, w := stats.InvCDF(od)(y), od.InvCDF(y)
			if math.Float64bits(g) != math.Float64bits(w) && !(math.IsNaN(g) && math.IsNaN(w)) {
				sum.viol("InvCDF-dispatch", c, "InvCDF(own)(%v) = %v but the distribution's own InvCDF gives %v", y, g, w)
			}
		}
		for _, y := range []float64{0, 1, 0.5, -1, 2, math.NaN()} {
			dd := stats.DeltaDist{T: float64(ic.LoB) + 0.5}
			g, w := stats.InvCDF(dd)(y), dd.InvCDF(y)
			if math.Float64bits(g) != math.Float64bits(w) && !(math.IsNaN(g) && math.IsNaN(w)) {
				sum.viol("InvCDF-dispatch", c, "InvCDF(DeltaDist)(%v) = %v but DeltaDist.InvCDF gives %v", y, g, w)
			}
			nd := stats.NormalDist{Mu: float64(ic.HiB), Sigma: 0.5 + float64(ic.Unit)}
			g, w = stats.InvCDF(nd)(y), nd.InvCDF(y)
			if math.Float64bits(g) != math.Float64bits(w) && !(math.IsNaN(g) && math.IsNaN(w)) {
				sum.viol("InvCDF-dispatch", c, "InvCDF(NormalDist)(%v) = %v but NormalDist.InvCDF gives %v", y, g, w)
			}
		}
		if g := stats.Rand(od)(rand.New(rand.NewSource(1))); g != -888 {
			sum.viol("Rand-dispatch", c, "Rand did not use the distribution's own Rand: %v", g)
		}
		// Rand: a deterministic function of the source; its draws are InvCDF of the source's uniform draws
		d := &pwDist{bp: ic.BP, unit: float64(ic.Unit), lob: float64(ic.LoB), hib: float64(ic.HiB)}
		r1, r2, r3 := rand.New(rand.NewSource(baseSeed+7)), rand.New(rand.NewSource(baseSeed+7)), rand.New(rand.NewSource(baseSeed+7))
		f1, f2 := stats.Rand(d), stats.Rand(d)
		inv := stats.InvCDF(d)
		for k := 0; k < 20; k++ {
			a := f1(r1)
			_ = stats.Mean([]float64{1, 2, a}) // unrelated call in between
			b := f2(r2)
			y := r3.Float64()
			for y == 0 {
				y = r3.Float64()
			}
			sum.Checks++
			if math.Float64bits(a) != math.Float64bits(b) || math.Float64bits(a) != math.Float64bits(inv(y)) {
				sum.viol("Rand-deterministic", c, "draw %d: %v vs %v vs InvCDF(u)=%v", k, a, b, inv(y))
				break
			}
		}
		// a caller-supplied source whose first uniforms are exactly 0 (a legal rand.Source): the rejected draws are replaced
		// from the SAME source, so the draw is still a function of the source alone - equal sources, equal draws, = InvCDF(u)
		{
			mk := func() *rand.Rand { return rand.New(&zeroFirst{inner: rand.NewSource(baseSeed + 23), zeros: 2}) }
			za, zb, zc := mk(), mk(), mk()
			ga, gb := stats.Rand(d), stats.Rand(d)
			for k := 0; k < 3; k++ {
				a, b := ga(za), gb(zb)
				y := zc.Float64()
				for y == 0 {
					y = zc.Float64()
				}
				sum.Checks++
				if w := inv(y); math.Float64bits(a) != math.Float64bits(b) || math.Float64bits(a) != math.Float64bits(w) {
					sum.viol("Rand-deterministic", c, "source starting with zeros, draw %d: %v and %v from equal sources, InvCDF(next non-zero uniform %v)=%v", k, a, b, y, w)
					break
				}
			}
		}
		// one generator driven by two identically seeded sources in turn: each source gets its own deterministic sequence
		ra, rb, rc := rand.New(rand.NewSource(baseSeed+11)), rand.New(rand.NewSource(baseSeed+11)), rand.New(rand.NewSource(baseSeed+11))
		gen, ref := stats.Rand(d), stats.Rand(d)
		for k := 0; k < 6; k++ {
			a, b, w := gen(ra), gen(rb), ref(rc)
			if math.Float64bits(a) != math.Float64bits(w) || math.Float64bits(b) != math.Float64bits(w) {
				sum.viol("Rand-deterministic", c, "one generator, two equal sources: draw %d gives %v and %v, a fresh generator gives %v", k, a, b, w)
				break
			}
		}
		// empirical distribution of the draws against the specification's CDF (DKW band, false alarm 1e-9)
		if nCase%97 == 1 {
			const N = 50000
			rr := rand.New(rand.NewSource(baseSeed*31 + int64(nCase)))
			xs := make([]float64, N)
			for i := range xs {
				xs[i] = f1(rr)
			}
			sort.Float64s(xs)
			band := math.Sqrt(math.Log(2e9) / (2 * N))
			ref := &pwDist{bp: ic.BP, unit: float64(ic.Unit)}
			worst := 0.0
			for i, x := range xs {
				F := ref.CDF(x)
				// F(x) must lie within the band of both i/N and (i+1)/N (jumps make the ECDF step over F)
				lo, hi := float64(i)/N, float64(i+1)/N
				dev := math.Max(lo-F, 0)
				if i+1 < N && xs[i+1] > x {
					dev = math.Max(dev, F-hi)
				}
				worst = math.Max(worst, dev)
			}
			sum.Checks++
			if worst > band {
				sum.viol("Rand-distribution", c, "Kolmogorov distance %.5f of %d draws exceeds the DKW band %.5f", worst, N, band)
			}
		}
	})
	// Rand of the built-in continuous distributions (whatever generator stats.Rand picks for them) against their own CDF:
	// DKW band with false-alarm probability 1e-9, 100k seeded draws; determinism with respect to the source
	func() {
		defer func() {
			if r := recover(); r != nil {
				sum.viol("panic", json.RawMessage(`{"builtin":"rand"}`), "panic: %v", r)
			}
		}()
		const N = 100000
		band := math.Sqrt(math.Log(2e9) / (2 * N))
		for _, d := range []stats.DistCommon{stats.TDist{V: 3}, stats.TDist{V: 2.5}, stats.TDist{V: 1.5}, stats.TDist{V: 4.75}, stats.TDist{V: 0.5}, stats.TDist{V: 30.25},
			stats.NormalDist{Mu: -2, Sigma: 0.5}, stats.NormalDist{Mu: 1e6, Sigma: 1e3}} {
			gen := stats.Rand(d)
			r1, r2 := rand.New(rand.NewSource(baseSeed+99)), rand.New(rand.NewSource(baseSeed+99))
			xs := make([]float64, N)
			for i := range xs {
				xs[i] = gen(r1)
				if i < 50 {
					if b := stats.Rand(d)(r2); math.Float64bits(b) != math.Float64bits(xs[i]) {
						sum.viol("Rand-deterministic", json.RawMessage(`{"builtin":"rand"}`), "%+v: draw %d differs between two generators on equal sources: %v vs %v", d, i, xs[i], b)
						break
					}
				}
			}
			sort.Float64s(xs)
			worst := 0.0
			for i, x := range xs {
				F := d.CDF(x)
				worst = math.Max(worst, math.Max(float64(i)/N-F, F-float64(i+1)/N))
			}
			sum.Checks++
			if !(worst <= band) {
				sum.viol("Rand-distribution", json.RawMessage(`{"builtin":"rand"}`), "%+v: Kolmogorov distance %.5f of %d draws exceeds the DKW band %.5f", d, worst, N, band)
			}
			// the optional source left out (nil: the default global source): the same distribution
			const M = 20000
			bandM := math.Sqrt(math.Log(2e9) / (2 * M))
			ys := make([]float64, M)
			for i := range ys {
				ys[i] = gen(nil)
			}
			sort.Float64s(ys)
			worst = 0
			for i, x := range ys {
				F := d.CDF(x)
				worst = math.Max(worst, math.Max(float64(i)/M-F, F-float64(i+1)/M))
			}
			sum.Checks++
			if !(worst <= bandM) {
				sum.viol("Rand-distribution", json.RawMessage(`{"builtin":"rand-nil"}`), "%+v with a nil source: Kolmogorov distance %.5f of %d draws exceeds the DKW band %.5f", d, worst, M, bandM)
			}
		}
	}()
	// stats.Rand of the built-in discrete distributions: at every drawn value the empirical CDF is within the DKW band of
	// the distribution's CDF (an atom where the distribution has none shows as half its mass)
	func() {
		defer func() {
			if r := recover(); r != nil {
				sum.viol("panic", json.RawMessage(`{"builtin":"rand-discrete"}`), "panic: %v", r)
			}
		}()
		const N = 40000
		band := math.Sqrt(math.Log(2e9) / (2 * N))
		for _, d := range []stats.DistCommon{stats.UDist{N1: 3, N2: 4}, stats.UDist{N1: 5, N2: 5}, stats.UDist{N1: 2, N2: 9}, stats.UDist{N1: 4, N2: 3, T: []int{2, 1, 3, 1}},
			stats.BinomialDist{N: 10, P: 0.3}, stats.BinomialDist{N: 3, P: 0.5}, stats.HypergeometicDist{N: 20, K: 7, Draws: 5},
			// many trials with a small success probability: strongly skewed (a symmetric approximation is visibly off)
			stats.BinomialDist{N: 2000, P: 0.004}, stats.BinomialDist{N: 1001, P: 0.01}, stats.BinomialDist{N: 6000, P: 0.0008}} {
			gen := stats.Rand(d)
			rr := rand.New(rand.NewSource(baseSeed + 177))
			xs := make([]float64, N)
			for i := range xs {
				xs[i] = gen(rr)
			}
			sort.Float64s(xs)
			worst, at := 0.0, 0.0
			for i := 0; i < N; {
				j := i
				for j < N && xs[j] == xs[i] {
					j++
				}
				F, Fl := d.CDF(xs[i]), d.CDF(math.Nextafter(xs[i], math.Inf(-1)))
				if dev := math.Max(math.Abs(float64(j)/N-F), math.Abs(float64(i)/N-Fl)); dev > worst {
					worst, at = dev, xs[i]
				}
				i = j
			}
			sum.Checks++
			if !(worst <= band) {
				sum.viol("Rand-distribution", json.RawMessage(`{"builtin":"rand-discrete"}`), "%+v: empirical CDF of %d draws is %.4f off the CDF at %v (DKW band %.4f)", d, N, worst, at, band)
			}
		}
	}()
	// built-in discrete distributions through the generic routine
	func() {
		defer func() {
			if r := recover(); r != nil {
				sum.viol("panic", json.RawMessage(`{"builtin":true}`), "panic: %v", r)
			}
		}()
		type dd interface {
			stats.DistCommon
			Step() float64
		}
		for _, d := range []dd{stats.BinomialDist{N: 10, P: 0.3}, stats.BinomialDist{N: 25, P: 0.5}, stats.HypergeometicDist{N: 20, K: 7, Draws: 5}, stats.UDist{N1: 3, N2: 4}, stats.UDist{N1: 4, N2: 3, T: []int{2, 1, 3, 1}}} {
			lo, hi := d.Bounds()
			inv := stats.InvCDF(d)
			ys := []float64{}
			for y := 0.013; y < 1; y += 0.0371 {
				ys = append(ys, y)
			}
			for k := lo; k <= hi; k += d.Step() { // exact jump levels: the smallest x with CDF(x) >= CDF(k) is k (or an earlier point of equal CDF)
				if cv := d.CDF(k); cv > 0 && cv < 1 {
					ys = append(ys, cv)
				}
			}
			for k := 0; k < 400; k++ { // exercise the closure before checking it
				inv(0.001 + 0.998*float64(k%97)/97)
			}
			for _, y := range ys {
				want, ok := math.NaN(), true
				for k := lo; k <= hi; k += d.Step() {
					cv := d.CDF(k)
					if math.Abs(cv-y) < 1e-7 && cv != y {
						ok = false // within rounding distance of a level but not the level itself
					}
					if cv >= y {
						want = k
						break
					}
				}
				if !ok {
					continue
				}
				sum.Checks++
				if got := inv(y); !closeF(got, want, 1e-9, 1e-9) {
					sum.viol("InvCDF-builtin", json.RawMessage(`{"builtin":true}`), "%T %+v: InvCDF(%v)=%v want %v", d, d, y, got, want)
				}
			}
		}
	}()
	return sum, err
}

// zeroFirst is a rand.Source that returns 0 (so Float64 gives exactly 0) a few times before handing over to inner.
type zeroFirst struct {
	inner rand.Source
	zeros int
}

func (z *zeroFirst) Int63() int64 {
	if z.zeros > 0 {
		z.zeros--
		return 0
	}
	return z.inner.Int63()
}
func (z *zeroFirst) Seed(s int64) { z.inner.Seed(s) }
