package main

// Recorder for spec/ttest/TTestTrace.tla (C04, trace direction): two samples of real-valued data that grow over a
// history; every t-test (all alternatives, swapped calls) and MeanCI is logged with its full reply.

import (
	"encoding/json"
	"errors"
	"io"
	"math"
	"math/big"
	"math/rand"

	"github.com/aclements/go-moremath/stats"
)

func init() {
	families["ttest"].record = ttestRecord
}

type ttEvent struct {
	Op     string `json:"op"`
	Sc     int    `json:"sc"`
	A      int    `json:"a"`
	V      sbig   `json:"v"`
	Kind   string `json:"kind"`
	Swap   int    `json:"swap"`
	Alt    int    `json:"alt"`
	Mu     sbig   `json:"mu"`
	Err    string `json:"err"`
	N1     int    `json:"n1"`
	N2     int    `json:"n2"`
	RAlt   int    `json:"ralt"`
	T      fdy    `json:"T"`
	DoF    fdy    `json:"dof"`
	P      fdy    `json:"P"`
	CT     fdy    `json:"cT"`
	CA     fdy    `json:"cA"`
	Intact int    `json:"intact"`
	Conf   fdy    `json:"conf"`
	Mean   fdy    `json:"mean"`
	Lo     fdy    `json:"lo"`
	Hi     fdy    `json:"hi"`
	Tq     fdy    `json:"tq"`
	Seed   int64  `json:"seed"`
	Idx    int    `json:"idx"`
}

func maxInt(a, b int) int {
	if a > b {
		return a
	}
	return b
}

func sbigI(v int64) sbig {
	b := big.NewInt(v)
	s := b.Sign()
	b.Abs(b)
	return sbig{s, limbs(b)}
}

// tquant: the t with tcdf(nu, t) = p for p in (0.5, 1), by bisection on the independent CDF.
func tquant(nu, p float64) float64 {
	lo, hi := 0.0, 1.0
	for tcdf(nu, hi) < p && hi < 1e300 {
		hi *= 2
	}
	for i := 0; i < 200; i++ {
		mid := (lo + hi) / 2
		if tcdf(nu, mid) < p {
			lo = mid
		} else {
			hi = mid
		}
	}
	return (lo + hi) / 2
}

func ttestRecord(out io.Writer, args []string) error {
	rf := newRecFlags("ttest", 50)
	maxN := rf.fs.Int("max", 40, "largest sample size")
	rf.fs.Parse(args)
	enc := json.NewEncoder(out)
	zero := mkfdy(0)
	blank := func(op string, idx int) ttEvent {
		return ttEvent{Op: op, V: sbigI(0), Mu: sbigI(0), T: zero, DoF: zero, P: zero, CT: zero, CA: zero, Conf: zero, Mean: zero, Lo: zero, Hi: zero, Tq: zero,
			Kind: "", Err: "", Seed: *rf.seed, Idx: idx}
	}
	for idx := 0; idx < *rf.n; idx++ {
		if !rf.mine(idx) {
			continue
		}
		rng := rand.New(rand.NewSource(*rf.seed*7919 + int64(idx)))
		sc := []int{-10, 0, 3, -30}[rng.Intn(4)]
		ev := blank("Reset", idx)
		ev.Sc = sc
		if err := enc.Encode(ev); err != nil {
			return err
		}
		// value profile: offset / spread at most 2^13
		var off, sp int64
		switch rng.Intn(6) {
		case 0:
			off, sp = 0, 40
		case 1:
			off, sp = 0, 1000000
		case 2:
			off, sp = 8000000, 1000
		case 3:
			off, sp = -3000000000, 400000
		case 4:
			off, sp = 17, 3
		case 5:
			off, sp = 1<<38, 1<<26
		}
		sp2, shift := sp, int64(0)
		switch rng.Intn(4) {
		case 1:
			sp2 = 3 * sp
		case 2:
			shift = sp / 2
		case 3:
			shift, sp2 = 2*sp, sp/3+1
		}
		// "tracking pairs" (every seventh history): large values (2^33) whose second sample follows the first at a distance
		// of 2^10 + {0,1,2}, tested against mu0 = 2^10 + 1 - the mean of the differences is O(1) away from mu0 while the two
		// means themselves are 2^33: a statistic built from Mean(x1) - Mean(x2) instead of the mean difference loses it
		track := rng.Intn(7) == 0
		const trackD = int64(1) << 10
		if track {
			off, sp = 1<<33, 1<<20 // (offset / spread stays at 2^13, the recorder's limit for the MeanCI tolerances)
		}
		const1, const2 := rng.Intn(12) == 0, rng.Intn(12) == 0
		var iv [2][]int64 // the integer data
		draw := func(a int) int64 {
			if a == 0 {
				if const1 {
					return off
				}
				return off + int64(math.Round(rng.NormFloat64()*float64(sp)))
			}
			if track { // the i-th value of the second sample follows the i-th of the first (when that exists already)
				if i := len(iv[1]); i < len(iv[0]) {
					return iv[0][i] - trackD - int64((i*7)%3)
				}
				return off - trackD + int64(math.Round(rng.NormFloat64()*float64(sp)))
			}
			if const2 {
				return off + shift
			}
			return off + shift + int64(math.Round(rng.NormFloat64()*float64(sp2)))
		}
		flt := func(xs []int64) []float64 {
			o := make([]float64, len(xs))
			for i, v := range xs {
				o[i] = math.Ldexp(float64(v), sc)
			}
			return o
		}
		equal := rng.Intn(2) == 0 || track
		rounds := 1 + rng.Intn(3)
		if track {
			const1, const2, sp2, shift = false, false, sp, 0
		}
		// sizes that differ by a multiple of 32 (or 16, 64): table-driven or blocked implementations alias exactly there
		stride := 0
		if rng.Intn(5) == 0 && *maxN >= 40 {
			equal, rounds = false, 1
			stride = []int{32, 32, 16, 64}[rng.Intn(4)]
		}
		for r := 0; r < rounds; r++ {
			// grow
			var k1, k2 int
			switch {
			case r == 0 && idx%3 == 0 && stride == 0:
				// every third history starts with two values in each sample (one degree of freedom) and is tested against a
				// far-away mu0: |T| of 1e7 and more, where the tail of the t distribution still is 1e-8, not 0
				k1, k2 = 2, 2
			case r == 0 && rng.Intn(8) == 0:
				k1, k2 = rng.Intn(3), rng.Intn(3)
			default:
				k1, k2 = 1+rng.Intn(*maxN/rounds), 1+rng.Intn(*maxN/rounds)
			}
			if equal {
				k2 = len(iv[0]) + k1 - len(iv[1])
			}
			if stride > 0 {
				k2 = 2 + rng.Intn(7)
				k1 = k2 + stride*(1+rng.Intn(maxInt(1, (*maxN-k2)/stride)))
				if k1 > *maxN {
					k1 = k2 + stride
				}
				if rng.Intn(2) == 0 {
					k1, k2 = k2, k1
				}
			}
			for a, k := range []int{k1, k2} {
				for i := 0; i < k && len(iv[a]) < *maxN; i++ {
					v := draw(a)
					iv[a] = append(iv[a], v)
					ev := blank("Push", idx)
					ev.A, ev.V = a+1, sbigI(v)
					if err := enc.Encode(ev); err != nil {
						return err
					}
				}
			}
			// mu0: nothing, within the spread, at the offset, or far away from the data (2^20 times their magnitude: the
			// differences are tiny relative to mu0)
			far := off
			if far < 0 {
				far = -far
			}
			far += sp + 1
			for sh := 0; sh < 20 && far < 1<<50; sh++ {
				far <<= 1
			}
			muInt := []int64{0, sp / 2, -sp, off, far, -far}[rng.Intn(6)]
			if track {
				muInt = trackD + 1
			} else if r == 0 && idx%3 == 0 && stride == 0 {
				muInt = far
			}
			for _, kind := range []string{"pooled", "welch", "paired", "one"} {
				for swap := 0; swap < 2; swap++ {
					mus := []int64{0}
					if kind == "paired" {
						mus = []int64{0, muInt}
					} else if kind == "one" {
						mus = []int64{off, off + muInt}
					}
					for _, mu := range mus {
						for _, alt := range ttAlts {
							ai, bi := iv[0], iv[1]
							if swap == 1 {
								ai, bi = bi, ai
							}
							a, okA := guarded(flt(ai))
							b, okB := guarded(flt(bi))
							a0, b0 := append([]float64{}, a...), append([]float64{}, b...)
							mu0 := math.Ldexp(float64(mu), sc)
							var res *stats.TTestResult
							var err error
							switch kind {
							case "pooled":
								res, err = stats.TwoSampleTTest(stats.Sample{Xs: a}, stats.Sample{Xs: b}, alt)
							case "welch":
								res, err = stats.TwoSampleWelchTTest(stats.Sample{Xs: a}, stats.Sample{Xs: b}, alt)
							case "paired":
								res, err = stats.PairedTTest(a, b, mu0, alt)
							case "one":
								res, err = stats.OneSampleTTest(stats.Sample{Xs: a}, mu0, alt)
							}
							ev := blank("Test", idx)
							ev.Kind, ev.Swap, ev.Alt, ev.Mu = kind, swap, int(alt), sbigI(mu)
							switch {
							case err == nil && res != nil:
								ev.Err = "none"
								ev.N1, ev.N2, ev.RAlt = res.N1, res.N2, int(res.AltHypothesis)
								ev.T, ev.DoF, ev.P = mkfdy(res.T), mkfdy(res.DoF), mkfdy(res.P)
								if ev.T.C == "fin" && ev.DoF.C == "fin" && res.DoF > 0 {
									ev.CT, ev.CA = mkfdy(tcdf(res.DoF, res.T)), mkfdy(tcdf(res.DoF, math.Abs(res.T)))
								}
							case res != nil:
								ev.Err = "both"
							case errors.Is(err, stats.ErrSampleSize):
								ev.Err = "size"
							case errors.Is(err, stats.ErrZeroVariance):
								ev.Err = "zerovar"
							case errors.Is(err, stats.ErrMismatchedSamples):
								ev.Err = "mismatch"
							default:
								ev.Err = "other"
							}
							if okA() && okB() && bitsEqual(a, a0) && bitsEqual(b, b0) {
								ev.Intact = 1
							}
							if e := enc.Encode(ev); e != nil {
								return e
							}
						}
					}
				}
			}
			// the same level for both samples in turn (and back): MeanCI is a function of (xs, c) only
			for _, conf := range []float64{-0.5, 0, 0.5, 0.9, 0.95, 0.99, rng.Float64(), 1 - math.Pow(10, -1-5*rng.Float64()), 1, 1.5} {
				for _, a := range []int{0, 1, 0} {
					xs, ok := guarded(flt(iv[a]))
					x0 := append([]float64{}, xs...)
					var mean, lo, hi float64
					if rng.Intn(2) == 0 {
						mean, lo, hi = stats.MeanCI(xs, conf)
					} else {
						mean, lo, hi = stats.Sample{Xs: xs}.MeanCI(conf)
					}
					ev := blank("MeanCI", idx)
					ev.A, ev.Conf, ev.Mean, ev.Lo, ev.Hi = a+1, mkfdy(conf), mkfdy(mean), mkfdy(lo), mkfdy(hi)
					if conf > 0 && conf < 1 && len(xs) >= 2 {
						ev.Tq = mkfdy(tquant(float64(len(xs)-1), (1+conf)/2))
					}
					if ok() && bitsEqual(xs, x0) {
						ev.Intact = 1
					}
					if e := enc.Encode(ev); e != nil {
						return e
					}
				}
			}
		}
	}
	return nil
}
