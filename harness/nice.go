package main

// Family nice (C17): recorded scale.Linear.Nice / scale.Log.Nice calls for spec/ticks/NiceTrace.tla.

import (
	"encoding/json"
	"io"
	"math"
	"math/rand"

	"github.com/aclements/go-moremath/scale"
)

func init() {
	families["nice"] = &family{record: niceRecord}
}

type niceEvent struct {
	Op      string `json:"op"`
	Kind    string `json:"kind"`
	Base    int    `json:"base"`
	Max     int    `json:"max"`
	MinL    int    `json:"minL"`
	MaxL    int    `json:"maxL"`
	Limited int    `json:"limited"`
	Neg     int    `json:"neg"`
	B0      fdy    `json:"b0"`
	B1      fdy    `json:"b1"`
	A0      fdy    `json:"a0"`
	A1      fdy    `json:"a1"`
	C0      fdy    `json:"c0"`
	C1      fdy    `json:"c1"`
	NMaj    int    `json:"nmaj"`
	MF      fdy    `json:"mf"`
	ML      fdy    `json:"ml"`
	SP      fdy    `json:"sp"`
	Seed    int64  `json:"seed"`
	Idx     int    `json:"idx"`
}

func niceRecord(out io.Writer, args []string) error {
	rf := newRecFlags("nice", 50)
	calls := rf.fs.Int("calls", 40, "Nice calls per history")
	rf.fs.Parse(args)
	enc := json.NewEncoder(out)
	z := mkfdy(0)
	for idx := 0; idx < *rf.n; idx++ {
		if !rf.mine(idx) {
			continue
		}
		rng := rand.New(rand.NewSource(*rf.seed*1000003 + int64(idx)))
		enc.Encode(niceEvent{Op: "Reset", Seed: *rf.seed, Idx: idx, B0: z, B1: z, A0: z, A1: z, C0: z, C1: z, MF: z, ML: z, SP: z})
		for k := 0; k < *calls; k++ {
			ev := niceEvent{Op: "Nice", Seed: *rf.seed, Idx: idx, C0: z, C1: z, MF: z, ML: z, SP: z}
			o := scale.TickOptions{Max: 1 + rng.Intn(20)}
			if rng.Intn(4) == 0 {
				o.Max = 1 + rng.Intn(3)
			}
			if rng.Intn(5) == 0 {
				o.MinLevel, o.MaxLevel = -3+rng.Intn(4), rng.Intn(5)
				ev.Limited = 1
			} else if rng.Intn(5) == 0 {
				o.MinLevel, o.MaxLevel = -60, 60 // generous limits behave like none
			}
			ev.Max, ev.MinL, ev.MaxL = o.Max, o.MinLevel, o.MaxLevel
			if rng.Intn(2) == 0 {
				ev.Kind = "lin"
				bases := []int{0, 0, 2, 3, 5, 10, 16}
				ev.Base = bases[rng.Intn(len(bases))]
				width := math.Pow(10, -9+18*rng.Float64())
				centre := (rng.Float64()*2 - 1) * width * math.Pow(10, 3*rng.Float64())
				if rng.Intn(4) == 0 {
					centre = (rng.Float64() - 0.5) * width
				}
				s := scale.Linear{Min: centre - width/2, Max: centre + width/2, Base: ev.Base}
				ev.B0, ev.B1 = mkfdy(s.Min), mkfdy(s.Max)
				s.Nice(o)
				ev.A0, ev.A1 = mkfdy(s.Min), mkfdy(s.Max)
				if ev.A0.C == "fin" && ev.A1.C == "fin" {
					major, _ := s.Ticks(o)
					ev.NMaj = len(major)
					if len(major) >= 2 {
						ev.MF, ev.ML, ev.SP = mkfdy(major[0]), mkfdy(major[len(major)-1]), mkfdy(major[1]-major[0])
					}
					s2 := s
					s2.Nice(o)
					ev.C0, ev.C1 = mkfdy(s2.Min), mkfdy(s2.Max)
				}
			} else {
				ev.Kind = "log"
				bases := []int{2, 3, 5, 10, 10, 16}
				ev.Base = bases[rng.Intn(len(bases))]
				lo := math.Pow(10, -100+200*rng.Float64())
				span := math.Pow(10, 0.05+rng.Float64()*[]float64{1, 6, 60}[rng.Intn(3)])
				hi := lo * span
				if hi > 1e100 {
					hi = 1e100
				}
				mn, mx := lo, hi
				if rng.Intn(3) == 0 {
					mn, mx = -hi, -lo
					ev.Neg = 1
				}
				s, err := scale.NewLog(mn, mx, ev.Base)
				if err != nil {
					continue
				}
				ev.B0, ev.B1 = mkfdy(s.Min), mkfdy(s.Max)
				s.Nice(o)
				ev.A0, ev.A1 = mkfdy(s.Min), mkfdy(s.Max)
				if ev.A0.C == "fin" && ev.A1.C == "fin" && s.Min != 0 && s.Max != 0 {
					major, _ := s.Ticks(o)
					ev.NMaj = len(major)
					if len(major) >= 2 {
						ev.MF, ev.ML = mkfdy(major[0]), mkfdy(major[len(major)-1])
						r := major[1] / major[0]
						if r < 1 {
							r = 1 / r
						}
						ev.SP = mkfdy(r)
					}
					s2 := s
					s2.Nice(o)
					ev.C0, ev.C1 = mkfdy(s2.Min), mkfdy(s2.Max)
				}
			}
			enc.Encode(ev)
		}
	}
	return nil
}
