package main

// Family kde (C12): stats.KDE against spec/kde/KDE.tla.

import (
	"encoding/json"
	"io"
	"math"
	"math/big"
	"sort"

	"github.com/aclements/go-moremath/stats"
)

func init() {
	families["kde"] = &family{replay: kdeReplay}
}

type kdePoint struct {
	X      int64 `json:"x"`
	Inside bool  `json:"inside"`
	Below  bool  `json:"below"`
	PN     int64 `json:"pn"`
	CN     int64 `json:"cn"`
	EN     int64 `json:"en"`
}
type kdeCase struct {
	Xs      []int64    `json:"xs"`
	Ws      []int64    `json:"ws"`
	HN      int64      `json:"hn"`
	HD      int64      `json:"hd"`
	Kind    string     `json:"kind"`
	Lo      int64      `json:"lo"`
	Hi      int64      `json:"hi"`
	EpExact bool       `json:"epexact"`
	PDen    int64      `json:"pden"`
	CDen    int64      `json:"cden"`
	WSum    int64      `json:"wsum"`
	Shifts  []int64    `json:"shifts"`
	Mirror  int64      `json:"mirror"`
	CdfC    int64      `json:"cdfc"`
	Var     [2]int64   `json:"var"`
	Q1      [2]int64   `json:"q1"`
	Q3      [2]int64   `json:"q3"`
	Pts     []kdePoint `json:"pts"`
}

// 8-point Gauss-Legendre on [a,b]
var glx = []float64{0.1834346424956498, 0.5255324099163290, 0.7966664774136267, 0.9602898564975363}
var glw = []float64{0.3626837833783620, 0.3137066458778873, 0.2223810344533745, 0.1012285362903763}

func gl8(f func(float64) float64, a, b float64) float64 {
	m, h := (a+b)/2, (b-a)/2
	s := 0.0
	for i := range glx {
		s += glw[i] * (f(m+h*glx[i]) + f(m-h*glx[i]))
	}
	return s * h
}

func kdeReplay(in io.Reader, raw bool, args []string) (*Summary, error) {
	sum := &Summary{Rule: "one case per (sample with optional weights, bandwidth, boundary configuration) emitted by TLC with exact Epanechnikov PDF/CDF values on the quarter lattice from below the lower to above the upper boundary, the reflection image list, the weighted ECDF and the exact ingredients of the bandwidth rules; the real KDE is evaluated with the Epanechnikov, Gaussian and delta kernels; non-trivial = at least 2 sample values and a boundary configuration other than none, or weights"}
	worst := map[string]float64{}
	err := forEachCase(in, raw, func(c json.RawMessage) {
		var kc kdeCase
		if e := json.Unmarshal(c, &kc); e != nil || len(kc.Xs) == 0 {
			sum.viol("machinery", c, "bad case: %v", e)
			return
		}
		sum.Cases++
		if len(kc.Xs) >= 2 && (kc.Kind != "none" || len(kc.Ws) > 0) {
			sum.Nontrivial++
			if sum.Nontrivial%41 == 1 {
				small := kc
				small.Pts = small.Pts[:3]
				b, _ := json.Marshal(small)
				sum.sample(b)
			}
		}
		defer func() {
			if r := recover(); r != nil {
				sum.viol("panic", c, "panic: %v", r)
			}
		}()
		const L = 4.0
		xs := make([]float64, len(kc.Xs))
		for i, v := range kc.Xs {
			xs[i] = float64(v) / L
		}
		var ws []float64
		if len(kc.Ws) > 0 {
			ws = make([]float64, len(kc.Ws))
			for i, v := range kc.Ws {
				ws[i] = float64(v)
			}
		}
		h := float64(kc.HN) / float64(kc.HD)
		bmin, bmax := 0.0, 0.0
		switch kc.Kind {
		case "lo":
			bmin, bmax = float64(kc.Lo)/L, math.Inf(1)
		case "hi":
			bmin, bmax = math.Inf(-1), float64(kc.Hi)/L
		case "both":
			bmin, bmax = float64(kc.Lo)/L, float64(kc.Hi)/L
		}
		if kc.Kind == "lo" && bmin == 0 || kc.Kind == "hi" && bmax == 0 {
			// the library encodes "no boundary" as (0,0); a half-line starting at 0 is still expressible (the other end is infinite)
		}
		mk := func(k stats.KDEKernel) *stats.KDE {
			return &stats.KDE{Sample: stats.Sample{Xs: append([]float64{}, xs...), Weights: append([]float64(nil), ws...)}, Kernel: k, Bandwidth: h, BoundaryMin: bmin, BoundaryMax: bmax}
		}
		sort.Slice(kc.Pts, func(i, j int) bool { return kc.Pts[i].X < kc.Pts[j].X })
		wsum := float64(kc.WSum)
		weight := func(i int) float64 {
			if ws == nil {
				return 1
			}
			return ws[i]
		}
		// Gaussian reference through the specification's image structure
		gy := func(t float64) float64 {
			s := 0.0
			for i, xi := range xs {
				u := (t - xi) / h
				s += weight(i) * math.Exp(-u*u/2) / (h * math.Sqrt(2*math.Pi))
			}
			return s / wsum
		}
		gY := func(t float64) float64 {
			s := 0.0
			for i, xi := range xs {
				s += weight(i) * 0.5 * math.Erfc(-(t-xi)/(h*math.Sqrt2))
			}
			return s / wsum
		}
		gaussWant := func(p kdePoint) (pdf, cdf float64) {
			x := float64(p.X) / L
			if p.Below {
				return 0, 0
			}
			if !p.Inside {
				return 0, 1
			}
			for _, s := range kc.Shifts {
				sh := float64(s) / L
				pdf += gy(x + sh)
				cdf += gY(x + sh)
				if kc.Kind != "none" {
					m := float64(kc.Mirror)/L - x + sh
					pdf += gy(m)
					cdf -= gY(m)
				}
			}
			return pdf, cdf + float64(kc.CdfC)
		}
		ep, ga := mk(stats.EpanechnikovKernel), mk(stats.GaussianKernel)
		prevE, prevG := 0.0, 0.0
		for pi, p := range kc.Pts {
			x := float64(p.X) / L
			sum.Checks++
			wp := new(big.Rat).SetFrac64(3*kc.HD*p.PN, kc.PDen)
			wc := new(big.Rat).SetFrac64(p.CN, kc.CDen)
			gp, gc := ep.PDF(x), ep.CDF(x)
			if kc.EpExact {
				if !closeRat(gp, wp, 1e-9, 1e-9) {
					sum.viol("PDF-epanechnikov", c, "x=%v: PDF=%.12g want %.12g", x, gp, rf(wp))
				}
				if !closeRat(gc, wc, 1e-9, 1e-9) {
					sum.viol("CDF-epanechnikov", c, "x=%v: CDF=%.12g want %.12g", x, gc, rf(wc))
				}
				if e := math.Abs(gp - rf(wp)); e > worst["ep-pdf"] {
					worst["ep-pdf"] = e
				}
			}
			if gp < 0 || gc < prevE-1e-12 || gc < -1e-12 || gc > 1+1e-12 {
				sum.viol("KDE-laws", c, "epanechnikov x=%v: PDF=%v CDF=%v previous CDF=%v", x, gp, gc, prevE)
			}
			prevE = math.Max(prevE, gc)
			wgp, wgc := gaussWant(p)
			ggp, ggc := ga.PDF(x), ga.CDF(x)
			if !closeF(ggp, wgp, 1e-9, 1e-9) {
				sum.viol("PDF-gaussian", c, "x=%v: PDF=%.12g want %.12g", x, ggp, wgp)
			}
			if !closeF(ggc, wgc, 1e-9, 1e-9) {
				sum.viol("CDF-gaussian", c, "x=%v: CDF=%.12g want %.12g", x, ggc, wgc)
			}
			if e := math.Abs(ggc - wgc); e > worst["ga-cdf"] {
				worst["ga-cdf"] = e
			}
			if ggp < 0 || ggc < prevG-1e-12 || ggc < -1e-12 || ggc > 1+1e-12 {
				sum.viol("KDE-laws", c, "gaussian x=%v: PDF=%v CDF=%v previous CDF=%v", x, ggp, ggc, prevG)
			}
			prevG = math.Max(prevG, ggc)
			// integral of the PDF over the lattice cell [x, x+1/4] equals the CDF difference (cells inside the support)
			if pi+1 < len(kc.Pts) && p.Inside && kc.Pts[pi+1].Inside {
				x2 := float64(kc.Pts[pi+1].X) / L
				for _, k := range []*stats.KDE{ep, ga} {
					integ := gl8(k.PDF, x, x2)
					diff := k.CDF(x2) - k.CDF(x)
					if math.Abs(integ-diff) > 1e-9 {
						sum.viol("PDF-CDF-consistency", c, "kernel %v: integral of PDF over [%v,%v] = %.12g but CDF difference = %.12g", k.Kernel, x, x2, integ, diff)
					}
				}
			}
			if kc.Kind == "none" {
				dk := mk(stats.DeltaKernel)
				we := new(big.Rat).SetFrac64(p.EN, kc.WSum)
				if got := dk.CDF(x); !closeRat(got, we, 1e-12, 0) {
					sum.viol("CDF-delta", c, "x=%v: CDF=%v want weighted ECDF %v", x, got, rf(we))
				}
			}
		}
		// the last point lies above the upper boundary / far right: total mass
		if kc.Kind == "hi" || kc.Kind == "both" {
			if ep.CDF(bmax) != 1 || ga.CDF(bmax) != 1 || ep.PDF(bmax) != 0 || ga.PDF(bmax) != 0 {
				sum.viol("KDE-boundary", c, "at BoundaryMax: CDF %v %v PDF %v %v", ep.CDF(bmax), ga.CDF(bmax), ep.PDF(bmax), ga.PDF(bmax))
			}
			// mass on the support: CDF just below the upper boundary is 1 within the density there times the gap
			for _, k := range []*stats.KDE{ep, ga} {
				xb := math.Nextafter(bmax, math.Inf(-1))
				if v := k.CDF(xb); math.Abs(v-1) > 1e-9 {
					sum.viol("KDE-total-mass", c, "kernel %v: CDF just below BoundaryMax = %.12g, total mass on the support is not 1", k.Kernel, v)
				}
			}
		}
		if kc.Kind == "lo" || kc.Kind == "both" {
			for _, k := range []*stats.KDE{ep, ga} {
				if v := k.CDF(bmin); math.Abs(v) > 1e-9 {
					sum.viol("KDE-boundary", c, "kernel %v: CDF(BoundaryMin)=%v", k.Kernel, v)
				}
			}
		}
		// Bounds: finite, inside the boundaries, at least 98% of the mass
		for _, k := range []*stats.KDE{ep, ga} {
			lo, hi := k.Bounds()
			sum.Checks++
			if math.IsNaN(lo) || math.IsInf(lo, 0) || math.IsNaN(hi) || math.IsInf(hi, 0) || !(lo < hi) {
				sum.viol("Bounds", c, "kernel %v: Bounds=(%v,%v) not a finite interval", k.Kernel, lo, hi)
				continue
			}
			if kc.Kind != "none" && (lo < bmin || hi > bmax) {
				sum.viol("Bounds", c, "kernel %v: Bounds=(%v,%v) outside the boundaries [%v,%v]", k.Kernel, lo, hi, bmin, bmax)
			}
			if m := k.CDF(hi) - k.CDF(lo); m < 0.98-1e-9 && !(kc.Kind != "none" && hi == bmax && 1-k.CDF(lo) >= 0.98-1e-9) {
				sum.viol("Bounds", c, "kernel %v: Bounds=(%v,%v) holds only %.4f of the mass", k.Kernel, lo, hi, m)
			}
		}
		// a KDE's own fields other than a zero Bandwidth are not modified by queries
		if ep.Bandwidth != h || !bitsEqual(ep.Sample.Xs, xs) || (ws != nil && !bitsEqual(ep.Sample.Weights, ws)) {
			sum.viol("argument-modified", c, "queries changed the KDE's sample or bandwidth")
		}
		// Bandwidth rules (unweighted samples with at least two values)
		if ws == nil && len(xs) >= 2 && kc.Var[1] > 0 && kc.Var[0] > 0 && kc.Kind == "none" && kc.HN == 1 && kc.HD == 1 {
			s := math.Sqrt(float64(kc.Var[0])/float64(kc.Var[1])) / L
			iqr := (float64(kc.Q3[0])/float64(kc.Q3[1]) - float64(kc.Q1[0])/float64(kc.Q1[1])) / L
			n := float64(len(xs))
			silver := 1.06 * s * math.Pow(n, -0.2)
			scott := 1.06 * math.Min(s, iqr/1.349) * math.Pow(n, -0.2)
			smp := stats.Sample{Xs: append([]float64{}, xs...)}
			sum.Checks++
			if got := stats.BandwidthSilverman(smp); !closeF(got, silver, 0, 1e-12) {
				sum.viol("BandwidthSilverman", c, "got %v want %v", got, silver)
			}
			if got := stats.BandwidthScott(smp); !closeF(got, scott, 1e-300, 1e-12) {
				sum.viol("BandwidthScott", c, "got %v want %v", got, scott)
			}
			if scott > 0 {
				z := &stats.KDE{Sample: smp, Kernel: stats.GaussianKernel}
				v := z.PDF(xs[0])
				if !closeF(z.Bandwidth, scott, 0, 1e-12) {
					sum.viol("Bandwidth-lazy", c, "zero Bandwidth was filled with %v, Scott's rule gives %v", z.Bandwidth, scott)
				}
				e := &stats.KDE{Sample: smp, Kernel: stats.GaussianKernel, Bandwidth: z.Bandwidth}
				if v != e.PDF(xs[0]) || z.CDF(xs[0]+0.3) != e.CDF(xs[0]+0.3) {
					sum.viol("Bandwidth-lazy", c, "KDE with zero Bandwidth differs from the KDE with Scott's bandwidth given explicitly")
				}
			}
		}
	})
	sum.note("worst_abs_error", worst)
	return sum, err
}
